"""C12, generic refusal fuzzer (implementation only): reflection over the public API of every kind of object of a
prepared file - every settable attribute, and every creating / appending / linking / writing method, one parameter at a
time - with a pool of ill-typed, ill-shaped, out-of-range and wrong-kind arguments.  A call that RAISES must leave the
complete HDF5 content (objects, link names in order, attributes, datasets) exactly as it was; a call that is accepted is
not judged here.  Nothing in this file knows which calls ought to be refused."""
import inspect
import json
import os
import random
import sys

import numpy as np
import nixio

sys.path.insert(0, os.path.dirname(os.path.abspath(__file__)))
from impl_refusals import base, snap, diff  # noqa: E402

METHOD_PREFIXES = ("create_", "append", "link_", "write_", "extend", "force_", "copy_section", "remove_link")
SKIP_ATTRS = {"file", "mode", "auto_update_timestamps", "write_to_csv"}       # the last one writes a CSV file, not the NIX file


def bad_values(c):
    return [
        ("object()", object()), ("'abc'", "abc"), ("''", ""), ("b'x'", b"x"), ("['a']", ["a"]), ("[1, 'a']", [1, "a"]),
        ("ragged list", [[1.0], [2.0, 3.0]]), ("-1", -1), ("0.5", 0.5), ("2**70", 2 ** 70), ("nan", float("nan")), ("{}", {}),
        ("text array", np.array(["x", "y"])), ("[None]", [None]), ("[]", []), ("<Tag>", c["t"]), ("<Section>", c["s"]),
        ("<array of another block>", c["foreign"]), ("<DataArray>", c["a"]), ("<DataFrame>", c["df"]), ("5", 5), ("True", True),
        ("[2**70]", [2 ** 70]), ("[3.0, 1.0]", [3.0, 1.0]), ("text with a NUL", "a\x00b"), ("[text with a NUL]", ["a\x00b"]), ("'x/y'", "x/y"), ("<id of an existing entity>", c["a"].id),
    ]


def valid_arg(pname, c):
    table = {
        "name": "fz", "type_": "t", "array_type": "t", "data": np.arange(3.0), "position": [1.0], "positions": c["p"],
        "col_dict": {"q": int}, "link_type": "untagged", "ticks": [1.0, 2.0, 3.0], "labels": ["a", "b", "c"],
        "sampling_interval": 1.0, "values_or_dtype": [1], "index": [-1], "data_array": c["a"], "data_frame": c["df5"],
        "obj": c["sub"], "time": 5, "item": c["a"], "rows": [(1, 2.0)], "row": (1, 2.0), "column": [1, 2], "cell": 1,
        "values": [1], "vals": [1], "unit": "mV", "label": "l",
    }
    return table.get(pname, inspect.Parameter.empty)


def targets(c):
    return {k: v for k, v in c.items() if not isinstance(v, (str, int, float))}


def enumerate_trials(c):
    """[(label, key, kind, name, parameter or None, index of bad value)] - built from the classes, not from a list of calls"""
    out = []
    nbad = len(bad_values(c))
    for key, o in sorted(targets(c).items()):
        cls = type(o)
        for name in sorted(dir(cls)):
            if name.startswith("_") or name in SKIP_ATTRS:
                continue
            attr = None
            for k in cls.__mro__:
                if name in k.__dict__:
                    attr = k.__dict__[name]
                    break
            if isinstance(attr, property) and attr.fset is not None:
                for j in range(nbad):
                    out.append((key, "set", name, None, j))
            elif callable(attr) and name.startswith(METHOD_PREFIXES):
                try:
                    params = [p for p in inspect.signature(getattr(o, name)).parameters.values()
                              if p.kind in (p.POSITIONAL_OR_KEYWORD, p.KEYWORD_ONLY)]
                except (TypeError, ValueError):
                    continue
                for p in params:
                    for j in range(nbad):
                        out.append((key, "call", name, p.name, j))
    # link lists: append / extend / delete with ill-kinded items
    for key, lists in (("t", ["references", "sources"]), ("mt", ["references", "sources"]), ("g", ["data_arrays", "tags", "multi_tags", "sources", "data_frames"]),
                       ("a", ["sources"])):
        for ln in lists:
            for j in range(nbad):
                out.append((key, "list-append", ln, None, j))
    return out


def perform(c, trial):
    key, kind, name, pname, j = trial
    o = c[key]
    label, val = bad_values(c)[j]
    if kind == "set":
        setattr(o, name, val)
        return
    if kind == "list-append":
        getattr(o, name).append(val)
        return
    meth = getattr(o, name)
    kwargs = {}
    for p in inspect.signature(meth).parameters.values():
        if p.kind not in (p.POSITIONAL_OR_KEYWORD, p.KEYWORD_ONLY):
            continue
        if p.name == pname:
            kwargs[p.name] = val
        elif p.default is inspect.Parameter.empty:
            v = valid_arg(p.name, c)
            if v is inspect.Parameter.empty:
                raise LookupError("no valid argument known for parameter %s" % p.name)
            kwargs[p.name] = v
    meth(**kwargs)


def describe(c, trial):
    key, kind, name, pname, j = trial
    label = bad_values(c)[j][0]
    cls = type(c[key]).__name__
    if kind == "set":
        return "%s.%s = %s" % (cls, name, label)
    if kind == "list-append":
        return "%s.%s.append(%s)" % (cls, name, label)
    return "%s.%s(%s=%s)" % (cls, name, pname, label)


def observable(changes, before, after):
    """drop what no reader can see: a NEW, EMPTY container group without attributes (the library creates the group of a
    container before it tests the arguments of the first member; the Coq model has the same step, theorem
    c12_nested_creators) and the mention of that group in its parent's list of links"""
    empty_new = set(ch[1:] for ch in changes
                    if ch.startswith("+") and after[ch[1:]].get("kind") == "Group" and not after[ch[1:]].get("links")
                    and not after[ch[1:]].get("attrs"))
    out = []
    for ch in changes:
        if ch.startswith("+") and ch[1:] in empty_new:
            continue
        if ch.startswith("~") and ch.endswith(" (links)"):
            path = ch[1:-len(" (links)")]
            b, a = before[path].get("links", []), after[path].get("links", [])
            prefix = "" if path == "/" else path + "/"
            if [x for x in a if (prefix + x) not in empty_new] == b:
                continue
        out.append(ch)
    return out


def main():
    req = json.load(sys.stdin)
    real_stdout = os.fdopen(os.dup(1), "w")      # a private copy: an ill-typed argument may end up closing descriptor 1
    sys.stdout = sys.stderr
    path = os.path.join(os.getcwd(), "fz.nix")
    f = nixio.File.open(path, nixio.FileMode.Overwrite)
    trials = enumerate_trials(base(f))
    f.close()
    total = len(trials)
    rnd = random.Random(req.get("seed", 0))
    if req.get("n") and req["n"] < total:
        trials = rnd.sample(trials, req["n"])
    if req.get("parts"):
        trials = trials[req["part"]::req["parts"]]          # this process's share
    out = {"enumerated": total, "run": 0, "refused": 0, "accepted": 0, "skipped": 0, "violations": [], "call_sites": 0}
    sites = set()
    for trial in trials:
        f = nixio.File.open(path, nixio.FileMode.Overwrite)
        c = base(f)
        what = describe(c, trial)
        before = snap(f)
        sess_before = (f.auto_update_timestamps, f.mode)          # the session's own switches are state, too
        nixio.util.util.now_int = lambda: 2000000000
        try:
            perform(c, trial)
            outcome = "accepted"
        except LookupError:
            outcome = "skipped"
        except Exception as exc:
            outcome = "refused"
            exc_name = type(exc).__name__
        out["run"] += 1
        out[outcome] += 1
        if outcome == "refused":
            sites.add((trial[0], trial[1], trial[2], trial[3]))
            try:
                after = snap(f)
                ch = observable(diff(before, after), before, after)
            except Exception as exc2:
                ch = ["the file cannot be read any more: " + type(exc2).__name__]
            try:
                if (f.auto_update_timestamps, f.mode) != sess_before:
                    ch = list(ch) + ["~session switches (auto_update_timestamps, mode): %r -> %r"
                                     % (sess_before, (f.auto_update_timestamps, f.mode))]
            except Exception as exc3:
                ch = list(ch) + ["~session switches unreadable: " + type(exc3).__name__]
            if ch:
                out["violations"].append({"call": what, "exception": exc_name, "changed": ch[:6]})
        try:
            f.close()
        except Exception:
            pass
    out["call_sites"] = len(sites)
    import time
    nixio.util.util.now_int = lambda: int(time.time())
    try:
        os.remove(path)
    except OSError:
        pass
    json.dump(out, real_stdout)


main()
