"""Implementation side of the dimension-link histories (C05 dimension clauses, C12 refusals)."""
import json
import zlib
import os
import sys

import numpy as np
import nixio
from nixio.exceptions import IncompatibleDimensions

UNITS = ["ms", "s", "mV", "kHz", ""]


def classify(exc):
    if isinstance(exc, IncompatibleDimensions):
        return 1
    if isinstance(exc, ValueError):
        return 2
    if isinstance(exc, RuntimeError):
        return 3
    if isinstance(exc, IndexError):
        return 4
    return 9


def ints(seq):
    return [int(round(float(x))) for x in seq]


def observe(code, t, r, s):
    def own(g, name):
        return ints(g.get_data(name)) if g.has_data(name) else None
    st = {
        "t_unit": t.unit, "t_label": t.label, "t_shape": [int(x) for x in t.shape], "t_cells": ints(np.asarray(t[:]).ravel()),
        "r_ticks": own(r._h5group, "ticks"), "r_unit": r._h5group.get_attr("unit"), "r_label": r._h5group.get_attr("label"),
        "r_link": [int(x) for x in r.dimension_link.index] if r.has_link else None,
        "s_labels": own(s._h5group, "labels"), "s_link": [int(x) for x in s.dimension_link.index] if s.has_link else None,
    }
    extra = []
    host = r._parent
    for d in list(host.dimensions)[2:]:
        g = d._h5group
        kind = g.get_attr("dimension_type")
        if kind == "range":
            extra.append(["range", own(g, "ticks"), g.get_attr("unit"), g.get_attr("label")])
        elif kind == "sample":
            off = g.get_attr("offset")
            extra.append(["sampled", int(round(float(g.get_attr("sampling_interval")))), g.get_attr("unit"), g.get_attr("label"),
                          None if off is None else int(round(float(off)))])
        else:
            extra.append(["set", own(g, "labels")])
    st["extra"] = extra

    def get(fn, conv):
        try:
            v = fn()
        except Exception:
            return "raise"
        return conv(v)
    return {"err": code, "state": st,
            "ticks": get(lambda: r.ticks, ints), "unit": get(lambda: r.unit, lambda x: x), "label": get(lambda: r.label, lambda x: x),
            "labels": get(lambda: s.labels, ints)}


def queries(dim, coords):
    """index_of in the three modes and range_indices in both, at / between / outside the given sample coordinates"""
    from nixio.dimensions import IndexMode, SliceMode
    n = len(coords)
    if n:
        pts = sorted(set([coords[0] - 1.0, coords[-1] + 2.2] + [float(c) for c in coords] +
                         [(coords[j] + coords[j + 1]) / 2.0 for j in range(n - 1)]))
    else:
        pts = [-1.0, 0.0, 0.5, 2.0]
    out = []
    for p in pts:
        for m in (IndexMode.LessOrEqual, IndexMode.Less, IndexMode.GreaterOrEqual):
            try:
                out.append(int(dim.index_of(p, m)))
            except Exception as exc:
                out.append("raise:" + ("IndexError" if isinstance(exc, IndexError) else type(exc).__name__))
    for a, z in zip(pts, pts[1:] + pts[:1]):
        for m in (SliceMode.Exclusive, SliceMode.Inclusive):
            try:
                r = dim.range_indices(a, z, m)
                out.append(None if r is None else [int(x) for x in r])
            except Exception as exc:
                out.append("raise:" + ("IndexError" if isinstance(exc, IndexError) else type(exc).__name__))
    return out


def twin_check(r, s, ref):
    """a LINKED dimension converts positions exactly like a dimension that holds the same ticks / labels itself
    (ref: a range and a set dimension of a scratch array, given those values here); returns a description or None"""
    rr, rs = ref

    def values(fn):
        try:
            return list(fn())          # a link to a vector that does not exist reads with an error (observed elsewhere)
        except Exception:
            return None
    try:
        if r.has_link:
            ticks = values(lambda: [float(x) for x in r.ticks]) or []
            if len(ticks) and all(a < b for a, b in zip(ticks, ticks[1:])):
                rr.ticks = ticks
                if queries(r, ticks) != queries(rr, ticks):
                    return "range"
        if s.has_link:
            labels = values(lambda: [str(x) for x in s.labels]) or []
            if labels:
                rs.labels = labels
                coords = [float(j) for j in range(len(labels))]
                if queries(s, coords) != queries(rs, coords):
                    return "set"
    except Exception as exc:
        return "raise:" + type(exc).__name__
    return None


def main():
    req = json.load(sys.stdin)
    wd = os.getcwd()
    path = os.path.join(wd, "dl.nix")
    f = nixio.File.open(path, nixio.FileMode.Overwrite)
    out = []
    for k, c in enumerate(req["cases"]):
        b = f.create_block("b%d" % k, "t")
        h = b.create_data_array("host", "t", data=np.zeros((3, 2)))
        ini = c["init"]
        t = b.create_data_array("target", "t", data=np.array(ini["t_cells"], dtype=float).reshape(tuple(ini["t_shape"])))
        if ini["t_unit"] is not None:
            t.unit = ini["t_unit"]
        if ini["t_label"] is not None:
            t.label = ini["t_label"]
        kw = {}
        if ini["r_unit"] is not None:
            kw["unit"] = ini["r_unit"]
        if ini["r_label"] is not None:
            kw["label"] = ini["r_label"]
        r = h.append_range_dimension([float(x) for x in ini["r_ticks"]] if ini["r_ticks"] is not None else None, **kw)
        s = h.append_set_dimension([str(x) for x in ini["s_labels"]] if ini["s_labels"] is not None else None)
        scratch = b.create_data_array("scratch", "t", data=np.zeros((2, 2)))
        ref = (scratch.append_range_dimension([0.0, 1.0]), scratch.append_set_dimension(["a", "b"]))
        obs = []
        # two Python objects of every participant: the calls alternate between them, the observation is made through the
        # objects that did NOT make the call, and the reads through both must agree
        par = zlib.crc32(json.dumps(c, sort_keys=True).encode())
        H, T, R, S = [h, b.data_arrays["host"]], [t, b.data_arrays["target"]], None, None
        R, S = [r, H[1].dimensions[0]], [s, H[1].dimensions[1]]
        for nop, op in enumerate(c["ops"]):
            code = 0
            w = (nop + par) % 2
            h, t, r, s = H[w], T[w], R[w], S[w]
            try:
                o = op[0]
                if o == "RSetTicks":
                    r.ticks = [float(x) for x in op[1]]
                elif o == "RLink":
                    r.link_data_array(t, list(op[1]))
                elif o == "RUnlink":
                    r.remove_link()
                elif o == "RSetUnit":
                    r.unit = op[1]
                elif o == "RSetLabel":
                    r.label = op[1]
                elif o == "SSetLabels":
                    s.labels = [str(x) for x in op[1]]
                elif o == "SLink":
                    s.link_data_array(t, list(op[1]))
                elif o == "SUnlink":
                    s.remove_link()
                elif o in ("AppendRange", "AppendSampled", "AppendSet"):
                    def sv(a):
                        return None if a is None else (5 if a == "BAD" else a)

                    def nv(a):
                        return None if a is None else ("x" if a == "BAD" else float(a))
                    try:
                        if o == "AppendRange":
                            tk = op[1]
                            ticks = None if tk is None else (["a", "b"] if tk == "BAD" else [float(x) for x in tk])
                            h.append_range_dimension(ticks, label=sv(op[2]), unit=sv(op[3]))
                        elif o == "AppendSampled":
                            h.append_sampled_dimension(nv(op[1]), label=sv(op[2]), unit=sv(op[3]), offset=nv(op[4]))
                        else:
                            tk = op[1]
                            h.append_set_dimension(None if tk is None else ([1, 2] if tk == "BAD" else [str(x) for x in tk]))
                    except Exception:
                        raise ValueError("refused")
                elif o == "TSetUnit":
                    t.unit = op[1]
                elif o == "TSetLabel":
                    t.label = op[1]
                elif o == "TSetCell":
                    flat = np.asarray(t[:]).ravel()
                    if op[1] < flat.size:
                        flat[op[1]] = float(op[2])
                        t[:] = flat.reshape(t.shape)
                elif o == "Reopen":
                    f.close()
                    f = nixio.File.open(path, nixio.FileMode.ReadWrite)
                    b = f.blocks["b%d" % k]
                    H = [b.data_arrays["host"], b.data_arrays["host"]]
                    T = [b.data_arrays["target"], b.data_arrays["target"]]
                    R = [H[0].dimensions[0], H[1].dimensions[0]]
                    S = [H[0].dimensions[1], H[1].dimensions[1]]
                    scratch = b.data_arrays["scratch"]
                    ref = (scratch.dimensions[0], scratch.dimensions[1])
            except Exception as exc:
                code = classify(exc)
            ob = observe(code, T[1 - w], R[1 - w], S[1 - w])
            ob2 = observe(code, T[w], R[w], S[w])
            ob["objects_agree"] = (ob == ob2)
            ob["twin"] = twin_check(R[1 - w], S[1 - w], ref)
            obs.append(ob)
        out.append(obs)
    f.close()
    os.remove(path)
    json.dump(out, sys.stdout)


main()
