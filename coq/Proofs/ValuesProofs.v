(* Proofs/ValuesProofs.v -- C10. *)
From Coq Require Import ZArith List Bool Lia.
From NixV Require Import Base.Prelude Pure.Values Pure.ValuesCheck.
Import ListNotations.
Open Scope Z_scope.

Lemma vty_eqb_eq a b : vty_eqb a b = true <-> a = b.
Proof. destruct a, b; cbn; split; intro H; try reflexivity; try discriminate. Qed.

Definition well_typed (p : prop) : Prop := Forall (fun v => get_dtype v = Some (p_ty p)) (p_vals p).

(* the scan accepts a list only if every element has the wanted type *)
Lemma scan_ok t : forall l, scan_types t l = None -> Forall (fun v => get_dtype v = Some t) l.
Proof.
  induction l as [|v r IH]; intros H; [constructor|]. cbn in H.
  destruct (get_dtype v) as [t'|] eqn:E; [|discriminate].
  destruct (vty_eqb t' t) eqn:Et; [|discriminate]. apply vty_eqb_eq in Et. subst.
  constructor; [exact E | apply IH; exact H].
Qed.
Lemma check_types_ok ty vals : check_types ty vals = None -> Forall (fun v => get_dtype v = Some ty) vals.
Proof.
  unfold check_types. destruct vals as [|first r]; [constructor|].
  destruct (get_dtype first) as [t|] eqn:E; [|discriminate].
  destruct (vty_eqb t ty) eqn:Et; cbn [negb]; [|discriminate]. apply vty_eqb_eq in Et. subst.
  apply scan_ok.
Qed.

(* reading returns exactly the values last stored, with the property's type *)
Theorem set_reads_back p vals p' : set_values p vals = inl p' ->
  p_vals p' = vals /\ p_ty p' = p_ty p /\ well_typed p'.
Proof.
  unfold set_values. destruct vals as [|v r]; [intros H; injection H as <-; repeat split; constructor|].
  destruct (check_types (p_ty p) (v :: r)) eqn:Ec; [discriminate|].
  destruct (forallb in_int64 (v :: r)); [|discriminate]. intros H. injection H as <-.
  repeat split. apply check_types_ok. exact Ec.
Qed.
(* appending adds the new values after the existing ones *)
Theorem extend_appends p vals p' : well_typed p -> extend_values p vals = inl p' ->
  p_vals p' = p_vals p ++ vals /\ p_ty p' = p_ty p /\ well_typed p'.
Proof.
  intros W. unfold extend_values. destruct vals as [|v r]; [discriminate|].
  destruct (check_types (p_ty p) (v :: r)) eqn:Ec; [discriminate|].
  destruct (forallb in_int64 (v :: r)); [|discriminate]. intros H. injection H as <-.
  repeat split. unfold well_typed. cbn. apply Forall_app. split; [exact W | apply check_types_ok; exact Ec].
Qed.
Theorem new_property_typed vals p : new_property vals = inl p -> p_vals p = vals /\ well_typed p.
Proof.
  unfold new_property. destruct vals as [|v r]; [discriminate|].
  destruct (get_dtype v) as [t|] eqn:E; [|discriminate].
  destruct (check_types t (v :: r)) eqn:Ec; [discriminate|].
  destruct (forallb in_int64 (v :: r)); [|discriminate]. intros H. injection H as <-.
  split; [reflexivity|]. apply check_types_ok. exact Ec.
Qed.

(* values of another type, or of mixed types, are refused with a type error: whatever the
   position of the odd element *)
Lemma scan_mixed ty pre odd post t :
  Forall (fun v => get_dtype v = Some ty) pre -> get_dtype odd = Some t -> t <> ty ->
  scan_types ty (pre ++ odd :: post) = Some ETypeError.
Proof.
  intros Hpre Hodd Hne.
  assert (Ne : vty_eqb t ty = false) by (destruct (vty_eqb t ty) eqn:E; [apply vty_eqb_eq in E; contradiction | reflexivity]).
  assert (R : vty_eqb ty ty = true) by (apply vty_eqb_eq; reflexivity).
  induction Hpre as [|g pre' Hg Hp IH]; cbn.
  - rewrite Hodd, Ne. reflexivity.
  - rewrite Hg, R. exact IH.
Qed.
Theorem mixed_refused ty pre odd post t :
  Forall (fun v => get_dtype v = Some ty) pre -> get_dtype odd = Some t -> t <> ty ->
  check_types ty (pre ++ odd :: post) = Some ETypeError.
Proof.
  intros Hpre Hodd Hne. unfold check_types.
  assert (Ne : vty_eqb t ty = false) by (destruct (vty_eqb t ty) eqn:E; [apply vty_eqb_eq in E; contradiction | reflexivity]).
  assert (R : vty_eqb ty ty = true) by (apply vty_eqb_eq; reflexivity).
  destruct pre as [|f pre'].
  - cbn [app]. rewrite Hodd, Ne. reflexivity.
  - inversion Hpre as [|x l Hf Hpre']; subst. cbn [app]. rewrite Hf, R. cbn [negb].
    change (f :: pre' ++ odd :: post) with ((f :: pre') ++ odd :: post).
    apply scan_mixed with (t := t); assumption.
Qed.

Theorem bool_is_not_int b z :
  set_values (mkP TInt []) [VBool b] = inr ETypeError /\ set_values (mkP TBool []) [VInt z] = inr ETypeError /\
  extend_values (mkP TInt [VInt 1]) [VBool b] = inr ETypeError /\ extend_values (mkP TFloat []) [VInt z] = inr ETypeError.
Proof. repeat split; reflexivity. Qed.

(* a refused call - create, store, append, lookup, dict assignment, deletion - leaves every property as it was *)
Theorem refused_unchanged s o s' e :
  vstep s o = (s', [2; e]) -> s' = s.
Proof.
  intros H. destruct o; cbn [vstep] in H.
  - destruct (has_prop name s); [injection H as <- _; reflexivity|].
    destruct (new_property vals); [injection H; discriminate | injection H as <- _; reflexivity].
  - destruct (has_prop name s); [injection H as <- _; reflexivity | injection H; discriminate].
  - unfold with_prop in H. destruct (lookup name (s_props s)); [|injection H as <- _; reflexivity].
    destruct (set_values p vals); [injection H; discriminate | injection H as <- _; reflexivity].
  - unfold with_prop in H. destruct (lookup name (s_props s)); [|injection H as <- _; reflexivity].
    destruct (extend_values p vals); [injection H; discriminate | injection H as <- _; reflexivity].
  - destruct (sec_get s k) as [[l|n]|e']; injection H; intros; subst; try reflexivity; try discriminate.
  - destruct (sec_set s k vals); [injection H; discriminate | injection H as <- _; reflexivity].
  - destruct (sec_del s k); [injection H; discriminate | injection H as <- _; reflexivity].
  - destruct (has_sub name s); [injection H as <- _; reflexivity | injection H; discriminate].
  - injection H; discriminate.
Qed.

(* ---- the typed-values invariant over every history *)
Definition sect_ok (s : sect) : Prop := Forall (fun x => well_typed (snd x)) (s_props s).
Lemma lookup_In k l p : lookup k l = Some p -> In (k, p) l.
Proof.
  induction l as [|[n q] r IH]; cbn; [discriminate|]. destruct (Z.eqb n k) eqn:E.
  - apply Z.eqb_eq in E. subst. intros H. injection H as ->. left. reflexivity.
  - intros H. right. apply IH. exact H.
Qed.
Lemma replace_ok k p (l : list (Z * prop)) : Forall (fun x => well_typed (snd x)) l -> well_typed p ->
  Forall (fun x => well_typed (snd x)) (replace_prop k p l).
Proof.
  intros H Hp. induction H as [|[n q] r Hq Hr IH]; cbn; [constructor|].
  destruct (Z.eqb n k); constructor; auto.
Qed.
Lemma remove_ok k (l : list (Z * prop)) : Forall (fun x => well_typed (snd x)) l -> Forall (fun x => well_typed (snd x)) (remove_prop k l).
Proof.
  intros H. unfold remove_prop. apply Forall_forall. intros x Hx. apply filter_In in Hx.
  rewrite Forall_forall in H. apply H. tauto.
Qed.
Lemma append_ok (l : list (Z * prop)) x : Forall (fun x => well_typed (snd x)) l -> well_typed (snd x) ->
  Forall (fun x => well_typed (snd x)) (l ++ [x]).
Proof. intros H Hx. apply Forall_app. split; [exact H | constructor; [exact Hx | constructor]]. Qed.
Lemma empty_typed t : well_typed (mkP t []).
Proof. constructor. Qed.

Theorem step_keeps_typed s o : sect_ok s -> sect_ok (fst (vstep s o)).
Proof.
  intros H. unfold sect_ok in *. destruct o; cbn [vstep].
  - destruct (has_prop name s); [exact H|].
    destruct (new_property vals) as [p|e] eqn:En.
    + cbn. apply append_ok; [exact H | apply (new_property_typed _ _ En)].
    + exact H.
  - destruct (has_prop name s); [exact H|]. cbn. apply append_ok; [exact H | apply empty_typed].
  - unfold with_prop. destruct (lookup name (s_props s)) as [p|] eqn:El; [|exact H].
    destruct (set_values p vals) as [p'|e] eqn:Es; [|exact H].
    cbn. apply replace_ok; [exact H | apply (set_reads_back _ _ _ Es)].
  - unfold with_prop. destruct (lookup name (s_props s)) as [p|] eqn:El; [|exact H].
    destruct (extend_values p vals) as [p'|e] eqn:Es; [|exact H].
    cbn. apply replace_ok; [exact H|].
    assert (W : well_typed p).
    { rewrite Forall_forall in H. apply (H (name, p)). apply lookup_In. exact El. }
    apply (extend_appends _ _ _ W Es).
  - destruct (sec_get s k) as [[l|n]|e]; exact H.
  - destruct (sec_set s k vals) as [s'|e] eqn:Es.
    + cbn. unfold sec_set in Es. destruct (lookup k (s_props s)) as [p|] eqn:El.
      * destruct (set_values p vals) as [p'|e] eqn:E2; [|discriminate]. injection Es as <-. cbn.
        apply replace_ok; [exact H | apply (set_reads_back _ _ _ E2)].
      * destruct (new_property vals) as [p|e] eqn:E2; [|discriminate]. injection Es as <-. cbn.
        apply append_ok; [exact H | apply (new_property_typed _ _ E2)].
    + exact H.
  - destruct (sec_del s k) as [s'|e] eqn:Es; [|exact H].
    cbn. unfold sec_del in Es. destruct (lookup k (s_props s)); [|discriminate]. injection Es as <-.
    cbn. apply remove_ok. exact H.
  - destruct (has_sub name s); exact H.
  - exact H.
Qed.

Fixpoint run_state (s : sect) (ops : list vop) : sect :=
  match ops with [] => s | o :: r => run_state (fst (vstep s o)) r end.
(* after ANY history every stored value has its property's type *)
Theorem typed_invariant ops : sect_ok (run_state (mkS [] []) ops).
Proof.
  assert (G : forall s, sect_ok s -> sect_ok (run_state s ops)).
  { induction ops as [|o r IH]; intros s H; [exact H|]. cbn. apply IH. apply step_keeps_typed. exact H. }
  apply G. constructor.
Qed.

(* ---- the dictionary view *)
Lemma lookup_replace_same k p l : (exists q, lookup k l = Some q) -> lookup k (replace_prop k p l) = Some p.
Proof.
  induction l as [|[n q] r IH]; cbn; intros [q0 H]; [discriminate|].
  destruct (Z.eqb n k) eqn:E; cbn; rewrite E; [reflexivity | apply IH; exists q0; exact H].
Qed.
Lemma lookup_app_new k p l : lookup k l = None -> lookup k (l ++ [(k, p)]) = Some p.
Proof.
  induction l as [|[n q] r IH]; cbn; intros H; [rewrite Z.eqb_refl; reflexivity|].
  destruct (Z.eqb n k); [discriminate | apply IH; exact H].
Qed.

(* after section[key] = values, section[key] yields those values *)
Theorem dict_get_after_set s k vals s' : sec_set s k vals = inl s' -> vals <> [] ->
  sec_get s' k = inl (IValues vals).
Proof.
  intros H Hne. unfold sec_set in H. unfold sec_get, has_prop.
  destruct (lookup k (s_props s)) as [p|] eqn:El.
  - destruct (set_values p vals) as [p'|e] eqn:Es; [|discriminate]. injection H as <-. cbn [s_props].
    rewrite lookup_replace_same by (exists p; exact El). cbn.
    destruct (set_reads_back _ _ _ Es) as [-> _]. reflexivity.
  - destruct (new_property vals) as [p|e] eqn:En; [|discriminate]. injection H as <-. cbn [s_props].
    rewrite lookup_app_new by exact El. cbn. destruct (new_property_typed _ _ En) as [-> _]. reflexivity.
Qed.

Lemma lookup_some_in k l : (exists p, lookup k l = Some p) <-> In k (map fst l).
Proof.
  induction l as [|[n q] r IH]; cbn; [split; [intros [p H]; discriminate | intros []]|].
  destruct (Z.eqb n k) eqn:E.
  - apply Z.eqb_eq in E. subst. split; [intros _; left; reflexivity | intros _; exists q; reflexivity].
  - apply Z.eqb_neq in E. rewrite IH. split; [intros H; right; exact H | intros [H|H]; [congruence | exact H]].
Qed.
(* membership <=> the key is one of the keys iteration yields (properties, then subsections) *)
Theorem dict_contains s k : sec_contains s k = true <-> In k (sec_keys s).
Proof.
  unfold sec_contains, sec_keys, has_prop, has_sub. rewrite orb_true_iff, in_app_iff.
  split; intros [H|H].
  - left. apply lookup_some_in. destruct (lookup k (s_props s)) as [p|]; [exists p; reflexivity | discriminate].
  - right. apply existsb_exists in H. destruct H as [x [Hx E]]. apply Z.eqb_eq in E. subst. exact Hx.
  - left. apply lookup_some_in in H. destruct H as [p ->]. reflexivity.
  - right. apply existsb_exists. exists k. split; [exact H | apply Z.eqb_refl].
Qed.

Lemma lookup_remove_same k l : lookup k (remove_prop k l) = None.
Proof.
  induction l as [|[n q] r IH]; cbn; [reflexivity|]. destruct (Z.eqb n k) eqn:E; cbn; [exact IH | rewrite E; exact IH].
Qed.
Lemma lookup_remove_other k k' l : k' <> k -> lookup k' (remove_prop k l) = lookup k' l.
Proof.
  intros Hne. induction l as [|[n q] r IH]; cbn; [reflexivity|]. destruct (Z.eqb n k) eqn:E; cbn.
  - apply Z.eqb_eq in E. subst. assert (E2 : Z.eqb k k' = false) by (apply Z.eqb_neq; congruence). rewrite E2. exact IH.
  - destruct (Z.eqb n k'); [reflexivity | exact IH].
Qed.
(* del section[key] removes that property and nothing else *)
Theorem dict_del s k s' : sec_del s k = inl s' ->
  lookup k (s_props s') = None /\ s_subs s' = s_subs s /\
  forall k', k' <> k -> lookup k' (s_props s') = lookup k' (s_props s).
Proof.
  unfold sec_del. destruct (lookup k (s_props s)); [|discriminate]. intros H. injection H as <-. cbn.
  split; [apply lookup_remove_same|]. split; [reflexivity|]. intros k' Hne. apply lookup_remove_other. exact Hne.
Qed.
