(* Pure/VersionCheck.v -- correspondence / oracle functions for C11 (open outcomes). *)
From NixV Require Import Base.Prelude Gen.FileConsts Pure.Version.
Open Scope Z_scope.

Definition outcome_eqb (a b : outcome) : bool :=
  match a, b with
  | Opened, Opened | EInvalidFile, EInvalidFile | ERuntime, ERuntime | EType, EType => true
  | _, _ => false
  end.

(* specification of the gate, written independently of check_header's control flow *)
Definition spec_outcome_ok (m : fmode) (h : header) (o : outcome) : bool :=
  match h_format h with
  | Some f =>
      if negb (streq f file_format) then outcome_eqb o EInvalidFile
      else match h_version h with
           | Some [x; y; z] =>
               let idreq := tuple_ge [x; y; z] id_required_from in
               let idfine := negb idreq || id_ok (h_id h) in
               let allowed :=
                 match m with
                 | RW => zlist_eqb [x; y; z] lib_version && idfine
                 | RO => (x =? nth 0 lib_version 0) && (y <=? nth 1 lib_version 0) && idfine
                 | OW => true
                 end in
               Bool.eqb (outcome_eqb o Opened) allowed
           | _ => match m with OW => true | _ => negb (outcome_eqb o Opened) end
           end
  | None => outcome_eqb o EInvalidFile
  end.

(* a case: an EXISTING file with this header opened in mode m; the implementation's outcome.
   Overwrite never looks at the old header (it is replaced): expected Opened. *)
Definition open_case := (fmode * header * outcome)%type.
Definition check_open (c : open_case) : N :=
  let '(m, h, o) := c in
  match m with
  | OW => vcode (outcome_eqb o Opened) (outcome_eqb o Opened)
  | _ => vcode (outcome_eqb (check_header m h) o) (spec_outcome_ok m h o)
  end.
