(* Proofs/TableProofs.v -- the table model: every operation changes exactly the addressed cells. *)
From Coq Require Import ZArith List Bool Lia Arith.
From NixV Require Import Base.Prelude Pure.Table Pure.TableCheck.
Import ListNotations.
Open Scope Z_scope.

Lemma set_nth_length {A} (l : list A) n v : length (set_nth l n v) = length l.
Proof. revert n; induction l as [|x l IH]; intros [|n]; cbn; auto. Qed.
Lemma nth_set_nth_eq {A} (l : list A) n v d : (n < length l)%nat -> nth n (set_nth l n v) d = v.
Proof. revert n; induction l as [|x l IH]; intros [|n] H; cbn in *; try lia; auto. apply IH; lia. Qed.
Lemma nth_set_nth_neq {A} (l : list A) n m v d : n <> m -> nth m (set_nth l n v) d = nth m l d.
Proof. revert n m; induction l as [|x l IH]; intros [|n] [|m] H; cbn; auto; try congruence. Qed.

(* well-formed: every row has one cell per column *)
Definition wf (t : table) : Prop := forall r, In r (t_rows t) -> length r = ncols t.
Lemma forallb_row_ok t rows : forallb (row_ok t) rows = true -> forall r, In r rows -> length r = ncols t.
Proof. intros H r Hin. rewrite forallb_forall in H. apply H in Hin. unfold row_ok in Hin. now apply Nat.eqb_eq. Qed.
Lemma in_set_nth {A} (l : list A) n v x : In x (set_nth l n v) -> x = v \/ In x l.
Proof. revert n; induction l as [|y l IH]; intros [|n] H; cbn in *; auto.
  - destruct H; auto.
  - destruct H as [H|H]; auto. apply IH in H. tauto. Qed.

(* ---- append_rows *)
Lemma append_rows_spec t rows t' : append_rows t rows = Some t' ->
  t_cols t' = t_cols t /\ t_rows t' = t_rows t ++ rows.
Proof. unfold append_rows. destruct (forallb _ _); [|discriminate]. intros [= <-]. auto. Qed.
Lemma append_rows_wf t rows t' : wf t -> append_rows t rows = Some t' -> wf t'.
Proof. unfold append_rows. destruct (forallb _ _) eqn:E; [|discriminate]. intros W [= <-] r Hin. cbn in *.
  apply in_app_or in Hin. destruct Hin as [H|H]; [apply W, H|]. apply (forallb_row_ok t rows E r H). Qed.
Lemma append_rows_refuses t rows : append_rows t rows = None <-> exists r, In r rows /\ length r <> ncols t.
Proof. unfold append_rows. destruct (forallb _ _) eqn:E; split; try discriminate; auto.
  - intros (r & Hin & Hl). exfalso. apply Hl. apply (forallb_row_ok t rows E r Hin).
  - intros _. assert (H : ~ (forall r, In r rows -> row_ok t r = true)) by (rewrite <- forallb_forall; congruence).
    clear E. induction rows as [|r rows IH]. { exfalso; apply H; intros ? []. }
    destruct (row_ok t r) eqn:Er.
    + destruct IH as (r' & Hin & Hl). { intro H'. apply H. intros x [<-|Hx]; auto. } exists r'. split; [right|]; auto.
    + exists r. split; [left; auto|]. unfold row_ok in Er. now apply Nat.eqb_neq. Qed.

(* ---- write_cell *)
Lemma write_cell_spec t r c v t' : wf t -> write_cell t r c v = Some t' ->
  t_cols t' = t_cols t /\ nrows t' = nrows t /\ read_cell t' r c = v /\
  (forall r' c', (r', c') <> (r, c) -> read_cell t' r' c' = read_cell t r' c').
Proof. unfold write_cell. intros W. destruct (negb (r <? nrows t)%nat || negb (c <? ncols t)%nat) eqn:E; [discriminate|].
  apply orb_false_elim in E. destruct E as [Er Ec]. apply negb_false_iff, Nat.ltb_lt in Er, Ec.
  intros [= <-]. unfold read_cell, nrows. cbn. split; auto. split; [apply set_nth_length|]. split.
  - rewrite nth_set_nth_eq by exact Er. apply nth_set_nth_eq. rewrite (W (nth r (t_rows t) [])); auto. apply nth_In, Er.
  - intros r' c' Hne. destruct (Nat.eq_dec r r') as [<-|Hr].
    + rewrite nth_set_nth_eq by exact Er. apply nth_set_nth_neq. congruence.
    + now rewrite nth_set_nth_neq. Qed.
Lemma write_cell_wf t r c v t' : wf t -> write_cell t r c v = Some t' -> wf t'.
Proof. unfold write_cell. intros W. destruct (_ || _) eqn:E; [discriminate|].
  apply orb_false_elim in E. destruct E as [Er Ec]. apply negb_false_iff, Nat.ltb_lt in Er.
  intros [= <-] x Hin. cbn in *. apply in_set_nth in Hin. destruct Hin as [->|Hin]; [|apply W, Hin].
  rewrite set_nth_length. apply W, nth_In, Er. Qed.
Lemma write_cell_refuses t r c v : write_cell t r c v = None <-> (nrows t <= r \/ ncols t <= c)%nat.
Proof. unfold write_cell. destruct (Nat.ltb_spec r (nrows t)), (Nat.ltb_spec c (ncols t)); cbn; split; try discriminate; auto; lia. Qed.

(* ---- write_rows *)
Lemma write_rows_at_length rows new idx : length (write_rows_at rows new idx) = length rows.
Proof. revert rows idx; induction new as [|r new IH]; intros rows [|i idx]; cbn; auto. rewrite IH. apply set_nth_length. Qed.
Lemma write_rows_at_other rows new idx k : ~ In k idx -> nth k (write_rows_at rows new idx) [] = nth k rows [].
Proof. revert rows idx; induction new as [|r new IH]; intros rows [|i idx] H; cbn; auto.
  rewrite IH by (intro; apply H; now right). apply nth_set_nth_neq. intro; apply H; now left. Qed.
Lemma write_rows_at_written rows new idx j : NoDup idx -> length new = length idx -> (j < length idx)%nat ->
  (forall i, In i idx -> (i < length rows)%nat) ->
  nth (nth j idx O) (write_rows_at rows new idx) [] = nth j new [].
Proof. revert rows idx j; induction new as [|r new IH]; intros rows [|i idx] j ND HL Hj Hb; cbn in *; try lia.
  inversion ND as [|? ? Hni ND']; subst. destruct j as [|j].
  - rewrite write_rows_at_other by exact Hni. apply nth_set_nth_eq. apply Hb. now left.
  - apply IH; auto; try lia. intros k Hk. rewrite set_nth_length. apply Hb. now right. Qed.
Lemma write_rows_spec t new idx t' : write_rows t new idx = Some t' ->
  t_cols t' = t_cols t /\ nrows t' = nrows t /\
  (forall k, ~ In k idx -> nth k (t_rows t') [] = nth k (t_rows t) []) /\
  (NoDup idx -> forall j, (j < length idx)%nat -> nth (nth j idx O) (t_rows t') [] = nth j new []).
Proof. unfold write_rows. destruct (negb (length new =? length idx)%nat) eqn:E1; [discriminate|].
  destruct (negb (forallb _ idx)) eqn:E2; [discriminate|]. destruct (negb (forallb _ new)) eqn:E3; [discriminate|].
  destruct (negb (increasing idx)) eqn:E4; [discriminate|].
  intros [= <-]. unfold nrows. cbn. split; auto. split; [apply write_rows_at_length|]. split.
  - intros k Hk. now apply write_rows_at_other.
  - intros ND j Hj. apply write_rows_at_written; auto.
    + apply negb_false_iff in E1. now apply Nat.eqb_eq.
    + apply negb_false_iff in E2. rewrite forallb_forall in E2. intros i Hi. apply E2 in Hi. now apply Nat.ltb_lt. Qed.
Lemma in_write_rows_at rows new idx x : In x (write_rows_at rows new idx) -> In x rows \/ In x new.
Proof. revert rows idx; induction new as [|r new IH]; intros rows [|i idx] H; cbn in *; auto.
  apply IH in H. destruct H as [H|H]; auto. apply in_set_nth in H. destruct H as [->|H]; auto. Qed.
Lemma write_rows_wf t new idx t' : wf t -> write_rows t new idx = Some t' -> wf t'.
Proof. unfold write_rows. intros W. destruct (negb (length new =? length idx)%nat); [discriminate|].
  destruct (negb (forallb _ idx)); [discriminate|]. destruct (negb (forallb _ new)) eqn:E3; [discriminate|].
  destruct (negb (increasing idx)); [discriminate|].
  intros [= <-] x Hin. cbn in *. apply in_write_rows_at in Hin. destruct Hin as [H|H]; [apply W, H|].
  apply negb_false_iff in E3. apply (forallb_row_ok t new E3 x H). Qed.

(* an accepted index list is strictly increasing, hence without repeats: the NoDup hypothesis of
   write_rows_spec always holds for an accepted call *)
Lemma increasing_lt l : increasing l = true -> forall a r, l = a :: r -> forall x, In x r -> (a < x)%nat.
Proof.
  induction l as [|a0 l IH]; intros H a r E x Hx; [discriminate|]. injection E as -> ->.
  destruct r as [|b r]; [destruct Hx|]. cbn [increasing] in H. apply andb_prop in H. destruct H as [H1 H2].
  apply Nat.ltb_lt in H1. destruct Hx as [<-|Hx]; [exact H1|].
  pose proof (IH H2 b r eq_refl x Hx). lia.
Qed.
Lemma increasing_nodup l : increasing l = true -> NoDup l.
Proof.
  induction l as [|a l IH]; intros H; constructor.
  - intros Hin. pose proof (increasing_lt (a :: l) H a l eq_refl a Hin). lia.
  - apply IH. destruct l as [|b l]; [reflexivity|]. cbn [increasing] in H. apply andb_prop in H. tauto.
Qed.
Lemma write_rows_accepts_increasing t new idx t' : write_rows t new idx = Some t' ->
  increasing idx = true /\ NoDup idx /\
  forall j, (j < length idx)%nat -> nth (nth j idx O) (t_rows t') [] = nth j new [].
Proof.
  intros H. pose proof (write_rows_spec t new idx t' H) as [_ [_ [_ S]]].
  unfold write_rows in H. destruct (negb (length new =? length idx)%nat); [discriminate|].
  destruct (negb (forallb _ idx)); [discriminate|]. destruct (negb (forallb _ new)); [discriminate|].
  destruct (increasing idx) eqn:E; [|discriminate]. split; [reflexivity|].
  pose proof (increasing_nodup idx E) as ND. split; [exact ND|]. exact (S ND).
Qed.

(* ---- append_column *)
Lemma combine_map_fst {A B} (l : list A) (l' : list B) : length l = length l' -> map fst (combine l l') = l.
Proof. revert l'; induction l as [|x l IH]; intros [|y l'] H; cbn in *; try lia; auto. f_equal. apply IH. lia. Qed.
Lemma append_column_spec t col name ty t' : wf t -> append_column t col name ty = Some t' ->
  t_cols t' = t_cols t ++ [(name, ty)] /\ nrows t' = nrows t /\
  read_column t' (ncols t) = col /\
  (forall r c, (c < ncols t)%nat -> read_cell t' r c = read_cell t r c) /\
  map (firstn (ncols t)) (t_rows t') = t_rows t.
Proof. unfold append_column. intros W. destruct (negb (length col =? nrows t)%nat) eqn:E1; [discriminate|].
  destruct (col_index name (t_cols t) 0); [discriminate|]. intros [= <-].
  apply negb_false_iff, Nat.eqb_eq in E1. unfold nrows, read_column, read_cell in *. cbn.
  split; auto. split. { rewrite map_length, combine_length. lia. }
  assert (G : forall rows col, length col = length rows -> (forall r, In r rows -> length r = ncols t) ->
    map (fun r => nth (ncols t) r 0) (map (fun p => fst p ++ [snd p]) (combine rows col)) = col /\
    (forall r c, (c < ncols t)%nat -> nth c (nth r (map (fun p : list Z * Z => fst p ++ [snd p]) (combine rows col)) []) 0 = nth c (nth r rows []) 0) /\
    map (firstn (ncols t)) (map (fun p : list Z * Z => fst p ++ [snd p]) (combine rows col)) = rows).
  { clear. induction rows as [|x rows IH]; intros [|y col] HL Hw; cbn in *; try lia.
    - repeat split; auto; try (intros [|r] c _; auto).
    - destruct (IH col) as (A & B & C); [lia|intros; apply Hw; auto|]. split; [|split].
      + f_equal; auto. rewrite app_nth2 by (rewrite Hw; auto). rewrite Hw by auto. now rewrite Nat.sub_diag.
      + intros [|r] c Hc; [|apply B, Hc]. apply app_nth1. rewrite Hw; auto.
      + f_equal; auto. rewrite <- (Hw x) by auto. rewrite firstn_app, Nat.sub_diag, firstn_all. cbn. apply app_nil_r. }
  destruct (G (t_rows t) col E1 W) as (A & B & C). auto. Qed.
Lemma append_column_wf t col name ty t' : wf t -> append_column t col name ty = Some t' -> wf t'.
Proof. unfold append_column. intros W. destruct (negb _); [discriminate|].
  destruct (col_index name (t_cols t) 0); [discriminate|]. intros [= <-] x Hin. unfold ncols. cbn in *.
  apply in_map_iff in Hin. destruct Hin as ([r y] & <- & Hin). apply in_combine_l in Hin. cbn.
  rewrite !app_length. cbn. f_equal. apply W, Hin. Qed.
Lemma col_index_some name cols i k : col_index name cols i = Some k -> exists j, k = (i + j)%nat /\ (j < length cols)%nat /\ fst (nth j cols (0, 0)) = name.
Proof. revert i; induction cols as [|[n ty] cols IH]; intros i H; cbn in *; [discriminate|].
  destruct (Z.eqb_spec n name) as [->|Hne].
  - injection H as <-. exists O. cbn. split; [lia|]. split; [lia|auto].
  - apply IH in H. destruct H as (j & -> & Hj & Hn). exists (S j). cbn. split; [lia|]. split; [lia|auto]. Qed.
Lemma col_index_none name cols i : col_index name cols i = None <-> ~ In name (map fst cols).
Proof. revert i; induction cols as [|[n ty] cols IH]; intros i; cbn; [tauto|].
  destruct (Z.eqb_spec n name) as [->|Hne]; [split; [discriminate|intro H; exfalso; apply H; now left]|].
  rewrite IH. tauto. Qed.
Lemma append_column_refuses t col name ty : append_column t col name ty = None <->
  (length col <> nrows t \/ In name (map fst (t_cols t))).
Proof. unfold append_column. destruct (Nat.eqb_spec (length col) (nrows t)) as [E|E]; cbn.
  - destruct (col_index name (t_cols t) 0) eqn:Ec.
    + split; auto. intros _. right. destruct (in_dec Z.eq_dec name (map fst (t_cols t))) as [H|H]; auto.
      apply (col_index_none name (t_cols t) O) in H. congruence.
    + split; [discriminate|]. intros [H|H]; [contradiction|]. apply (col_index_none name (t_cols t) O) in Ec. contradiction.
  - split; auto. Qed.

(* ---- write_column *)
Lemma write_column_spec t col c t' : wf t -> write_column t col c = Some t' ->
  t_cols t' = t_cols t /\ nrows t' = nrows t /\ read_column t' c = col /\
  (forall r c', c' <> c -> read_cell t' r c' = read_cell t r c').
Proof. unfold write_column. intros W. destruct (negb (length col =? nrows t)%nat) eqn:E1; [discriminate|].
  destruct (negb (c <? ncols t)%nat) eqn:E2; [discriminate|]. intros [= <-].
  apply negb_false_iff, Nat.eqb_eq in E1. apply negb_false_iff, Nat.ltb_lt in E2.
  unfold nrows, read_column, read_cell in *. cbn. split; auto. split. { rewrite map_length, combine_length. lia. }
  assert (G : forall rows col, length col = length rows -> (forall r, In r rows -> length r = ncols t) ->
    map (fun r => nth c r 0) (map (fun p : list Z * Z => set_nth (fst p) c (snd p)) (combine rows col)) = col /\
    (forall r c', c' <> c -> nth c' (nth r (map (fun p : list Z * Z => set_nth (fst p) c (snd p)) (combine rows col)) []) 0 = nth c' (nth r rows []) 0)).
  { clear - E2. induction rows as [|x rows IH]; intros [|y col] HL Hw; cbn in *; try lia.
    - repeat split; auto; try (intros [|r] c' _; auto).
    - destruct (IH col) as (A & B); [lia|intros; apply Hw; auto|]. split.
      + f_equal; auto. apply nth_set_nth_eq. rewrite Hw; auto.
      + intros [|r] c' Hc; [|apply B, Hc]. apply nth_set_nth_neq. congruence. }
  destruct (G (t_rows t) col E1 W) as (A & B). auto. Qed.
Lemma write_column_wf t col c t' : wf t -> write_column t col c = Some t' -> wf t'.
Proof. unfold write_column. intros W. destruct (negb (length col =? nrows t)%nat); [discriminate|].
  destruct (negb (c <? ncols t)%nat); [discriminate|]. intros [= <-] x Hin. unfold ncols. cbn in *.
  apply in_map_iff in Hin. destruct Hin as ([r y] & <- & Hin). apply in_combine_l in Hin. cbn.
  rewrite set_nth_length. apply W, Hin. Qed.
Lemma write_column_refuses t col c : write_column t col c = None <-> (length col <> nrows t \/ ncols t <= c)%nat.
Proof. unfold write_column. destruct (Nat.eqb_spec (length col) (nrows t)), (Nat.ltb_spec c (ncols t)); cbn; split; try discriminate; auto; lia. Qed.

(* ---- histories: every reachable table is well-formed; a refused op leaves the table as it was
   (the latter is how trun is defined: the correspondence check compares the implementation's
   table after a refusal with the table before it) *)
Lemma tstep_wf t o t' : wf t -> tstep t o = Some t' -> wf t'.
Proof. intros W. destruct o; cbn.
  - apply append_rows_wf, W.
  - apply append_column_wf, W.
  - apply write_rows_wf, W.
  - apply write_cell_wf, W.
  - destruct (col_index _ _ _); [apply write_cell_wf, W|discriminate].
  - apply write_column_wf, W.
  - destruct (col_index _ _ _); [apply write_column_wf, W|]. destruct (_ && _); [|discriminate]. now intros [= <-].
  - now intros [= <-].
  - discriminate. Qed.
Fixpoint tfold (t : table) (ops : list top) : table :=
  match ops with [] => t | o :: r => match tstep t o with Some t' => tfold t' r | None => tfold t r end end.
Lemma tfold_wf ops : forall t, wf t -> wf (tfold t ops).
Proof. induction ops as [|o ops IH]; intros t W; cbn; auto. destruct (tstep t o) eqn:E; auto. apply IH. eapply tstep_wf; eauto. Qed.
Lemma trun_refused t o ops : tstep t o = None -> trun t (o :: ops) = tobs true t :: trun t ops.
Proof. intros H. cbn. now rewrite H. Qed.
(* by-name addressing is by-position addressing of the first column with that name *)
Lemma by_name_is_by_position t name r v c : col_index name (t_cols t) 0 = Some c ->
  tstep t (TWriteCellByName name r v) = tstep t (TWriteCell r c v) /\ (c < ncols t)%nat /\ fst (nth c (t_cols t) (0, 0)) = name.
Proof. intros H. cbn. rewrite H. split; auto. apply col_index_some in H. destruct H as (j & -> & Hj & Hn). cbn. auto. Qed.

(* every table reachable from a well-formed one is well-formed, and the row / column counts
   the API reports are those of the model *)
Lemma refused_step_unchanged t o ops : tstep t o = None ->
  trun t (o :: ops) = tobs true t :: trun t ops /\ tfold t (o :: ops) = tfold t ops.
Proof. intros H. cbn. now rewrite H. Qed.
Definition refusal (t : table) (o : top) : Prop :=
  match o with
  | TAppendRows rows => exists r, In r rows /\ length r <> ncols t
  | TAppendColumn col n _ => length col <> nrows t \/ In n (map fst (t_cols t))
  | TWriteCell r c _ => (nrows t <= r \/ ncols t <= c)%nat
  | TWriteColumn col c => (length col <> nrows t \/ ncols t <= c)%nat
  | _ => True
  end.
Lemma refusals_exact t o : match o with TAppendRows _ | TAppendColumn _ _ _ | TWriteCell _ _ _ | TWriteColumn _ _ => True | _ => False end ->
  (tstep t o = None <-> refusal t o).
Proof. destruct o; cbn; try tauto; intros _.
  - apply append_rows_refuses. - apply append_column_refuses. - apply write_cell_refuses. - apply write_column_refuses. Qed.
