(* Props/C11.v -- open modes and format-version gating protect existing files.
   ONLY property theorems.  check_header / open_file: Pure/Version.v; the library version, the
   format tag and the id-requirement triple are regenerated from nixio/file.py (Gen/FileConsts.v).
   The read-only immutability theorems (for every program of store primitives) are in the
   second half, over the store model H5/Store.v. *)
From NixV Require Import Base.Prelude Gen.FileConsts Pure.Version Proofs.VersionProofs
  H5.Store Nix.Api Proofs.MonadLemmas.
Open Scope Z_scope.

(* for ALL integer triples: writable <-> the library's own version (+ valid id when required) *)
Theorem c11_gate_rw : forall x y z i,
  check_header RW (nix_header [x; y; z] i) = Opened <->
  [x; y; z] = lib_version /\ (tuple_ge [x; y; z] id_required_from = true -> i = IdValid).
Proof. exact gate_rw. Qed.
Print Assumptions c11_gate_rw.

(* readable <-> same major version and minor not newer (+ valid id when required) *)
Theorem c11_gate_ro : forall x y z i,
  check_header RO (nix_header [x; y; z] i) = Opened <->
  x = lx /\ y <= ly /\ (tuple_ge [x; y; z] id_required_from = true -> i = IdValid).
Proof. exact gate_ro. Qed.
Print Assumptions c11_gate_ro.

Theorem c11_gate_format : forall m h,
  h_format h <> Some file_format -> check_header m h = EInvalidFile.
Proof. exact gate_format. Qed.
Print Assumptions c11_gate_format.

Theorem c11_gate_malformed : forall m v i, m <> OW -> length v <> 3%nat ->
  check_header m (nix_header v i) <> Opened.
Proof. exact gate_malformed. Qed.
Print Assumptions c11_gate_malformed.

(* modes *)
Theorem c11_ro_missing : forall (content : Type) (empty : content) (f : fs content) p,
  f p = None -> open_file content empty f p RO = (f, ENoFile).
Proof. exact open_ro_missing. Qed.
Print Assumptions c11_ro_missing.

Theorem c11_overwrite : forall (content : Type) (empty : content) (f : fs content) p,
  exists f', open_file content empty f p OW = (f', OOk OW) /\
    f' p = Some {| hdr := fresh_header; body := empty |} /\ forall q, q <> p -> f' q = f q.
Proof. exact open_overwrite. Qed.
Print Assumptions c11_overwrite.

Theorem c11_rw_keeps : forall (content : Type) (empty : content) (f : fs content) p x,
  f p = Some x ->
  exists r, open_file content empty f p RW = (f, r) /\
    (r = OOk RW <-> check_header RW (hdr content x) = Opened).
Proof. exact open_rw_existing. Qed.
Print Assumptions c11_rw_keeps.

Theorem c11_ro_keeps : forall (content : Type) (empty : content) (f : fs content) p x,
  f p = Some x ->
  exists r, open_file content empty f p RO = (f, r) /\
    (r = OOk RO <-> check_header RO (hdr content x) = Opened).
Proof. exact open_ro_existing. Qed.
Print Assumptions c11_ro_keeps.

Theorem c11_rw_creates_missing : forall (content : Type) (empty : content) (f : fs content) p,
  f p = None ->
  exists f', open_file content empty f p RW = (f', OOk OW) /\
    f' p = Some {| hdr := fresh_header; body := empty |} /\ forall q, q <> p -> f' q = f q.
Proof. exact open_rw_missing. Qed.
Print Assumptions c11_rw_creates_missing.

(* ---- read-only sessions, for EVERY operation of the modelled API (Nix/Api.v) and every state:
   the proofs are inductions over the structure of programs built from the primitive commands
   (Proofs/MonadLemmas.v), so they cover every present and future call written in that monad *)

(* a read-only file is never changed *)
Theorem c11_ro_immutable : forall o now s, ro s = true -> is_reopen o = false ->
  sto (fst (exec o now s)) = sto s.
Proof. exact ro_immutable. Qed.
Print Assumptions c11_ro_immutable.

(* every call that would change the file in a writable session fails in a read-only one *)
Theorem c11_ro_mutators_fail : forall o now s, ro s = false -> is_reopen o = false ->
  sto (fst (exec o now s)) <> sto s ->
  exists e, snd (exec o now (set_ro s true)) = RErr e.
Proof. exact ro_mutators_fail. Qed.
Print Assumptions c11_ro_mutators_fail.

(* what succeeds read-only returns the same result as in a writable session, which writes nothing *)
Theorem c11_ro_reads_equal : forall o now s r t', ro s = false -> is_reopen o = false ->
  exec o now (set_ro s true) = (t', r) -> (forall e, r <> RErr e) ->
  exists t, exec o now s = (t, r) /\ sto t = sto s.
Proof. exact ro_success_means_no_write. Qed.
Print Assumptions c11_ro_reads_equal.

(* non-vacuity (Proofs/NonVacuous.v; concrete reachable states, by vm_compute) *)
From NixV Require Proofs.NonVacuous.
(* a mutator that changes a writable session and is refused (EReadOnly) on its read-only twin *)
Example c11_hypotheses_met := NonVacuous.nv_ro.
Check c11_hypotheses_met.
Print Assumptions c11_hypotheses_met.
