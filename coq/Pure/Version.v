(* Pure/Version.v -- model of File.__init__'s mode handling and File._check_header
   (nixio/file.py).  The library version, the format tag and the "id required from" triple come
   from Gen/FileConsts.v, i.e. from the current source. *)
From NixV Require Import Base.Prelude Gen.FileConsts.
Open Scope Z_scope.

Inductive fmode := RO | RW | OW.                      (* FileMode.ReadOnly / ReadWrite / Overwrite *)
Inductive idst := IdValid | IdInvalid | IdMissing.    (* util.is_uuid(self.id) *)
Record header := { h_format : option str; h_version : option (list Z); h_id : idst }.
Inductive outcome := Opened | EInvalidFile | ERuntime | EType.

(* Python's lexicographic tuple comparison  a >= b *)
Fixpoint tuple_ge (a b : list Z) : bool :=
  match a, b with
  | _, [] => true
  | [], _ :: _ => false
  | x :: a', y :: b' => if x <? y then false else if y <? x then true else tuple_ge a' b'
  end.

Definition zlist_eqb (a b : list Z) : bool := list_eqb Z.eqb a b.

(* can_write / can_read: None = RuntimeError("Invalid version specified in file.") *)
Definition can_write (v : list Z) : option bool :=
  if negb (Nat.eqb (length v) 3) then None else Some (zlist_eqb lib_version v).
Definition can_read (v : list Z) : option bool :=
  match v, lib_version with
  | [fx; fy; _], [vx; vy; _] => Some ((vx =? fx) && (fy <=? vy))
  | _, _ => None
  end.

Definition id_ok (i : idst) : bool := match i with IdValid => true | _ => false end.

Definition check_header (m : fmode) (h : header) : outcome :=
  if negb (opt_eqb streq (h_format h) (Some file_format)) then EInvalidFile
  else match h_version h with
       | None => EType                                  (* tuple(None) *)
       | Some v =>
           let gate :=
             match m with
             | RW => match can_write v with Some true => Opened | _ => ERuntime end
             | RO => match can_read v with Some true => Opened | _ => ERuntime end
             | OW => Opened
             end in
           match gate with
           | Opened => if tuple_ge v id_required_from
                       then (if id_ok (h_id h) then Opened else ERuntime)
                       else Opened
           | e => e
           end
       end.

(* a header that carries the NIX format tag *)
Definition nix_header (v : list Z) (i : idst) : header :=
  {| h_format := Some file_format; h_version := Some v; h_id := i |}.

(* ---- the file system seen by File.__init__ ---- *)
Section Open.
  Variable content : Type.                 (* everything below the header: data + metadata *)
  Variable empty : content.
  Record nixfile := { hdr : header; body : content }.
  Definition fs := nat -> option nixfile.  (* path -> file *)
  Definition upd (f : fs) (p : nat) (x : nixfile) : fs := fun q => if Nat.eqb q p then Some x else f q.

  (* _create_header on a new file: format, library version, fresh (valid) id *)
  Definition fresh_header : header :=
    {| h_format := Some file_format; h_version := Some lib_version; h_id := IdValid |}.

  Inductive ores := OOk (effective_mode : fmode) | OErr (e : outcome) | ENoFile.

  Definition open_file (f : fs) (p : nat) (m : fmode) : fs * ores :=
    match f p, m with
    | None, RO => (f, ENoFile)                         (* nothing is created *)
    | None, _ | Some _, OW =>
        let nf := {| hdr := fresh_header; body := empty |} in
        (upd f p nf, match check_header OW fresh_header with Opened => OOk OW | e => OErr e end)
    | Some x, _ =>
        (f, match check_header m (hdr x) with Opened => OOk m | e => OErr e end)
    end.
End Open.
