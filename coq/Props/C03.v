(* Props/C03.v -- names are unique per parent, ids are unique, and all lookups agree.
   ONLY property theorems.  Containers are the ordered link lists of the store model; the API
   calls are the programs of Nix/Api.v (tied to the code by correspondence on histories that
   include, after every operation, a probe of all access paths of a container). *)
From NixV Require Import Base.Prelude H5.Store Nix.Api Proofs.StoreLemmas Proofs.DeleteProofs
  Proofs.ContainerProofs Proofs.CreateProofs.
Open Scope N_scope.

(* creating a second entity under an existing name is refused with a duplicate-name error and
   the state is untouched *)
Theorem c03_dup_refused : forall ph c name type d now s p,
  nth_error (hs s) (N.to_nat ph) = Some p -> hk p = KBlock ->
  (c = CGroups \/ c = CDataArrays \/ c = CTags) -> legal name type ->
  in_group (sto s) (child (sto s) (ha p) (TS (cname c))) name = true ->
  api_create ph c name type d now s = (s, inr EDup).
Proof. exact dup_refused. Qed.
Print Assumptions c03_dup_refused.

(* a created entity receives the next id of the supply - different from every id handed out
   before - and carries it together with its name and type *)
Theorem c03_fresh_id : forall pa cg name type now s s' a i,
  wf (sto s) ->
  entity_create_new pa cg name type now s = (s', inl (a, i)) ->
  i = TI (nid s) /\ nid s' = N.succ (nid s) /\ hs s' = hs s /\
  entity_id (sto s') a = Some i /\
  get_attr (sto s') a k_type = Some (AText type) /\
  entity_name (sto s') a = Some (if tok_empty name then i else name).
Proof. exact entity_create_new_ok. Qed.
Print Assumptions c03_fresh_id.

(* the access paths of a container describe ONE sequence: for the n-th member p of the link
   list,  c[n] = c[n - len] = c[name of p] = c[id of p] = p ;  outside [-len, len): IndexError *)
Theorem c03_by_position : forall s ca hsl n p,
  nth_error (links (node_at s ca)) n = Some p ->
  container_get s (Some ca) (KeyPos (Z.of_nat n)) hsl = inl p /\
  container_get s (Some ca) (KeyPos (Z.of_nat n - Z.of_nat (length (links (node_at s ca))))) hsl = inl p.
Proof. exact get_by_pos. Qed.
Print Assumptions c03_by_position.

Theorem c03_position_out_of_range : forall s ca hsl z,
  (z < - Z.of_nat (length (links (node_at s ca))) \/ Z.of_nat (length (links (node_at s ca))) <= z)%Z ->
  container_get s (Some ca) (KeyPos z) hsl = inr EIndex.
Proof. exact get_by_pos_oob. Qed.
Print Assumptions c03_position_out_of_range.

Theorem c03_by_name : forall s ca hsl,
  cont_inv s (links (node_at s ca)) -> forall n k a, nth_error (links (node_at s ca)) n = Some (k, a) ->
  container_get s (Some ca) (KeyName k) hsl = inl (k, a).
Proof. exact get_by_name. Qed.
Print Assumptions c03_by_name.

Theorem c03_by_id : forall s ca hsl,
  cont_inv s (links (node_at s ca)) -> forall n k a i, nth_error (links (node_at s ca)) n = Some (k, a) ->
  entity_id s a = Some i -> container_get s (Some ca) (KeyName i) hsl = inl (k, a).
Proof. exact get_by_id. Qed.
Print Assumptions c03_by_id.

(* creation order: a new member goes last; deleting entities keeps the order of the rest *)
Theorem c03_appended_last : forall s a k x, (a < length (nodes s))%nat ->
  link_get k (links (node_at s a)) = None ->
  links (node_at (add_link s a k x) a) = links (node_at s a) ++ [(k, x)].
Proof. exact add_link_appends. Qed.
Print Assumptions c03_appended_last.

Theorem c03_order_after_delete : forall s ids a,
  links (node_at (delete_all s ids) a) =
  filter (fun p => negb (id_in s (snd p) ids)) (links (node_at s a)).
Proof. exact links_delete_all. Qed.
Print Assumptions c03_order_after_delete.

(* non-vacuity (Proofs/NonVacuous.v; concrete reachable states, by vm_compute) *)
From NixV Require Proofs.NonVacuous.
(* a reachable state (block with array, group, tag) in which every hypothesis of c03_dup_refused holds and the duplicate create is refused *)
Example c03_hypotheses_met := NonVacuous.nv_dup_refused.
Check c03_hypotheses_met.
Print Assumptions c03_hypotheses_met.
