(* Proofs/MemberProofs.v -- whatever key a container is addressed with (position, name, id, and for features the id or
   name of the feature's DATA), the entity the key resolves to is a MEMBER of that container.  Deleting by key therefore
   never reaches outside the container addressed (C04: `del tag.features[array.id]` deletes the feature, not the array). *)
From NixV Require Import Base.Prelude H5.Store Nix.Api Proofs.StoreLemmas.
From Coq Require Import List. Import ListNotations.

Lemma find_by_id_In s i l p : find_by_id s i l = Some p -> In p l.
Proof.
  induction l as [|[k a] l IH]; cbn; [discriminate|].
  destruct (entity_id s a) as [j|].
  - destruct (tok_eqb j i).
    + intros H. injection H as <-. left. reflexivity.
    + intros H. right. apply IH. exact H.
  - intros H. right. apply IH. exact H.
Qed.

Lemma feature_by_data_In s t l p : feature_by_data s t l = inl p -> In p l.
Proof.
  induction l as [|[k a] l IH]; cbn; [discriminate|].
  destruct (child s a (TS s_data)) as [x|]; [|discriminate].
  destruct (_ || _).
  - intros H. injection H as <-. left. reflexivity.
  - intros H. right. apply IH. exact H.
Qed.

Theorem container_get_member s ca k hsl k' a :
  container_get s ca k hsl = inl (k', a) -> exists k2, In (k2, a) (cont_links s ca).
Proof.
  unfold container_get. destruct k as [t|z|h|h]; try discriminate.
  - destruct (if is_uuid t then find_by_id s t (cont_links s ca) else None) as [p|] eqn:E.
    + intros H. injection H as ->. exists k'. destruct (is_uuid t); [|discriminate]. eapply find_by_id_In. exact E.
    + destruct (tok_empty t || tok_has_slash t); [discriminate|].
      destruct (link_get t (cont_links s ca)) as [x|] eqn:El; [|discriminate].
      intros H. injection H as _ <-. eapply link_get_In. exact El.
  - destruct (py_index _ z) as [i|]; [|discriminate].
    destruct (nth_error _ i) as [p|] eqn:E; [|discriminate].
    intros H. injection H as ->. exists k'. eapply nth_error_In. exact E.
Qed.

Theorem container_get_c_member s c ca k hsl k' a :
  container_get_c s c ca k hsl = inl (k', a) -> exists k2, In (k2, a) (cont_links s ca).
Proof.
  unfold container_get_c. destruct (container_get s ca k hsl) as [[k1 a1]|e] eqn:E.
  - intros H. assert (H' : (k1, a1) = (k', a)) by (destruct c, k; congruence).
    injection H' as -> ->. eapply container_get_member. exact E.
  - destruct e, c, k; try discriminate.
    intros H. exists k'. eapply feature_by_data_In. exact H.
Qed.
