"""C03, implementation only: ids SUPPLIED by the caller (the oid argument of File.create_section, Section.create_section,
Section.create_property).  Whatever text is passed, the entity that results has an id that is a well-formed UUID, differs
from the other ids of the file, is the key under which the container finds the entity, and is the same after reopening.
(A refusal is fine as well: then there is no entity.)"""
import json
import os
import re
import sys

import nixio

UUID_RE = re.compile(r"[0-9a-f]{8}-[0-9a-f]{4}-[0-9a-f]{4}-[0-9a-f]{4}-[0-9a-f]{12}")
GOOD = "12345678-1234-4678-9234-56781234abcd"
DUP = "an id another entity of the file already has"


def wf(i):
    return isinstance(i, str) and UUID_RE.fullmatch(i) is not None


OIDS = [("a canonical UUID", GOOD), ("a UUID followed by a newline", GOOD + "\n"), ("a UUID after a blank", " " + GOOD),
        ("a UUID followed by a blank", GOOD + " "), ("a UUID followed by a tab", GOOD + "\t"), ("a UUID one digit short", GOOD[:-1]),
        ("a UUID with a non-hex digit", "g" + GOOD[1:]), ("a UUID followed by more digits", GOOD + "00"),
        ("two UUIDs on two lines", GOOD + "\n" + GOOD), ("the empty text", ""), ("a word", "not-an-id"), ("a number", 5),
        ("None", None), (DUP, GOOD)]
WHERE = ["File.create_section", "Section.create_section", "Section.create_property"]


def main():
    json.load(sys.stdin)
    path = os.path.join(os.getcwd(), "oid.nix")
    recs = []
    for label, oid in OIDS:
        for where in WHERE:
            rec = {"oid": label, "call": where, "problems": []}
            f = nixio.File.open(path, nixio.FileMode.Overwrite)
            top = f.create_section("top", "t")
            other = top.create_section("other", "t")
            taken = [top.id, other.id]
            if label == DUP:
                taken.append(other.create_section("first", "t", oid=GOOD).id)
            try:
                if where == "File.create_section":
                    ent, cont = f.create_section("n", "t", oid=oid), (lambda ff: ff.sections)
                elif where == "Section.create_section":
                    ent, cont = top.create_section("n", "t", oid=oid), (lambda ff: ff.sections["top"].sections)
                else:
                    ent, cont = top.create_property("n", [1], oid=oid), (lambda ff: ff.sections["top"].props)
            except Exception as exc:
                rec["refused"] = type(exc).__name__
                f.close()
                recs.append(rec)
                continue
            i = ent.id
            rec["id"] = repr(i)
            if not wf(i):
                rec["problems"].append("the new entity's id %r is not a well-formed UUID" % (i,))
            if i in taken:
                rec["problems"].append("the new entity's id equals another id of the file")
            try:
                c = cont(f)
                if c[i].name != "n" or i not in c or c["n"].id != i:
                    rec["problems"].append("the container does not find the entity under its id")
            except Exception as exc:
                rec["problems"].append("lookup by the id raises %s" % type(exc).__name__)
            f.close()
            f = nixio.File.open(path, nixio.FileMode.ReadOnly)
            try:
                j = cont(f)["n"].id
                if j != i:
                    rec["problems"].append("the id changed over close and reopen: %r -> %r" % (i, j))
                if isinstance(i, str) and wf(i.strip()) and cont(f)[i.strip()].name != "n":
                    rec["problems"].append("the entity is not found under the UUID its id denotes")
            except Exception as exc:
                rec["problems"].append("after reopening: %s" % type(exc).__name__)
            f.close()
            recs.append(rec)
    os.remove(path)
    json.dump(recs, sys.stdout)


main()
