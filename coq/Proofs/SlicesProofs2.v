(* Proofs/SlicesProofs2.v -- C06, the safety clause on its own: whatever index expression a view
   ACCEPTS, on every axis every element it addresses lies inside the view's window - reads never
   return, and assignments never touch, an element of the parent outside the window.  (The
   equivalence with NumPy on the window is Proofs/SlicesProofs.v; this statement needs no NumPy
   side and no hypothesis on the index expression.) *)
From Coq Require Import ZArith List Bool Lia ZifyBool.
From NixV Require Import Base.Prelude Pure.Slices Proofs.SlicesProofs Proofs.ArrayProofs2.
Import ListNotations.
Open Scope Z_scope.

Definition inside (w : Z * Z) (s : axsel) : Prop := forall x, In x (sel_indices s) -> fst w <= x < snd w.

Theorem view_axis_inside a z i s : 0 <= a <= z -> view_axis (a, z) i = inl s -> inside (a, z) s.
Proof.
  intros Hw H x Hin. cbn [fst snd]. destruct i as [u|sa sb st|]; cbn [view_axis] in H.
  - destruct ((_ <? a) || (z <=? _)) eqn:E; [discriminate|]. injection H as <-.
    cbn [sel_indices] in Hin. destruct Hin as [<-|[]]. destruct (u <? 0) eqn:Eu; lia.
  - destruct (indices sa sb st (z - a)) as [[[us ue] k]|] eqn:Ei; [|discriminate].
    pose proof (indices_step _ _ _ _ _ _ _ Ei) as Hk.
    destruct (z <? _) eqn:E1; [discriminate|].
    destruct (k <? 0) eqn:E2; [discriminate|].
    destruct (_ <? a) eqn:E3; [discriminate|].
    injection H as <-. cbn [sel_indices] in Hin.
    apply range_list_in in Hin; [|lia].
    destruct (ue <? 0) eqn:E4; destruct (_ <? a + us) eqn:E5; lia.
  - discriminate.
Qed.

(* all axes: the selections of an accepted index tuple pair off with the windows, each inside its own *)
Lemma map2_inside : forall (w : list (Z * Z)) (ex : list ix) sels,
  Forall (fun p => 0 <= fst p <= snd p) w ->
  map2_err view_axis w ex = inl sels ->
  Forall2 inside (firstn (length sels) w) sels.
Proof.
  induction w as [|[a z] w IH]; intros ex sels Hw H.
  - cbn in H. injection H as <-. constructor.
  - destruct ex as [|i ex]; [cbn in H; injection H as <-; constructor|].
    cbn [map2_err] in H. destruct (view_axis (a, z) i) as [s|e] eqn:E1; [|discriminate].
    destruct (map2_err view_axis w ex) as [l|e] eqn:E2; [|discriminate]. injection H as <-.
    inversion Hw as [|? ? Hp Hr]; subst. cbn [length firstn]. constructor.
    + apply (view_axis_inside a z i s Hp E1).
    + apply (IH ex l Hr E2).
Qed.
Theorem view_never_outside_window w e sels : wf_window w -> view_norm w e = inl sels ->
  Forall2 inside (firstn (length sels) w) sels.
Proof.
  intros Hw H. unfold view_norm in H. destruct (expand (length w) e) as [ex|]; [|discriminate].
  apply (map2_inside w ex sels Hw H).
Qed.
