"""Shared driver of the properties decided over operation histories of the entity graph
(C02, C03, C04, C05, C13, C19): proof stage, generated histories on the real nixio, model
correspondence (digest traces evaluated by coqc), and per-property predicates on the
implementation's own trace."""
import os
import sys

sys.path.insert(0, os.path.dirname(os.path.abspath(__file__)))
import core  # noqa: E402
import nixcases  # noqa: E402

TRUSTED = [
    "Coq 8.16.1 kernel; no native_compute",
    "hand-written model of the HDF5 object graph (coq/H5/Store.v) and of the API calls as programs over it (coq/Nix/Api.v), "
    "tied to nixio by correspondence of results and canonical walks on operation histories (this run)",
    "the canonical walk through the public API (harness/nixwalk.py) = coq/Nix/Observe.v; digests: polynomial hash mod 2^61-1 "
    "over the token stream, ids renamed by first appearance",
    "uuid4 never collides (id supply = counter); util.is_uuid = 32 hex digits after removing urn:/uuid:/braces/hyphens",
    "h5py/libhdf5: hard links, creation-order iteration, attribute storage behave as the store model says",
]


def run(ctx, ID, theorems, props_file, profile, length, n_quick, n_thorough, predicate, rule, with_times=False,
        known_matchers=None, extra_targets=()):
    """predicate(history) -> list of (what, step, detail) violations found on the implementation trace;
    known_matchers: {match-name: fn(violation, history) -> bool}"""
    thorough = ctx.tier == "thorough"
    st = core.proof_stage(ctx, [], ["Nix/Check.vo", props_file[:-2] + ".vo"] + list(extra_targets), props_file, theorems)
    ctx.trusted_base = list(TRUSTED)
    ctx.assumptions = ["every property theorem: Closed under the global context"]
    nh = n_thorough if thorough else n_quick
    hists = ctx.run_impl("nixrun.py", {"seed": ctx.seed, "n": nh, "len": length[1] if thorough else length[0],
                                       "profile": profile, "times": with_times})
    failures, disagreements = [], []
    kf = core.load_known(ID)
    known_counts = {}
    for k, h in enumerate(hists):
        for v in predicate(h):
            what, step, detail = v
            matched = None
            for e in kf:
                fn = (known_matchers or {}).get(e.get("match"))
                if fn is not None and fn(v, h):
                    matched = e["match"]
                    break
            if matched:
                known_counts[matched] = known_counts.get(matched, 0) + 1
            else:
                failures.append((what, {"history": h["ops"][:step + 1], "step": step}, detail))
    if core.vo_ok("Nix/Check.v"):
        bad, errs = nixcases.check_histories(ctx, hists, with_times, tag=ID.lower())
        for e in errs:
            st["broken"].append("model evaluation failed: %s" % e)
        for i, step, what in bad:
            disagreements.append(({"history": hists[i]["ops"][:step + 1], "differs": what, "step": step},
                                  {"outcome": hists[i]["results"][step]}))
    else:
        st["broken"].append("model Nix/Check.v does not build")
    # known findings: replay each witness on the implementation
    for e in kf:
        if "witness_ops" in e:
            r = ctx.run_impl("nixrun.py", {"replay": [e["witness_ops"]], "times": with_times})[0]
            if predicate(r):
                ctx.known_hits.append("%s (%d further instances in this run)" % (e["what"], known_counts.get(e.get("match"), 0)))
    if failures:
        failures.sort(key=lambda x: len(repr(x[1])))
        what, inp, detail = failures[0]
        rp = ctx.write_replay("%s-seed%d.json" % (ID, ctx.seed), {
            "property": ID, "kind": what, "input": inp, "observed": detail, "more": failures[1:8],
            "count": len(failures), "broken_obligations": st["broken"],
            "how_to_replay": "./check %s --replay <this file> (re-executes input.history on the real nixio and re-applies the predicate)" % ID})
        ctx.violation("%d violations on implementation traces, e.g. %s at step %d: %r" % (len(failures), what, inp["step"], detail), rp)
    elif disagreements:
        st["broken"].append("correspondence: model and implementation disagree on %d histories, e.g. %r"
                            % (len(disagreements), disagreements[0]))
    ops_hist = {}
    for h in hists:
        for op, r in zip(h["ops"], h["results"]):
            key = op[0] + ("" if r[0] in ("ok", "toks") else "!err")
            ops_hist[key] = ops_hist.get(key, 0) + 1
    ctx.coverage.update({
        "evaluations": sum(len(h["ops"]) for h in hists),
        "distinct_nontrivial": len(set(repr(h["ops"]) for h in hists if len(h["ops"]) > 3)),
        "rule": rule + " A history is non-trivial when it has more than 3 operations; distinct = distinct operation sequences.",
        "histories": len(hists), "op_histogram": ops_hist,
        "known_finding_instances": known_counts, "disagreements": len(disagreements), "spec_failures": len(failures),
        "samples": [hists[0]["ops"][:8]],
    })
    return st


def replay(ctx, ID, predicate, with_times=False, known_matchers=None):
    d = ctx.replay
    r = ctx.run_impl("nixrun.py", {"replay": [d["input"]["history"]], "times": with_times})[0]
    v = predicate(r)
    # violations inside the domain of a recorded finding are reported as such, as in a full run
    kf = core.load_known(ID)
    rest = []
    for x in v:
        e = next((e for e in kf if (known_matchers or {}).get(e.get("match")) and known_matchers[e["match"]](x, r)), None)
        if e is not None:
            print("KNOWN-FINDING: property=%s %s" % (ID, e["what"]))
        else:
            rest.append(x)
    v = rest
    print("replay: %d ops, predicate violations: %r" % (len(r["ops"]), v[:3]))
    if v:
        print("VIOLATION property=%s replay=%s" % (ID, os.path.abspath(sys.argv[-1])))
        return 1
    return 0
