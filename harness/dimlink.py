"""Dimension-link histories shared by C05 (a linked dimension is an alias of the target's vector,
unit and label) and C12 (a refused dimension call leaves everything as it was)."""
import os
import random
import sys

sys.path.insert(0, os.path.dirname(os.path.abspath(__file__)))
import core  # noqa: E402
from coqlit import cZ, cnat, clist, cstr  # noqa: E402

HEADER = ("From Coq Require Import ZArith List.\nFrom NixV Require Import Base.Prelude Pure.DimLink Pure.DimLinkCheck.\n"
          "Import ListNotations.\nOpen Scope Z_scope.\n")
UNITS = ["ms", "s", "mV", "kHz"]


def gen_case(rnd, length):
    shape = rnd.choice([[3], [3, 2], [2, 3], [3, 3], [1, 4]])
    n = 1
    for x in shape:
        n *= x
    cells = [rnd.randint(-5, 9) for _ in range(n)]
    init = {"t_unit": rnd.choice([None] + UNITS), "t_label": rnd.choice([None, "tl", "äö"]), "t_shape": shape, "t_cells": cells,
            "r_ticks": rnd.choice([None, [1, 2, 3], [0, 0, 5]]), "r_unit": rnd.choice([None, None] + UNITS),
            "r_label": rnd.choice([None, "rl"]), "s_labels": rnd.choice([None, [7, 8]])}
    ops = []

    def idx(good):
        rank = len(shape)
        if good:
            pos = rnd.randrange(rank)
            return [-1 if i == pos else rnd.randint(0, shape[i] - 1 if rnd.random() < 0.9 else shape[i] + 1) for i in range(rank)]
        k = rnd.random()
        if k < 0.35:
            return [-1] * (rank + rnd.choice([-1, 1])) if rank + 1 > 0 else [-1, -1]
        if k < 0.6:
            return [0] * rank
        if k < 0.8:
            return [-1] * rank if rank > 1 else [-2]
        return [-1 if i == 0 else -2 for i in range(rank)] if rank > 1 else [0]
    sim = list(cells)            # the target's cells as the history changes them (only TSetCell writes them)

    def sim_vec(ix):
        """the vector a link with this index specification selects, None when the specification selects none"""
        if len(ix) != len(shape) or ix.count(-1) != 1 or any(x < -1 for x in ix):
            return None
        if len(shape) == 1:
            return list(sim)
        r, c = shape
        if ix[0] == -1:
            return [sim[j * c + ix[1]] for j in range(r)] if 0 <= ix[1] < c else None
        return sim[ix[0] * c:(ix[0] + 1) * c] if 0 <= ix[0] < r else None
    for _ in range(length):
        k = rnd.random()
        if k < 0.14:
            l = sorted(rnd.randint(-3, 9) for _ in range(rnd.randint(1, 4)))
            if rnd.random() < 0.35 and len(l) > 1:
                l[rnd.randrange(1, len(l))] = l[0] - 1        # descending somewhere
            ops.append(["RSetTicks", l])
        elif k < 0.30:
            ix = idx(rnd.random() < 0.7)
            ops.append(["RLink", ix])
            # explicit ticks EQUAL to the vector the link now shows ("freezing" the ticks): they replace the link all the same
            v = sim_vec(ix)
            if v is not None and all(a <= b for a, b in zip(v, v[1:])) and rnd.random() < 0.5:
                ops.append(["RSetTicks", list(v)])
        elif k < 0.36:
            ops.append(["RUnlink"])
        elif k < 0.46:
            ops.append(["RSetUnit", rnd.choice(UNITS)])
        elif k < 0.52:
            ops.append(["RSetLabel", rnd.choice(["x", "äö", "lab"])])
        elif k < 0.58:
            ops.append(["SSetLabels", [rnd.randint(0, 9) for _ in range(rnd.randint(1, 3))]])
        elif k < 0.68:
            ops.append(["SLink", idx(rnd.random() < 0.7)])
        elif k < 0.72:
            ops.append(["SUnlink"])
        elif k < 0.76:
            def sa():
                return rnd.choice([None, "BAD", rnd.choice(["ms", "lbl", "äö"])]) if rnd.random() < 0.5 else None
            which = rnd.random()
            if which < 0.4:
                tk = rnd.choice([None, "BAD", sorted(rnd.randint(-3, 9) for _ in range(rnd.randint(1, 3))), [4, 2]])
                ops.append(["AppendRange", tk, sa(), sa()])
            elif which < 0.8:
                ops.append(["AppendSampled", rnd.choice([1, 2, 5, "BAD"]), sa(), sa(), rnd.choice([None, None, 0, 3, "BAD"])])
            else:
                ops.append(["AppendSet", rnd.choice([None, "BAD", [rnd.randint(0, 9) for _ in range(rnd.randint(1, 3))]])])
        elif k < 0.80:
            ops.append(["TSetUnit", rnd.choice(UNITS)])
        elif k < 0.85:
            ops.append(["TSetLabel", rnd.choice(["t1", "t2"])])
        elif k < 0.95:
            ops.append(["TSetCell", rnd.randrange(n), rnd.randint(-9, 9)])
            sim[ops[-1][1]] = ops[-1][2]
        else:
            ops.append(["Reopen"])
    return {"init": init, "ops": ops}


def ostr(s):
    return "(@None str)" if s is None else "(Some %s)" % cstr(s)


def olist(l):
    return "(@None (list Z))" if l is None else "(Some %s)" % clist([cZ(x) for x in l], "Z")


def xdim_lit(x):
    if x[0] == "range":
        return "(XRange %s %s %s)" % (olist(x[1]), ostr(x[2]), ostr(x[3]))
    if x[0] == "sampled":
        return "(XSampled %s %s %s %s)" % (cZ(x[1]), ostr(x[2]), ostr(x[3]), "(@None Z)" if x[4] is None else "(Some %s)" % cZ(x[4]))
    return "(XSet %s)" % olist(x[1])


def state_lit(st):
    return "(mkDS (mkTarget %s %s %s %s) (mkR %s %s %s %s) (mkS %s %s) %s)" % (
        ostr(st["t_unit"]), ostr(st["t_label"]), clist([cZ(x) for x in st["t_shape"]], "Z"), clist([cZ(x) for x in st["t_cells"]], "Z"),
        olist(st["r_ticks"]), ostr(st["r_unit"]), ostr(st["r_label"]), olist(st.get("r_link")),
        olist(st["s_labels"]), olist(st.get("s_link")),
        clist([xdim_lit(x) for x in st.get("extra", [])], "xdim"))


def op_lit(o):
    t = o[0]
    if t in ("RSetTicks", "RLink", "SSetLabels", "SLink"):
        return "(%s %s)" % (t, clist([cZ(x) for x in o[1]], "Z"))
    if t in ("RSetUnit", "RSetLabel"):
        return "(%s %s)" % (t, cstr(o[1]))
    if t in ("TSetUnit", "TSetLabel"):
        return "(%s %s)" % (t, ostr(o[1]))
    if t == "TSetCell":
        return "(TSetCell %s %s)" % (cnat(o[1]), cZ(o[2]))

    def sa(a):
        return "StNone" if a is None else ("StBad" if a == "BAD" else "(StOk %s)" % cstr(a))

    def na(a):
        return "NmNone" if a is None else ("NmBad" if a == "BAD" else "(NmOk %s)" % cZ(a))

    def ta(a):
        return "TkNone" if a is None else ("TkBad" if a == "BAD" else "(TkOk %s)" % clist([cZ(x) for x in a], "Z"))
    if t == "AppendRange":
        return "(AppendRange %s %s %s)" % (ta(o[1]), sa(o[2]), sa(o[3]))
    if t == "AppendSampled":
        return "(AppendSampled %s %s %s %s)" % (na(o[1]), sa(o[2]), sa(o[3]), na(o[4]))
    if t == "AppendSet":
        return "(AppendSet %s)" % ta(o[1])
    return t


def obs_lit(o):
    def g(v):
        return "(@None (list Z))" if v == "raise" else "(Some %s)" % clist([cZ(x) for x in v], "Z")
    return "(mkObs %s %s %s %s %s %s)" % (cZ(o["err"]), state_lit(o["state"]), g(o["ticks"]),
                                          ostr(None if o["unit"] == "raise" else o["unit"]), ostr(None if o["label"] == "raise" else o["label"]),
                                          g(o["labels"]))


def stage(ctx, st, n, length, predicates):
    """runs n histories; predicates: list of fn(case, obs) -> list of (what, step, detail).  Returns coverage dict;
    records violations / broken ties in ctx / st"""
    rnd = random.Random(ctx.seed + 77)
    cases = [gen_case(rnd, length) for _ in range(n)]
    impl = ctx.run_impl_cases("impl_dimlink.py", cases, jobs=8, timeout=3000)
    failures = []
    for c, obs in zip(cases, impl):
        for i, x in enumerate(obs):
            tw = x.pop("twin", None)
            if tw:
                failures.append(("a linked %s dimension converts positions differently from a dimension holding the same values itself" % tw
                                 if not tw.startswith("raise") else "position conversion on a linked dimension raised " + tw,
                                 {"init": c["init"], "ops": c["ops"][:i + 1]}, {}))
                break
            if not x.pop("objects_agree", True):
                failures.append(("two Python objects of the same dimension / array answer differently", {"init": c["init"], "ops": c["ops"][:i + 1]}, {}))
                break
        for p in predicates:
            for what, step, detail in p(c, obs):
                failures.append((what, {"init": c["init"], "ops": c["ops"][:step + 1]}, detail))
    terms = []
    for c, obs in zip(cases, impl):
        # Reopen is the identity in the model: drop it together with its observation after checking it changed nothing
        ops, ob = [], []
        for i, (o, x) in enumerate(zip(c["ops"], obs)):
            if o[0] == "Reopen":
                prev = obs[i - 1] if i else None
                if prev is not None and {k: v for k, v in x.items() if k != "err"} != {k: v for k, v in prev.items() if k != "err"}:
                    failures.append(("a dimension reads differently after reopening", {"init": c["init"], "ops": c["ops"][:i + 1]}, {}))
                continue
            ops.append(o)
            ob.append(x)
        init = dict(c["init"], r_link=None, s_link=None)
        terms.append("(%s, %s, %s)" % (state_lit(init), clist([op_lit(o) for o in ops], "dop"), clist([obs_lit(o) for o in ob], "dobs")))
    dis = []
    if core.vo_ok("Pure/DimLinkCheck.v"):
        verd, errs = core.eval_verdicts(ctx.workdir, HEADER, "dimlink_case", "check_dimlink", terms, tag="dl", shard_size=60)
        for e in errs:
            st["broken"].append("dimension-link model evaluation failed: %s" % e)
        dis = [cases[i] for i, code in verd]
    else:
        st["broken"].append("model Pure/DimLinkCheck.v does not build")
    if failures:
        failures.sort(key=lambda x: len(repr(x[1])))
        what, inp, obs = failures[0]
        rp = ctx.write_replay("%s-dimlink-seed%d.json" % (ctx.prop, ctx.seed), {"property": ctx.prop, "kind": what, "input": inp,
                                                                                "observed": obs, "count": len(failures)})
        if not ctx.violations:
            ctx.violation("%d dimension histories violate %s, e.g. %s: %r" % (len(failures), ctx.prop, what, obs), rp)
    elif dis:
        dis.sort(key=lambda x: len(repr(x)))
        st["broken"].append("correspondence: the dimension-link model and the implementation disagree on %d histories, e.g. %r" % (len(dis), dis[0]))
    hist = {}
    for c, obs in zip(cases, impl):
        for o, x in zip(c["ops"], obs):
            key = o[0] + ("!refused" if x["err"] else "")
            hist[key] = hist.get(key, 0) + 1
    return {"dimension_histories": n, "dimension_ops": hist, "dimension_disagreements": len(dis), "dimension_failures": len(failures)}


# ---- predicates on the implementation's own trace (model-free)
def alias_predicate(case, obs):
    """C05: a linked range dimension reports the target's current vector, unit and label; a linked set dimension its
    vector as labels; ticks replace the link and vice versa"""
    out = []
    for i, o in enumerate(obs):
        st = o["state"]
        shape, cells = st["t_shape"], st["t_cells"]

        def vec(idx):
            if len(shape) == 1:
                return cells if idx == [-1] else None
            r, c = shape
            if idx[0] == -1:
                k = idx[1]
                return [cells[j * c + k] for j in range(r)] if 0 <= k < c else "raise"
            k = idx[0]
            return cells[k * c:(k + 1) * c] if 0 <= k < r else "raise"
        if st["r_link"] is not None:
            want = vec(st["r_link"])
            if want is not None and o["ticks"] != want:
                out.append(("a linked range dimension does not report the target's current vector as its ticks", i, {"ticks": o["ticks"], "vector": want}))
            if o["unit"] != st["t_unit"] or o["label"] != st["t_label"]:
                out.append(("a linked range dimension does not report the target's unit / label", i,
                            {"unit": o["unit"], "target_unit": st["t_unit"], "label": o["label"], "target_label": st["t_label"]}))
            if st["r_ticks"] is not None:
                out.append(("a linked range dimension still stores ticks of its own", i, {}))
        if st["s_link"] is not None:
            want = vec(st["s_link"])
            if want is not None and o["labels"] != want:
                out.append(("a linked set dimension does not report the target's vector as its labels", i, {"labels": o["labels"], "vector": want}))
        op = case["ops"][i]
        if op[0] == "RSetTicks" and o["err"] == 0 and (st["r_link"] is not None or o["ticks"] != op[1]):
            out.append(("setting explicit ticks did not replace the link", i, {"link": st["r_link"], "ticks": o["ticks"]}))
        if op[0] in ("RSetUnit",) and o["err"] == 0 and st["r_link"] is not None and st["t_unit"] != op[1]:
            out.append(("a unit set through a linked dimension did not reach the target", i, {"target_unit": st["t_unit"]}))
    return out


def refusal_predicate(case, obs):
    """C12: a refused call leaves every stored field and every reported value as it was"""
    out = []
    for i, o in enumerate(obs):
        if o["err"] and i > 0:
            prev = obs[i - 1]
            if {k: v for k, v in o.items() if k != "err"} != {k: v for k, v in prev.items() if k != "err"}:
                changed = [k for k in o["state"] if o["state"][k] != prev["state"][k]]
                out.append(("a refused dimension call changed the file", i, {"op": case["ops"][i], "changed": changed}))
    return out


def frame_links_stage(ctx, n, length):
    """implementation only: dimensions linked to data-frame columns report the column they were linked to LAST"""
    r = ctx.run_impl("impl_framelinks.py", {"seed": ctx.seed, "n": n, "len": length}, timeout=1800)
    if r["failures"] and not ctx.violations:
        fl = sorted(r["failures"], key=lambda x: len(x["history"]))[0]
        rp = ctx.write_replay("%s-framelinks-seed%d.json" % (ctx.prop, ctx.seed), {
            "property": ctx.prop, "kind": fl["problem"], "input": {"calls": fl["history"]}, "observed": fl["problem"],
            "count": len(r["failures"])})
        ctx.violation("%d data-frame link histories violate %s, e.g. %s" % (len(r["failures"]), ctx.prop, fl["problem"]), rp)
    ctx.coverage["frame_link_histories"] = r["trials"]
    ctx.coverage["frame_link_failures"] = len(r["failures"])
    ctx.coverage["evaluations"] += r["trials"] * length
