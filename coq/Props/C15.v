(* Props/C15.v -- calibration is applied on every read and never touches the stored values.
   ONLY property theorems.  In the model (Pure/Array.v) calibration exists only in
   read_calibrated; no write operation mentions coefficients or origin, so "setting the
   calibration never alters the raw values" is true of the model by construction and is NOT
   stated as a theorem: it is exercised (raw h5py read after every set/clear step). *)
From Coq Require Import ZArith List QArith.
From NixV Require Import Base.Prelude Pure.Slices Pure.Array Proofs.ArrayProofs Proofs.CalibProofs.
Import ListNotations.
Open Scope Q_scope.

(* Horner's scheme (np.polynomial.polynomial.polyval) is c0 + c1 y + c2 y^2 + ... *)
Theorem c15_horner : forall coeffs y, horner coeffs y == power_sum coeffs y 0.
Proof. exact horner_is_polynomial. Qed.
Print Assumptions c15_horner.

(* calibration is element by element: slicing and calibration commute, for every selection *)
Theorem c15_commute : forall coeffs origin (raw : list Q) (pos : list nat) d,
  read_calibrated coeffs origin (map (fun p => nth p raw d) pos) =
  map (fun p => nth p (read_calibrated coeffs origin raw)
                     (if is_calibrated coeffs origin then calibrate coeffs origin d else d)) pos.
Proof. exact calibration_commutes_with_selection. Qed.
Print Assumptions c15_commute.

(* no coefficients and no (or a zero) origin: the raw values *)
Theorem c15_no_calibration_identity : forall raw,
  read_calibrated [] None raw = raw /\ read_calibrated [] (Some 0) raw = raw.
Proof. exact no_calibration_identity. Qed.
Print Assumptions c15_no_calibration_identity.

(* every element of a calibrated read is the polynomial of the corresponding raw element *)
Theorem c15_pointwise : forall coeffs origin (raw : list Q) i d,
  is_calibrated coeffs origin = true -> (i < length raw)%nat ->
  nth i (read_calibrated coeffs origin raw) d = calibrate coeffs origin (nth i raw d) /\
  length (read_calibrated coeffs origin raw) = length raw.
Proof.
  intros coeffs origin raw i d Hc Hi. unfold read_calibrated. rewrite Hc. split; [|apply map_length].
  rewrite (nth_indep _ d (calibrate coeffs origin d)) by (rewrite map_length; exact Hi).
  apply map_nth.
Qed.
Print Assumptions c15_pointwise.

(* the origin only shifts the argument *)
Theorem c15_origin_is_shift : forall coeffs origin x,
  calibrate coeffs origin x == calibrate coeffs None (x - origin_val origin).
Proof. exact origin_is_shift. Qed.
Print Assumptions c15_origin_is_shift.

(* one coefficient is the constant polynomial, two are the straight line through the origin offset *)
Theorem c15_constant_and_linear : forall c0 c1 origin x,
  calibrate [c0] origin x == c0 /\
  calibrate [c0; c1] origin x == c0 + c1 * (x - origin_val origin).
Proof. exact constant_and_linear. Qed.
Print Assumptions c15_constant_and_linear.

(* a trailing zero coefficient is immaterial once there is a coefficient; without one it is not
   (no polynomial vs. the zero polynomial) *)
Theorem c15_trailing_zero : forall coeffs origin x, coeffs <> [] ->
  calibrate (coeffs ++ [0]) origin x == calibrate coeffs origin x.
Proof. exact trailing_zero. Qed.
Print Assumptions c15_trailing_zero.
Theorem c15_trailing_zero_needs_coeff : ~ (calibrate ([] ++ [0]) None 1 == calibrate [] None 1).
Proof. exact trailing_zero_needs_coeff. Qed.
Print Assumptions c15_trailing_zero_needs_coeff.

(* the calibrated value is additive in the polynomial *)
Theorem c15_additive : forall a b origin x, a <> [] -> length a = length b ->
  calibrate (add_coeffs a b) origin x == calibrate a origin x + calibrate b origin x.
Proof. exact calibration_additive. Qed.
Print Assumptions c15_additive.

(* calibration never changes how many elements a read returns, and applies exactly when there is
   a coefficient or a non-zero origin *)
Theorem c15_length_and_trigger : forall coeffs origin raw,
  length (read_calibrated coeffs origin raw) = length raw /\
  (is_calibrated coeffs origin = true <-> coeffs <> [] \/ ~ (origin_val origin == 0)).
Proof. intros; split; [apply calibrated_length | apply is_calibrated_iff]. Qed.
Print Assumptions c15_length_and_trigger.
