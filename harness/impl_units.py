"""Implementation side of C09: run nixio.util.units (from PYTHONPATH) on the cases on stdin."""
import json
import math
import sys
from fractions import Fraction

from nixio.util import units
from nixio.exceptions import InvalidUnit


def b(x):
    return bool(x)


def scaling_res(a, c):
    try:
        f = units.scaling(a, c)
    except InvalidUnit:
        return ["refused"]
    except Exception as exc:  # KeyError, ValueError ...
        return ["error", type(exc).__name__]
    try:
        f = float(f)
        if not (f > 0) or math.isinf(f):
            return ["raw", repr(f)]
        e = int(round(math.log10(f)))
        if abs(Fraction(f) / Fraction(10) ** e - 1) < Fraction(1, 10 ** 9):
            return ["ok", e]
        return ["raw", repr(f)]
    except Exception as exc:
        return ["raw", repr(f)]


def scalable_res(a, c):
    try:
        return b(units.scalable(a, c))
    except Exception as exc:
        return "error:" + type(exc).__name__


def split_res(s):
    try:
        p, u, k = units.split(s)
        return [p, u, k]
    except Exception as exc:
        return ["\x00error", type(exc).__name__, ""]


def main():
    req = json.load(sys.stdin)
    out = {}
    out["atomic"] = [[b(units.is_atomic(s)), b(units.is_si(s)), split_res(s)] for s in req.get("atomic", [])]
    out["pairs"] = [[scalable_res(a, c), scaling_res(a, c)] for a, c in req.get("pairs", [])]
    out["compound"] = [[b(units.is_compound(s)), b(units.is_si(s))] for s in req.get("compound", [])]
    res = []
    for s in req.get("strings", []):
        s1 = units.sanitizer(s)
        res.append([b(units.is_atomic(s)), b(units.is_compound(s)), b(units.is_si(s)), split_res(s),
                    s1, units.sanitizer(s1)])
    out["strings"] = res
    out["spairs"] = [[scalable_res(a, c), scaling_res(a, c)] for a, c in req.get("spairs", [])]
    json.dump(out, sys.stdout)


main()
