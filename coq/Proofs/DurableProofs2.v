(* Proofs/DurableProofs2.v -- C17, further: a closed file is final (whatever is called afterwards,
   the bytes a kill leaves are those of the close), flush is idempotent, and the model never
   promises a content other than the live one (the disk is either unspecified or current). *)
From NixV Require Import Base.Prelude Gen.FileConsts Pure.Durable Proofs.DurableProofs.
From Coq Require Import Lia.

Section P2.
  Variable content : Type.
  Notation dstate := (dstate content).

  Lemma h5_call_closed c (s : dstate) : is_open _ s = false -> h5_call _ c s = s.
  Proof. intros H. destruct c; cbn; rewrite ?H; reflexivity. Qed.
  Lemma run_body_closed body : forall s : dstate, is_open _ s = false -> run_body _ body s = s.
  Proof. induction body as [|c body IH]; intros s H; cbn; [reflexivity|].
    rewrite h5_call_closed by exact H. apply IH. exact H. Qed.
  Lemma dstep_closed (s : dstate) o : is_open _ s = false -> dstep _ s o = s.
  Proof. intros H. destruct o as [f| | |]; cbn; rewrite ?H; try reflexivity; apply run_body_closed; exact H. Qed.
  (* once closed, no call changes anything: neither the live content nor what is on disk *)
  Theorem closed_is_final ops : forall s : dstate, is_open _ s = false -> drun _ ops s = s.
  Proof. induction ops as [|o ops IH]; intros s H; cbn; [reflexivity|].
    rewrite dstep_closed by exact H. apply IH. exact H. Qed.

  (* any history, close(), then ANY calls at all, then the kill: the content at the close *)
  Theorem close_then_anything h ops (s0 : dstate) :
    is_open _ s0 = true -> (forall o, In o h -> o <> DClose _) ->
    after_kill _ (drun _ (h ++ [DClose _] ++ ops) s0) = Some (apply_writes _ h (live _ s0)).
  Proof.
    intros Ho Hnc. destruct (live_is_writes content h s0 Hnc Ho) as [A B].
    unfold drun. rewrite !fold_left_app. fold (drun _ h s0). cbn [fold_left].
    destruct (close_durable content (drun _ h s0) B) as [K [L C]].
    fold (drun _ ops (dstep _ (drun _ h s0) (DClose _))). rewrite closed_is_final by exact C.
    rewrite K, A. reflexivity.
  Qed.

  (* flush() twice is flush() once *)
  Theorem flush_idempotent (s : dstate) :
    dstep _ (dstep _ s (DFlush _)) (DFlush _) = dstep _ s (DFlush _).
  Proof. cbn. unfold run_body, file_flush_body. cbn. destruct (is_open _ s) eqn:E; cbn; rewrite ?E; reflexivity. Qed.

  (* the disk is never stale: it is either unspecified or exactly the live content *)
  Definition fresh (s : dstate) : Prop := disk _ s = None \/ disk _ s = Some (live _ s).
  Lemma h5_call_fresh c (s : dstate) : fresh s -> fresh (h5_call _ c s).
  Proof. intros F. destruct c; cbn; destruct (is_open _ s); try exact F; right; reflexivity. Qed.
  Lemma run_body_fresh body : forall s : dstate, fresh s -> fresh (run_body _ body s).
  Proof. induction body as [|c body IH]; intros s F; cbn; [exact F|]. apply IH. apply h5_call_fresh. exact F. Qed.
  Lemma dstep_fresh (s : dstate) o : fresh s -> fresh (dstep _ s o).
  Proof. intros F. destruct o as [f| | |].
    - cbn. destruct (is_open _ s); [left; reflexivity|exact F].
    - exact F.
    - apply run_body_fresh; exact F.
    - apply run_body_fresh; exact F.
  Qed.
  Theorem never_stale ops : forall s : dstate, fresh s -> fresh (drun _ ops s).
  Proof. induction ops as [|o ops IH]; intros s F; cbn; [exact F|]. apply IH. apply dstep_fresh. exact F. Qed.
End P2.
