"""C10 -- metadata properties hold typed value lists; sections behave like ordered dicts."""
import os
import random
import struct
import sys

sys.path.insert(0, os.path.dirname(os.path.dirname(os.path.abspath(__file__))))
import core  # noqa: E402
from coqlit import cZ, clist  # noqa: E402

ID = "C10"
THEOREMS = ["c10_typed_invariant", "c10_set_reads_back", "c10_extend_appends", "c10_refused_unchanged",
            "c10_mixed_refused", "c10_bool_is_not_int", "c10_dict_get_after_set", "c10_dict_contains", "c10_dict_del"]
HEADER = "From Coq Require Import ZArith List.\nFrom NixV Require Import Base.Prelude Pure.Values Pure.ValuesCheck.\nImport ListNotations.\nOpen Scope Z_scope.\n"
TYS = ["bool", "int", "float", "str"]
VTY = {"bool": "TBool", "int": "TInt", "float": "TFloat", "str": "TStr"}


def f64(x):
    return struct.unpack("<Q", struct.pack("<d", x))[0]


def val(rnd, ty, np_ok=True):
    if ty == "bool":
        return [rnd.choice(["bool", "npbool"] if np_ok else ["bool"]), rnd.randint(0, 1)]
    if ty == "int":
        return [rnd.choice(["int", "npint"] if np_ok else ["int"]),
                rnd.choice([0, 1, -1, 2 ** 63 - 1, -2 ** 63, rnd.randint(-1000, 1000)])]
    if ty == "float":
        x = rnd.choice([0.0, -0.0, 1.5, -2.25, 1e300, float("inf"), float("nan"), 5e-324])
        if np_ok and rnd.random() < 0.2:
            return ["npfloat32", f64(rnd.choice([1.5, -2.25, 0.0, 1024.0]))]
        return ["float", f64(x)]
    if ty == "str":
        return ["str", rnd.randrange(14)]
    return [ty, 0]


def pyval(v):
    t, x = v
    if t in ("bool", "npbool"):
        return "(VBool %s)" % ("true" if x else "false")
    if t in ("int", "npint"):
        return "(VInt %s)" % cZ(x)
    if t in ("float", "npfloat32"):
        return "(VFloat %s)" % cZ(x)
    if t == "str":
        return "(VStr %s)" % cZ(x)
    return "VOther"


def vlist(vs):
    return clist([pyval(v) for v in vs], "pyval")


def gen_vals(rnd, ty, n=None):
    n = n or rnd.randint(1, 6)
    return [val(rnd, ty) for _ in range(n)]


def gen_history(rnd, length):
    ops = []
    types = {}
    for _ in range(length):
        r = rnd.random()
        name = rnd.randrange(8)
        if r < 0.22:
            ty = rnd.choice(TYS)
            if rnd.random() < 0.2:
                ops.append(["create_ty", name, ty])
                types.setdefault(name, ty)
            else:
                vs = gen_vals(rnd, ty)
                scalar = len(vs) == 1 and rnd.random() < 0.5
                if rnd.random() < 0.12:
                    vs = vs + [val(rnd, rnd.choice([t for t in TYS if t != ty]))]
                    rnd.shuffle(vs)
                    scalar = False
                if rnd.random() < 0.04:
                    vs = []
                    scalar = False
                if ty == "int" and rnd.random() < 0.15:           # an integer that no int64 can hold
                    vs = list(vs)
                    vs.insert(rnd.randrange(len(vs) + 1), ["int", rnd.choice([2 ** 63, -2 ** 63 - 1, 2 ** 70])])
                    scalar = False
                ops.append(["create", name, vs, scalar])
                types.setdefault(name, ty)
        elif r < 0.55 and types:
            name = rnd.choice(list(types))
            ty = types[name] if rnd.random() < 0.8 else rnd.choice(TYS)
            k = rnd.random()
            if k < 0.08:
                ops.append(["set", name, [], rnd.choice(["none", "list"])])
            elif k < 0.2:
                ops.append(["set", name, gen_vals(rnd, ty, 1), "scalar"])
            elif k < 0.27:
                # extend_values with a bare value: one value is appended (a text is ONE value, not its characters)
                v1 = gen_vals(rnd, ty, 1)
                if not (v1[0][0] == "str" and v1[0][1] == 0):        # (the empty text as a bare value: the recorded finding's domain)
                    ops.append(["extend", name, v1, "scalar"])
            elif k < 0.3 and ty != "str":
                vs = [val(rnd, ty, np_ok=False) for _ in range(rnd.randint(1, 4))]
                ops.append(["set", name, vs, "nparray"])
            else:
                vs = gen_vals(rnd, ty)
                m = rnd.random()
                if m < 0.2:                       # one odd element at a random position
                    pos = rnd.randrange(len(vs) + 1)
                    vs.insert(pos, val(rnd, rnd.choice([t for t in TYS if t != ty])))
                elif m < 0.26:
                    vs.insert(rnd.randrange(len(vs) + 1), [rnd.choice(["none", "nested"]), 0])
                elif m < 0.3 and ty == "int":
                    vs.insert(rnd.randrange(len(vs) + 1), ["int", rnd.choice([2 ** 63, -2 ** 63 - 1, 2 ** 70])])
                ops.append([rnd.choice(["set", "set", "extend"]), name, vs, "list"])
        elif r < 0.63:
            ops.append(["dget", name])
        elif r < 0.75:
            ty = rnd.choice(TYS)
            vs = gen_vals(rnd, ty, rnd.randint(1, 3))
            if ty == "int" and rnd.random() < 0.1:
                vs = list(vs) + [["int", rnd.choice([2 ** 63, 2 ** 70])]]
            ops.append(["dset", name, vs, len(vs) == 1 and rnd.random() < 0.5])
            types.setdefault(name, ty)
        elif r < 0.82:
            ops.append(["ddel", name])
        elif r < 0.9:
            ops.append(["sub", name])
        else:
            ops.append(["reopen"])
    return ops


def is_empty_scalar(o):
    """prop.values = "" / create_property(name, ""): Python sees an empty sequence"""
    return (o[0] == "set" and o[3] == "scalar" and o[2][0] == ["str", 0]) or \
           (o[0] in ("create", "dset") and o[3] is True and o[2][0] == ["str", 0])


def vop(o):
    t = o[0]
    if is_empty_scalar(o):
        o = [o[0], o[1], [], o[3]] if t != "dset" else o
    if t == "create":
        return "(PCreate %s %s)" % (cZ(o[1]), vlist(o[2]))
    if t == "create_ty":
        return "(PCreateTy %s %s)" % (cZ(o[1]), VTY[o[2]])
    if t == "set":
        return "(PSet %s %s)" % (cZ(o[1]), vlist(o[2]))
    if t == "extend":
        return "(PExtend %s %s)" % (cZ(o[1]), vlist(o[2]))
    if t == "dget":
        return "(DGet %s)" % cZ(o[1])
    if t == "dset":
        return "(DSet %s %s)" % (cZ(o[1]), vlist(o[2]))
    if t == "ddel":
        return "(DDel %s)" % cZ(o[1])
    if t == "sub":
        return "(CreateSub %s)" % cZ(o[1])
    return "VReopen"


def stored_encoding(vs):
    out = [len(vs)]
    for t, x in vs:
        out += [{"bool": 0, "npbool": 0, "int": 1, "npint": 1, "float": 2, "npfloat32": 2, "str": 3}.get(t, 9), x]
    return out


def state_block(rest):
    """the encoded state at the head of `rest` (cut by structure, not by searching the separator)"""
    if rest and rest[0] in (-98, -99):
        return rest[:1]
    n = rest[0]
    pos = 1
    for _ in range(n):
        pos += 3 + 2 * rest[pos + 2]
    pos += 1 + rest[pos]            # subsections: count, names
    return rest[:pos]


def prop_values(state, name):
    """the [n, tag, v, ...] block of property `name` in an encoded state"""
    n = state[0]
    pos = 1
    for _ in range(n):
        nm, ty, cnt = state[pos], state[pos + 1], state[pos + 2]
        block = state[pos + 2: pos + 3 + 2 * cnt]
        if nm == name:
            return block
        pos += 3 + 2 * cnt
    return None


def run(ctx):
    rnd = random.Random(ctx.seed)
    thorough = ctx.tier == "thorough"
    st = core.proof_stage(ctx, [], ["Pure/ValuesCheck.vo", "Props/C10.vo"], "Props/C10.v", THEOREMS)
    ctx.trusted_base = [
        "Coq 8.16.1 kernel; no native_compute",
        "hand-written model Pure/Values.v of DataType.get_dtype, Section.create_property, Property.values / extend_values and the "
        "dictionary protocol of Section, tied by correspondence on histories (this run)",
        "numpy conversion of Python values of the property's own type is exact (float bit patterns, int64) - exercised",
    ]
    ctx.assumptions = ["every property theorem: Closed under the global context"]
    cases = [gen_history(rnd, 30 if thorough else 14) for _ in range(4000 if thorough else 400)]
    impl = ctx.run_impl_cases("impl_values.py", cases, jobs=8, timeout=3000)
    terms = []
    failures = []
    known_empty = []
    for ops, obs in zip(cases, impl):
        # trace predicate on the implementation alone: a refused store leaves every stored value as it was
        prev = None
        for o, ob in zip(ops, obs):
            # [result] -7 [state] -7 [dict view]; a stored value may itself be -7, so the result is cut by its structure
            i1 = {0: 1, 2: 2, 4: 2}.get(ob[0], 2 + 2 * ob[1] if ob[0] == 1 else None)
            if i1 is None or ob[i1] != -7:
                raise RuntimeError("malformed observation %r" % (ob[:12],))
            res, rest = ob[:i1], ob[i1 + 1:]
            state = state_block(rest)
            if res[0] == 2 and prev is not None and state != prev and res[1] in (2, 3, 5, 1, 8):
                failures.append(("a refused call changed the stored values", {"history": ops[:ops.index(o) + 1]}, {"error_class": res[1]}))
            if o[0] in ("set", "create", "dset") and res[0] == 0 and o[0] != "dset" and (o[0] != "set" or o[3] in ("list", "scalar")):
                want = stored_encoding(o[2]) if not (o[0] == "set" and o[3] == "none") else [0]
                got = prop_values(state, o[1])
                if got is not None and got != want:
                    item = ("values read back differ from the values stored", {"history": ops[:ops.index(o) + 1]}, {"stored": want[:9], "read": got[:9]})
                    if is_empty_scalar(o):
                        known_empty.append(item)
                    else:
                        failures.append(item)
            # the dictionary view is consistent with itself and with the list of properties and sub-sections (model-free):
            # membership of each of the 8 pool names <=> iteration yields it; len = number of properties
            dv = rest[len(state) + 1:]
            if state and state[0] >= 0 and len(dv) >= 2 and dv[0] >= 0:
                nk = dv[1]
                keys, member = dv[2:2 + nk], dv[2 + nk:2 + nk + 8]
                if dv[0] != state[0]:
                    failures.append(("len(section) is not the number of its properties", {"history": ops[:ops.index(o) + 1]},
                                     {"len": dv[0], "properties": state[0]}))
                elif len(member) == 8 and any((k in keys) != bool(member[k]) for k in range(8)):
                    k = [k for k in range(8) if (k in keys) != bool(member[k])][0]
                    failures.append(("membership (key in section) disagrees with iteration over the section",
                                     {"history": ops[:ops.index(o) + 1]}, {"name_index": k, "iterated": k in keys, "contained": bool(member[k])}))
                if o[0] == "dget" and res[0] in (1, 4):
                    # section[key] on a key that names a property returns that property's values, never the sub-section
                    names_of_props = []
                    pos = 1
                    for _ in range(state[0]):
                        names_of_props.append(state[pos])
                        pos += 3 + 2 * state[pos + 2]
                    if o[1] in names_of_props and res[0] == 4:
                        failures.append(("section[key] returns the sub-section although a property of that name exists",
                                         {"history": ops[:ops.index(o) + 1]}, {"name_index": o[1]}))
            if state and state[0] == -98:
                failures.append(("two objects of the one section show different properties or values", {"history": ops[:ops.index(o) + 1]}, None))
            if state and state[0] == -99:
                failures.append(("the section cannot be read any more", {"history": ops[:ops.index(o) + 1]}, None))
            prev = state
        terms.append("(%s, %s)" % (clist([vop(o) for o in ops], "vop"),
                                   clist([clist([cZ(x) for x in ob], "Z") for ob in obs], "(list Z)")))
    disagreements = []
    if core.vo_ok("Pure/ValuesCheck.v"):
        verd, errs = core.eval_verdicts(ctx.workdir, HEADER, "values_case", "check_values", terms, tag="val", shard_size=80)
        for e in errs:
            st["broken"].append("model evaluation failed: %s" % e)
        for i, code in verd:
            disagreements.append(cases[i])
    else:
        st["broken"].append("model Pure/ValuesCheck.v does not build")
    kf = core.load_known(ID)
    if not any(e.get("match") == "scalar_empty_string" for e in kf):
        failures.extend(known_empty)
    else:
        r = ctx.run_impl("impl_values.py", {"cases": [[["create", 0, [["str", 1]], False], ["set", 0, [["str", 0]], "scalar"]]]})[0]
        if r[1][:1] == [0] and prop_values(r[1][r[1].index(-7) + 1:], 0) == [0]:
            for e in kf:
                if e.get("match") == "scalar_empty_string":
                    ctx.known_hits.append("%s (%d further instances in this run)" % (e["what"], len(known_empty)))
    if failures:
        failures.sort(key=lambda x: len(repr(x[1])))
        what, inp, r = failures[0]
        rp = ctx.write_replay("%s-seed%d.json" % (ID, ctx.seed), {"property": ID, "kind": what, "input": inp, "observed": r,
                                                                  "count": len(failures), "broken_obligations": st["broken"]})
        ctx.violation("%d histories violate C10, e.g. %s" % (len(failures), what), rp)
    elif disagreements:
        disagreements.sort(key=lambda x: len(repr(x)))
        st["broken"].append("correspondence: model and implementation disagree on %d histories, e.g. %r" % (len(disagreements), disagreements[0]))
    hist = {}
    for ops in cases:
        for o in ops:
            hist[o[0]] = hist.get(o[0], 0) + 1
    ctx.coverage.update({
        "evaluations": sum(len(c) for c in cases), "distinct_nontrivial": len(set(repr(c) for c in cases)),
        "rule": "histories on one section: create_property with value lists of the four types (lengths 1-6, int64 extremes, NaN/inf/"
                "-0.0/denormal as bit patterns, empty / non-ASCII / long text) or with a DataType; assignment of lists, scalars, "
                "numpy arrays, None / [] (clear); extend_values; mixed-type candidates with the odd element at every position, "
                "bool/int/float confusion incl. numpy scalars, unsupported objects, integers beyond int64; dictionary-style get / "
                "set / del / membership / len / iteration over an 8-name pool incl. a subsection named like a property; reopen. "
                "After every op the result class, every property's type and values and the dict view are compared with the model. "
                "The calls alternate between two Python objects of the section (and between a fresh and the first-obtained "
                "Property object); both section objects must show the same state after every call.",
        "op_histogram": hist, "disagreements": len(disagreements), "spec_failures": len(failures),
        "samples": [cases[0][:5]],
    })
    return st
