(* Base/Prelude.v -- shared vocabulary of every model file.
   Strings are lists of Unicode code points (N); no proofs of properties live here,
   only definitions and the few structural lemmas every file needs. *)
From Coq Require Export NArith ZArith List Bool.
Export ListNotations.

Definition str := list N.

Fixpoint streq (a b : str) : bool :=
  match a, b with
  | [], [] => true
  | x :: a', y :: b' => N.eqb x y && streq a' b'
  | _, _ => false
  end.

Lemma streq_eq a b : streq a b = true <-> a = b.
Proof.
  revert b; induction a as [|x a IH]; intros [|y b]; cbn; split; intro H;
    try reflexivity; try discriminate.
  - apply andb_prop in H. destruct H as [H1 H2]. apply N.eqb_eq in H1. apply IH in H2. congruence.
  - injection H as -> ->. rewrite N.eqb_refl. cbn. apply IH. reflexivity.
Qed.

Lemma streq_refl a : streq a a = true.
Proof. apply streq_eq. reflexivity. Qed.

Fixpoint list_eqb {A} (eqb : A -> A -> bool) (a b : list A) : bool :=
  match a, b with
  | [], [] => true
  | x :: a', y :: b' => eqb x y && list_eqb eqb a' b'
  | _, _ => false
  end.

Definition opt_eqb {A} (eqb : A -> A -> bool) (a b : option A) : bool :=
  match a, b with
  | None, None => true
  | Some x, Some y => eqb x y
  | _, _ => false
  end.

(* is [p] a prefix of [s]?  returns the rest *)
Fixpoint strip_prefix (p s : str) : option str :=
  match p, s with
  | [], _ => Some s
  | x :: p', y :: s' => if N.eqb x y then strip_prefix p' s' else None
  | _ :: _, [] => None
  end.

(* Python's str.replace(old, new) for non-empty [old]: leftmost, non-overlapping.
   Fuel = length of the input suffices (every step consumes at least one char). *)
Fixpoint replace_fuel (fuel : nat) (old new s : str) : str :=
  match fuel with
  | O => s
  | S f =>
      match s with
      | [] => []
      | c :: t =>
          match strip_prefix old s with
          | Some rest => new ++ replace_fuel f old new rest
          | None => c :: replace_fuel f old new t
          end
      end
  end.
Definition replace (old new s : str) : str := replace_fuel (S (length s)) old new s.

(* substring test *)
Fixpoint contains_fuel (fuel : nat) (pat s : str) : bool :=
  match fuel with
  | O => false
  | S f =>
      match strip_prefix pat s with
      | Some _ => true
      | None => match s with [] => false | _ :: t => contains_fuel f pat t end
      end
  end.
Definition contains (pat s : str) : bool := contains_fuel (S (length s)) pat s.

Definition mem_str (x : str) (l : list str) : bool := existsb (streq x) l.

(* indices of the cases on which a boolean check fails: what every cases.v prints *)
Fixpoint failing_from {A} (i : N) (f : A -> bool) (l : list A) : list N :=
  match l with
  | [] => []
  | x :: t => if f x then failing_from (N.succ i) f t else i :: failing_from (N.succ i) f t
  end.
Definition failing {A} (f : A -> bool) (l : list A) : list N := failing_from 0%N f l.

(* verdict codes of a correspondence case: bit 0 = model and implementation disagree,
   bit 1 = the implementation's answer violates the property's specification *)
Definition vcode (agree holds : bool) : N :=
  ((if agree then 0 else 1) + (if holds then 0 else 2))%N.
Fixpoint verdicts_from {A} (i : N) (f : A -> N) (l : list A) : list (N * N) :=
  match l with
  | [] => []
  | x :: t => let c := f x in
              if N.eqb c 0 then verdicts_from (N.succ i) f t
              else (i, c) :: verdicts_from (N.succ i) f t
  end.
Definition verdicts {A} (f : A -> N) (l : list A) : list (N * N) := verdicts_from 0%N f l.
Definition nth_str (l : list str) (i : N) : str := nth (N.to_nat i) l [].
