(* Proofs/RegexProofs.v
   1. A declarative matching relation [mt] and COMPLETENESS of the backtracking matcher [m]
      with respect to it: if some parse exists after which the continuation succeeds, the
      matcher succeeds (possibly through another parse).
   2. With it: products/quotients of any number of table-built atomic units are recognised by
      is_compound (C09), for the compound regex translated from the current source. *)
From NixV Require Import Base.Prelude Pure.Regex Gen.Units Pure.Units.
From Coq Require Import Lia.
Open Scope N_scope.

Inductive mt : re -> str -> bool -> str -> bool -> Prop :=
| mt_eps s b : mt Eps s b s b
| mt_chr c t b : mt (Chr c) (c :: t) b t false
| mt_cls neg rs x t b : xorb neg (in_ranges x rs) = true -> mt (Cls neg rs) (x :: t) b t false
| mt_seq r1 r2 s0 b0 s1 b1 s2 b2 :
    mt r1 s0 b0 s1 b1 -> mt r2 s1 b1 s2 b2 -> mt (Seq r1 r2) s0 b0 s2 b2
| mt_altl r1 r2 s b s' b' : mt r1 s b s' b' -> mt (Alt r1 r2) s b s' b'
| mt_altr r1 r2 s b s' b' : mt r2 s b s' b' -> mt (Alt r1 r2) s b s' b'
| mt_opt_some r s b s' b' : mt r s b s' b' -> mt (Opt r) s b s' b'
| mt_opt_none r s b : mt (Opt r) s b s b
| mt_star_nil r s b : mt (Star r) s b s b
| mt_star_cons r s b s1 b1 s2 b2 :
    mt r s b s1 b1 -> (length s1 < length s)%nat -> mt (Star r) s1 b1 s2 b2 ->
    mt (Star r) s b s2 b2
| mt_grp n r s b s' b' : mt r s b s' b' -> mt (Grp n r) s b s' b'
| mt_bol s : mt Bol s true s true
| mt_eol_nil b : mt Eol [] b [] b
| mt_eol_nl b : mt Eol [10] b [10] b.

Definition ok {A} (o : option A) : Prop := exists v, o = Some v.

Lemma ok_first {A} (o1 o2 : option A) : ok o1 -> ok (match o1 with Some v => Some v | None => o2 end).
Proof. intros [v ->]. exists v. reflexivity. Qed.
Lemma ok_second {A} (o1 o2 : option A) : ok o2 -> ok (match o1 with Some v => Some v | None => o2 end).
Proof. intros H. destruct o1 as [v|]; [exists v; reflexivity | exact H]. Qed.

Definition complete_for (r : re) : Prop :=
  forall s b s' b', mt r s b s' b' ->
  forall A cs (k : str -> bool -> caps -> option A),
    (forall cs', ok (k s' b' cs')) -> ok (m r s b cs k).

Lemma star_complete r : complete_for r ->
  forall s b s' b', mt (Star r) s b s' b' ->
  forall fuel, (length s <= fuel)%nat ->
  forall A cs (k : str -> bool -> caps -> option A),
    (forall cs', ok (k s' b' cs')) -> ok (star_loop (m r) k fuel s b cs).
Proof.
  intros Hr s b s' b' H. remember (Star r) as sr eqn:E. revert E.
  induction H; intros E; try discriminate; injection E as ->.
  - intros fuel _ A cs k Hk. destruct fuel as [|f]; cbn [star_loop]; [apply Hk|].
    apply ok_second. apply Hk.
  - intros fuel Hf A cs k Hk. destruct fuel as [|f]; [lia|]. cbn [star_loop].
    apply ok_first. apply (Hr _ _ _ _ H). intros cs'.
    assert (L : Nat.ltb (length s1) (length s) = true) by (apply Nat.ltb_lt; exact H0).
    rewrite L. apply IHmt2; [reflexivity | lia | exact Hk].
Qed.

Theorem m_complete : forall r, complete_for r.
Proof.
  induction r as [|c|neg rs|r1 IH1 r2 IH2|r1 IH1 r2 IH2|r IH|r IH|n r IH| |];
    intros s b s' b' H A cs k Hk; cbn [m].
  - inversion H; subst. apply Hk.
  - inversion H; subst. rewrite N.eqb_refl. apply Hk.
  - inversion H; subst. match goal with X : xorb _ _ = true |- _ => rewrite X end. apply Hk.
  - inversion H; subst.
    match goal with X : mt r1 _ _ _ _ |- _ => apply (IH1 _ _ _ _ X) end.
    intros cs'. match goal with X : mt r2 _ _ _ _ |- _ => apply (IH2 _ _ _ _ X) end. exact Hk.
  - inversion H; subst.
    + apply ok_first. match goal with X : mt r1 _ _ _ _ |- _ => apply (IH1 _ _ _ _ X) end. exact Hk.
    + apply ok_second. match goal with X : mt r2 _ _ _ _ |- _ => apply (IH2 _ _ _ _ X) end. exact Hk.
  - inversion H; subst.
    + apply ok_first. match goal with X : mt r _ _ _ _ |- _ => apply (IH _ _ _ _ X) end. exact Hk.
    + apply ok_second. apply Hk.
  - apply (star_complete r IH _ _ _ _ H); [lia | exact Hk].
  - inversion H; subst. match goal with X : mt r _ _ _ _ |- _ => apply (IH _ _ _ _ X) end.
    intros cs'. apply Hk.
  - inversion H; subst. apply Hk.
  - inversion H; subst; apply Hk.
Qed.

(* ------------------------------------------------------------- derived constructors *)
Lemma mt_seqs_cons r rs s0 b0 s1 b1 s2 b2 :
  mt r s0 b0 s1 b1 -> mt (seqs rs) s1 b1 s2 b2 -> mt (seqs (r :: rs)) s0 b0 s2 b2.
Proof.
  intros H1 H2. destruct rs as [|r' rs'].
  - cbn in *. inversion H2; subst. exact H1.
  - change (seqs (r :: r' :: rs')) with (Seq r (seqs (r' :: rs'))). econstructor; eassumption.
Qed.

Lemma mt_alts_in x l s b s' b' : In x l -> mt x s b s' b' -> mt (alts l) s b s' b'.
Proof.
  induction l as [|y l IH]; intros Hin H; [destruct Hin|].
  destruct l as [|z l'].
  - destruct Hin as [->|[]]. exact H.
  - change (alts (y :: z :: l')) with (Alt y (alts (z :: l'))).
    destruct Hin as [->|Hin]; [apply mt_altl; exact H | apply mt_altr; apply IH; assumption].
Qed.

(* what the translator emits for a literal alternative *)
Definition lit_re (l : str) : re := match l with [c] => Chr c | _ => seqs (map Chr l) end.

Lemma mt_chrs l : forall rest b, l <> [] -> mt (seqs (map Chr l)) (l ++ rest) b rest false.
Proof.
  induction l as [|c l IH]; intros rest b Hne; [congruence|].
  destruct l as [|c' l'].
  - cbn. constructor.
  - change (map Chr (c :: c' :: l')) with (Chr c :: map Chr (c' :: l')).
    apply mt_seqs_cons with (s1 := (c' :: l') ++ rest) (b1 := false).
    + cbn. constructor.
    + apply IH. discriminate.
Qed.

Lemma mt_lit_re l rest b : l <> [] -> mt (lit_re l) (l ++ rest) b rest false.
Proof.
  intros Hne. destruct l as [|c [|c' l']]; [congruence | cbn; constructor |].
  unfold lit_re. apply mt_chrs. discriminate.
Qed.

(* ----------------------------------------------------- the compound regex of the source *)
Definition PRE_re : re := alts (map lit_re prefixes).
Definition UNI_re : re := alts (map lit_re units).
Definition POW_re : re :=
  seqs [Chr 94; Opt (Cls false [(43,43); (45,45)]); Cls false [(49,57)]; Star (Cls false [(48,57)])].
Definition SEP_re : re := Cls false [(42,42); (47,47)].

(* the regex is_compound applies today has exactly this shape (re-checked against the
   regenerated Gen/Units.v at every build): ((P?UK?)(\*|/))+P?UK?  applied through search *)
Lemma compound_shape :
  re_is_compound =
  Grp 0 (seqs [Plus (Grp 1 (seqs [Opt (Grp 2 PRE_re); Grp 3 UNI_re; Opt (Grp 4 POW_re); Grp 5 SEP_re]));
               Opt (Grp 6 PRE_re); Grp 7 UNI_re; Opt (Grp 8 POW_re)])
  /\ entry_is_compound = ESearch.
Proof. split; reflexivity. Qed.

Definition table_atom (t : str * str * str) : Prop :=
  let '(p, u, k) := t in In p opt_prefixes /\ In u units /\ In k powers.
Definition atom_str (t : str * str * str) : str := let '(p, u, k) := t in p ++ u ++ k.
Fixpoint compound_string (first : str * str * str) (rest : list (N * (str * str * str))) : str :=
  match rest with
  | [] => atom_str first
  | (sep, t) :: rest' => atom_str first ++ sep :: compound_string t rest'
  end.

Definition tables_nonempty : bool := forallb nonempty prefixes && forallb nonempty units.
Lemma tables_nonempty_true : tables_nonempty = true.
Proof. vm_compute. reflexivity. Qed.
Lemma nonempty_ne s : nonempty s = true -> s <> [].
Proof. destruct s; [discriminate | discriminate]. Qed.
Lemma prefix_ne p : In p prefixes -> p <> [].
Proof.
  intros H. pose proof tables_nonempty_true as T. apply andb_prop in T. destruct T as [T _].
  rewrite forallb_forall in T. apply nonempty_ne. apply T. exact H.
Qed.
Lemma unit_ne u : In u units -> u <> [].
Proof.
  intros H. pose proof tables_nonempty_true as T. apply andb_prop in T. destruct T as [_ T].
  rewrite forallb_forall in T. apply nonempty_ne. apply T. exact H.
Qed.

Lemma mt_opt_pre g p rest b : In p opt_prefixes -> exists b',
  mt (Opt (Grp g PRE_re)) (p ++ rest) b rest b'.
Proof.
  intros [<-|Hin].
  - exists b. cbn. apply mt_opt_none.
  - exists false. apply mt_opt_some. apply mt_grp. unfold PRE_re.
    apply mt_alts_in with (x := lit_re p); [apply in_map; exact Hin|].
    apply mt_lit_re. apply prefix_ne. exact Hin.
Qed.

Lemma mt_uni g u rest b : In u units -> mt (Grp g UNI_re) (u ++ rest) b rest false.
Proof.
  intros Hin. apply mt_grp. unfold UNI_re.
  apply mt_alts_in with (x := lit_re u); [apply in_map; exact Hin|].
  apply mt_lit_re. apply unit_ne. exact Hin.
Qed.

Lemma pow_unsigned d rest b : in_ranges d [(49,57)] = true ->
  mt POW_re (94 :: d :: rest) b rest false.
Proof.
  intros Hd. unfold POW_re.
  apply mt_seqs_cons with (s1 := d :: rest) (b1 := false); [constructor|].
  apply mt_seqs_cons with (s1 := d :: rest) (b1 := false); [apply mt_opt_none|].
  apply mt_seqs_cons with (s1 := rest) (b1 := false); [apply mt_cls; rewrite Hd; reflexivity|].
  cbn [seqs]. apply mt_star_nil.
Qed.

Lemma pow_signed d rest b : in_ranges d [(49,57)] = true ->
  mt POW_re (94 :: 45 :: d :: rest) b rest false.
Proof.
  intros Hd. unfold POW_re.
  apply mt_seqs_cons with (s1 := 45 :: d :: rest) (b1 := false); [constructor|].
  apply mt_seqs_cons with (s1 := d :: rest) (b1 := false);
    [apply mt_opt_some; constructor; reflexivity|].
  apply mt_seqs_cons with (s1 := rest) (b1 := false); [apply mt_cls; rewrite Hd; reflexivity|].
  cbn [seqs]. apply mt_star_nil.
Qed.

Lemma mt_opt_pow g k rest : In k powers -> mt (Opt (Grp g POW_re)) (k ++ rest) false rest false.
Proof.
  intros Hin. unfold powers in Hin. cbn [In] in Hin.
  destruct Hin as [<-|[<-|[<-|[<-|[<-|[<-|[<-|[]]]]]]]]; cbn [app];
    [ apply mt_opt_none | | | | | | ];
    apply mt_opt_some; apply mt_grp;
    first [ apply pow_unsigned; reflexivity | apply pow_signed; reflexivity ].
Qed.

Definition ATOM_SEP : re := Grp 1 (seqs [Opt (Grp 2 PRE_re); Grp 3 UNI_re; Opt (Grp 4 POW_re); Grp 5 SEP_re]).

Lemma mt_atom_sep t sep rest b : table_atom t -> (sep = 42 \/ sep = 47) ->
  mt ATOM_SEP (atom_str t ++ sep :: rest) b rest false.
Proof.
  destruct t as [[p u] k]. intros [Hp [Hu Hk]] Hsep. cbn [atom_str].
  rewrite <- !app_assoc.
  destruct (mt_opt_pre 2 p (u ++ k ++ sep :: rest) b Hp) as [b1 H1].
  apply mt_grp.
  eapply mt_seqs_cons; [exact H1|].
  eapply mt_seqs_cons; [apply mt_uni; exact Hu|].
  eapply mt_seqs_cons; [apply mt_opt_pow; exact Hk|].
  cbn. apply mt_grp. constructor. destruct Hsep as [->| ->]; reflexivity.
Qed.

Lemma mt_last_atom t rest b : table_atom t -> exists r',
  r' = seqs [Opt (Grp 6 PRE_re); Grp 7 UNI_re; Opt (Grp 8 POW_re)] /\
  mt r' (atom_str t ++ rest) b rest false.
Proof.
  destruct t as [[p u] k]. intros [Hp [Hu Hk]]. cbn [atom_str]. rewrite <- !app_assoc.
  destruct (mt_opt_pre 6 p (u ++ k ++ rest) b Hp) as [b1 H1].
  eexists. split; [reflexivity|].
  eapply mt_seqs_cons; [exact H1|].
  eapply mt_seqs_cons; [apply mt_uni; exact Hu|].
  cbn [seqs]. apply mt_opt_pow. exact Hk.
Qed.

Lemma atom_str_ne t : table_atom t -> atom_str t <> [].
Proof.
  destruct t as [[p u] k]. intros [_ [Hu _]]. cbn. intro E.
  apply app_eq_nil in E. destruct E as [_ E]. apply app_eq_nil in E. destruct E as [E _].
  exact (unit_ne _ Hu E).
Qed.

Definition LAST3 : list re := [Opt (Grp 6 PRE_re); Grp 7 UNI_re; Opt (Grp 8 POW_re)].

(* (ATOM SEP)* then the last atom, on  first sep1 t1 sep2 t2 ... *)
Lemma mt_star_then_last : forall rest first b,
  table_atom first ->
  (forall x, In x rest -> (fst x = 42 \/ fst x = 47) /\ table_atom (snd x)) ->
  exists mid bm,
    mt (Star ATOM_SEP) (compound_string first rest) b mid bm /\
    mt (seqs LAST3) mid bm [] false.
Proof.
  induction rest as [|[sep t] rest IH]; intros first b Hf Hall.
  - exists (compound_string first []), b. split; [apply mt_star_nil|].
    cbn [compound_string]. destruct (mt_last_atom first [] b Hf) as [r' [-> H]].
    rewrite app_nil_r in H. exact H.
  - destruct (Hall (sep, t) (or_introl eq_refl)) as [Hsep Ht]. cbn [fst snd] in *.
    destruct (IH t false Ht) as [mid [bm [H1 H2]]].
    { intros x Hx. apply Hall. right. exact Hx. }
    exists mid, bm. split; [|exact H2].
    cbn [compound_string].
    eapply mt_star_cons; [apply mt_atom_sep; assumption | | exact H1].
    rewrite app_length. cbn [length]. lia.
Qed.

Lemma compound_recognised (first : str * str * str) (rest : list (N * (str * str * str))) :
  table_atom first -> rest <> [] ->
  (forall x, In x rest -> (fst x = 42 \/ fst x = 47) /\ table_atom (snd x)) ->
  is_compound (compound_string first rest) = true /\ is_si (compound_string first rest) = true.
Proof.
  intros Hf Hne Hall.
  assert (Hc : is_compound (compound_string first rest) = true).
  { destruct rest as [|[sep t] rest]; [congruence|].
    destruct (Hall (sep, t) (or_introl eq_refl)) as [Hsep Ht]. cbn [fst snd] in *.
    destruct (mt_star_then_last rest t false Ht) as [mid [bm [H1 H2]]].
    { intros x Hx. apply Hall. right. exact Hx. }
    unfold is_compound. destruct compound_shape as [Shape Entry]. rewrite Shape, Entry.
    assert (N : nonempty (compound_string first ((sep, t) :: rest)) = true).
    { cbn [compound_string]. pose proof (atom_str_ne _ Hf) as A.
      destruct (atom_str first); [congruence | reflexivity]. }
    rewrite N. cbn [andb run_entry]. unfold re_search.
    set (S := compound_string first ((sep, t) :: rest)).
    assert (D : mt (Grp 0 (seqs (Plus ATOM_SEP :: LAST3))) S true [] false).
    { apply mt_grp. eapply mt_seqs_cons; [|exact H2].
      unfold Plus. econstructor; [|exact H1].
      unfold S. cbn [compound_string]. apply mt_atom_sep; assumption. }
    pose proof (m_complete _ _ _ _ _ D caps [] k_any) as C.
    destruct C as [v Hv]; [intros cs'; exists cs'; reflexivity|].
    destruct (length S); cbn [search_from]; unfold ATOM_SEP, LAST3 in Hv; rewrite Hv; reflexivity. }
  split; [exact Hc|]. unfold is_si. rewrite Hc. rewrite orb_true_r.
  unfold is_compound in Hc. apply andb_prop in Hc. destruct Hc as [-> _]. reflexivity.
Qed.

(* non-vacuity: "mV/s^2*kHz" *)
Example compound_example :
  let first := ([109], [86], []) in
  let rest := [(47, ([], [115], [94;50])); (42, ([107], [72;122], []))] in
  table_atom first /\ (forall x, In x rest -> (fst x = 42 \/ fst x = 47) /\ table_atom (snd x)) /\
  compound_string first rest = [109;86;47;115;94;50;42;107;72;122] /\
  is_compound (compound_string first rest) = true.
Proof.
  cbv zeta. split; [|split; [|split]].
  - vm_compute. intuition.
  - intros x [<-|[<-|[]]]; vm_compute; intuition.
  - reflexivity.
  - vm_compute. reflexivity.
Qed.
