"""recheck_hist.py <json with 'history'> : replay a history on the implementation and compare every step with the model."""
import json
import os
import sys
import types

sys.path.insert(0, os.path.dirname(os.path.abspath(__file__)))
import core  # noqa: E402
import nixcases  # noqa: E402

d = json.load(open(sys.argv[1]))
hist = d["history"] if "history" in d else d["input"]["history"]
ctx = core.Ctx("DBG", "quick", 0)
os.makedirs(ctx.workdir, exist_ok=True)
r = ctx.run_impl("nixrun.py", {"replay": [hist], "times": len(sys.argv) > 2})[0]
bad, errs = nixcases.check_histories(ctx, [r], len(sys.argv) > 2, tag="dbg")
print("disagreements:", bad, errs)
