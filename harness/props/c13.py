"""C13 -- tree searches, parents and 'referring' lists reflect the stored structure."""
import os
import sys

sys.path.insert(0, os.path.dirname(os.path.dirname(os.path.abspath(__file__))))
import storeprop  # noqa: E402

ID = "C13"
THEOREMS = ["c13_find_from_entity", "c13_find_from_container", "c13_no_limit", "c13_queue_is_level_order",
            "c13_larger_limit_extends", "c13_limit_zero_entity", "c13_result_bounded"]
PRELUDES = [
    [["create", 0, "CSections", "a", "t", []], ["create", 1, "CSections", "b", "t", []], ["create", 2, "CSections", "a", "t", []],
     ["create", 0, "CSections", "b", "t", []], ["create", 4, "CSections", "a", "t", []], ["create", 5, "CSections", "b", "t", []],
     ["lookup", 4, "CSections", ["name", "a"]], ["lookup", 1, "CSections", ["pos", 0]],
     ["find", 0, 1, ["all"]], ["find", 0, 2, ["all"]], ["find", 0, 3, ["all"]], ["find", 1, 1, ["all"]], ["find", 1, 2, ["name", "a"]],
     ["find", 0, None, ["all"]]],
    [["create", 0, "CBlocks", "B", "t", []], ["create", 1, "CSources", "a", "t", []], ["create", 2, "CSources", "b", "t", []],
     ["create", 3, "CSources", "a", "t", []], ["create", 1, "CSources", "b", "t", []], ["create", 5, "CSources", "a", "t", []],
     ["create", 1, "CDataArrays", "d", "t", [1]], ["append", 7, "LSources", 4], ["append", 7, "LSources", 2],
     ["create", 0, "CSections", "m", "t", []], ["set_link", 4, "RMetadata", 8], ["set_link", 7, "RMetadata", 8],
     ["set_link", 6, "RMetadata", 8], ["set_link", 5, "RMetadata", 8],
     ["referring", 8, "CSources"], ["referring", 8, "CDataArrays"], ["referring", 8, "CBlocks"],
     ["find", 1, 1, ["all"]], ["find", 1, 2, ["all"]], ["find", 1, 3, ["all"]], ["find", 2, 1, ["all"]], ["find", 2, 2, ["all"]],
     ["find", 1, 2, ["name", "a"]], ["find", 1, None, ["all"]],
     ["set_link", 4, "RMetadata", None], ["referring", 8, "CSources"], ["reopen", False],
     ["lookup", 0, "CSections", ["name", "m"]], ["referring", 1, "CSources"]],
    # two sources of one NAME in different subtrees; an array, a tag and a multi-tag list only the first: the namesake
    # has no referring entities
    [["create", 0, "CBlocks", "B", "t", []], ["create", 1, "CSources", "subject A", "t", []], ["create", 1, "CSources", "subject B", "t", []],
     ["create", 2, "CSources", "electrode", "t", []], ["create", 3, "CSources", "electrode", "t", []],
     ["create", 1, "CDataArrays", "a", "t", [1]], ["create", 1, "CTags", "t", "t", [1]], ["create_mtag", 1, "m", "t", 6],
     ["append", 6, "LSources", 4], ["append", 7, "LSources", 4], ["append", 8, "LSources", 4],
     ["referring", 5, "CDataArrays"], ["referring", 5, "CTags"], ["referring", 5, "CMultiTags"],
     ["referring", 4, "CDataArrays"], ["referring", 4, "CTags"], ["referring", 4, "CMultiTags"]],
    # one section WITHOUT properties as the metadata of an entity of every kind; the referring lists asked while it is
    # empty and again after it got a property
    [["create", 0, "CBlocks", "B", "t", []], ["create", 0, "CSections", "s", "t", []], ["create", 1, "CGroups", "g", "t", []],
     ["create", 1, "CTags", "t", "t", [1]], ["create", 1, "CDataArrays", "a", "t", [1]], ["create_mtag", 1, "m", "t", 5],
     ["create", 1, "CSources", "src", "t", []], ["set_link", 1, "RMetadata", 2], ["set_link", 3, "RMetadata", 2],
     ["set_link", 4, "RMetadata", 2], ["set_link", 5, "RMetadata", 2], ["set_link", 6, "RMetadata", 2], ["set_link", 7, "RMetadata", 2],
     ["referring", 2, "CBlocks"], ["referring", 2, "CGroups"], ["referring", 2, "CDataArrays"], ["referring", 2, "CTags"],
     ["referring", 2, "CMultiTags"], ["referring", 2, "CSources"], ["create", 2, "CProperties", "p", "t", [1]],
     ["referring", 2, "CGroups"], ["referring", 2, "CTags"]],
    # nested sources reached through the source lists of an array, a tag and a multi-tag; parents asked on those objects,
    # before and after a reopen
    [["create", 0, "CBlocks", "B", "t", []], ["create", 1, "CSources", "a", "t", []], ["create", 2, "CSources", "b", "t", []],
     ["create", 3, "CSources", "c", "t", []], ["create", 1, "CDataArrays", "d", "t", [1]], ["create", 1, "CTags", "g", "t", [1]],
     ["create_mtag", 1, "m", "t", 5],
     ["append", 5, "LSources", 3], ["append", 5, "LSources", 4], ["append", 6, "LSources", 4], ["append", 6, "LSources", 2],
     ["append", 7, "LSources", 3], ["append", 7, "LSources", 2],
     ["lookup_link", 5, "LSources", ["pos", 0]], ["lookup_link", 5, "LSources", ["name", "c"]],
     ["lookup_link", 6, "LSources", ["pos", 0]], ["lookup_link", 6, "LSources", ["pos", 1]],
     ["lookup_link", 7, "LSources", ["pos", 0]], ["lookup_link", 7, "LSources", ["name", "a"]],
     ["parent", 8, "PParent"], ["parent", 9, "PParent"], ["parent", 10, "PParent"], ["parent", 11, "PParent"],
     ["parent", 12, "PParent"], ["parent", 13, "PParent"], ["parent", 9, "PBlock"], ["parent", 12, "PBlock"],
     ["reopen", False],
     ["lookup", 0, "CBlocks", ["name", "B"]], ["lookup", 1, "CDataArrays", ["name", "d"]], ["lookup", 1, "CMultiTags", ["name", "m"]],
     ["lookup_link", 2, "LSources", ["pos", 1]], ["lookup_link", 3, "LSources", ["pos", 0]],
     ["parent", 4, "PParent"], ["parent", 5, "PParent"], ["parent", 5, "PBlock"]],
    # a bushy source tree: sibling subtrees of different depth under one top-level source and a second top-level source;
    # the parent of EVERY source asked (a search for the parent that gives up on the later siblings answers None)
    [["create", 0, "CBlocks", "B", "t", []], ["create", 1, "CSources", "top", "t", []], ["create", 2, "CSources", "a", "t", []],
     ["create", 3, "CSources", "a1", "t", []], ["create", 4, "CSources", "a2", "t", []], ["create", 2, "CSources", "b", "t", []],
     ["create", 6, "CSources", "b1", "t", []], ["create", 7, "CSources", "b2", "t", []], ["create", 2, "CSources", "c", "t", []],
     ["create", 1, "CSources", "top2", "t", []], ["create", 10, "CSources", "x", "t", []], ["create", 11, "CSources", "y", "t", []],
     ["create", 3, "CSources", "a3", "t", []], ["create", 9, "CSources", "c1", "t", []]] +
    [["parent", h, "PParent"] for h in range(2, 15)] + [["parent", 8, "PBlock"], ["parent", 14, "PBlock"]],
]
PROFILE = {"small_names": True, "preludes": PRELUDES, "prelude_prob": 0.5,
           "weights": {"create": 12, "find": 8, "parent": 7, "referring": 6, "set_link": 5, "append": 5, "lookup": 4,
                       "delete": 1.5, "remove": 1, "reopen": 0.8, "mtag": 1, "feature": 0.5, "set_attr": 1, "bad": 0.2,
                       "lookup_link": 3, "probe": 0, "probe_link": 0}}
RULE = ("section and source trees with a four-name pool (so names repeat across subtrees and levels), built through nested "
        "creates; find_sections/find_sources from File, Block, Section and Source roots with limits None, -1, 0..5 and filters "
        "(all / by name / by type); parent, parent_source, parent_block on handles obtained at creation, by lookup, through the "
        "source lists of arrays, tags and multi-tags, and after reopen; referring_* of sections (metadata links from blocks, groups, arrays, tags, multi-tags, sources incl. nested) "
        "and of sources. Each answer is compared with the model AND with a model-free oracle computed by plain recursion over "
        "the containers of fresh objects.")


def predicate(h):
    out = []
    for i, (op, res) in enumerate(zip(h["ops"], h["results"])):
        if op[0] in ("find", "parent", "referring") and res[0] == "toks" and len(res) > 2 and res[2] not in ("n/a", None):
            # the property fixes the ORDER of search results (breadth first); a referring list is a set ("exactly the
            # inverse of the links"): its order is pinned by the model only
            same = (sorted(map(str, res[1])) == sorted(map(str, res[2]))) if op[0] == "referring" else (list(res[1]) == list(res[2]))
            if not same:
                out.append(("%s does not reflect the stored structure" % op[0], i,
                            {"op": op, "returned": len(res[1]), "expected": len(res[2]),
                             "same_set": sorted(map(str, res[1])) == sorted(map(str, res[2]))}))
    return out


def limit0(v, h):
    op = h["ops"][v[1]]
    return op[0] == "find" and op[2] is not None and op[2] <= 0


def run(ctx):
    return storeprop.run(ctx, ID, THEOREMS, "Props/C13.v", PROFILE, (30, 45), 100, 800, predicate, RULE,
                         known_matchers={"find_limit0": limit0})


def replay(ctx):
    return storeprop.replay(ctx, ID, predicate, known_matchers={"find_limit0": limit0})
