(* Props/C19.v -- timestamps: creation time is fixed, update time follows attribute changes.
   ONLY property theorems.  Calendar: Pure/Calendar.v with the two format strings translated from
   nixio/util/util.py.  Operations: the API model Nix/Api.v, in which a setter performs the
   guarded update exactly when the table translated from the current source (Gen/Touch.v:
   every method whose body contains `if self.file.auto_update_timestamps: <set updated_at>`)
   lists it. *)
From NixV Require Import Base.Prelude H5.Store Gen.Touch Nix.Api Pure.Calendar
  Proofs.CalendarProofs Proofs.TimeProofs.
Open Scope Z_scope.

(* every whole second from 1970-01-01T00:00:00 to 2099-12-31T23:59:59 survives the text form *)
Theorem c19_roundtrip : forall t, 0 <= t < 4102444800 -> str_to_time (time_to_str t) = Some t.
Proof. exact time_roundtrip. Qed.
Print Assumptions c19_roundtrip.

(* every attribute the property lists has the guarded update in the current source *)
Theorem c19_table_complete : forallb (fun p => touches (fst p) (snd p)) required_touch = true.
Proof. exact table_complete. Qed.
Print Assumptions c19_table_complete.

(* forcing a time and reading it back *)
Theorem c19_force : forall ph created t s s' p,
  nth_error (hs s) (N.to_nat ph) = Some p -> (ha p < length (nodes (sto s)))%nat ->
  api_force ph created t s = (s', inl tt) ->
  get_attr (sto s') (ha p) (if created then k_created else k_updated) = Some (AInt t).
Proof. exact force_reads_back. Qed.
Print Assumptions c19_force.

(* no setter, link operation, deletion, lookup or reopen changes the creation time of any
   existing entity (whether it succeeds or fails) *)
Theorem c19_created_fixed : forall o now s, plain_op o = true ->
  forall a, (a < length (nodes (sto s)))%nat ->
  get_attr (sto (fst (exec o now s))) a k_created = get_attr (sto s) a k_created.
Proof. exact created_fixed. Qed.
Print Assumptions c19_created_fixed.

(* automatic timestamps disabled: those operations change no timestamp at all *)
Theorem c19_auto_off : forall o now s, auto s = false -> plain_op_off o = true ->
  forall a, (a < length (nodes (sto s)))%nat ->
  get_attr (sto (fst (exec o now s))) a k_updated = get_attr (sto s) a k_updated /\
  get_attr (sto (fst (exec o now s))) a k_created = get_attr (sto s) a k_created.
Proof. exact auto_off_nothing_moves. Qed.
Print Assumptions c19_auto_off.

(* automatic timestamps enabled: a successful setter of a listed attribute sets THAT entity's
   update time to the current time ... *)
Theorem c19_auto_on_self : forall ph a v now s s' p,
  nth_error (hs s) (N.to_nat ph) = Some p -> (ha p < length (nodes (sto s)))%nat ->
  auto s = true -> touches (fst (attr_entry a)) (snd (attr_entry a)) = true ->
  api_set_attr ph a v now s = (s', inl tt) ->
  get_attr (sto s') (ha p) k_updated = Some (AInt now).
Proof. exact set_attr_sets_update_time. Qed.
Print Assumptions c19_auto_on_self.

(* ... and no other entity's *)
Theorem c19_auto_on_others : forall ph a v now s p,
  nth_error (hs s) (N.to_nat ph) = Some p ->
  forall b, (b < length (nodes (sto s)))%nat -> b <> ha p ->
  get_attr (sto (fst (api_set_attr ph a v now s))) b k_updated = get_attr (sto s) b k_updated.
Proof. exact set_attr_touches_only_self. Qed.
Print Assumptions c19_auto_on_others.

(* non-vacuity (Proofs/NonVacuous.v; concrete reachable states, by vm_compute) *)
From NixV Require Proofs.NonVacuous.
(* a live handle on which force and an automatic-timestamp setter succeed *)
Example c19_hypotheses_met := NonVacuous.nv_force.
Check c19_hypotheses_met.
Print Assumptions c19_hypotheses_met.
