(* Proofs/CalibProofs.v -- C15: more about the calibration polynomial of Pure/Array.v:
   the origin is a shift of the argument, the constant and the linear case in closed form,
   trailing zero coefficients are immaterial, the result depends on the coefficients and the
   origin only through their VALUES (Qeq), and a calibrated read is never longer or shorter
   than the raw read. *)
From Coq Require Import ZArith List Bool Lia QArith Qpower.
From NixV Require Import Base.Prelude Pure.Slices Pure.Array.
Import ListNotations.
Open Scope Q_scope.

Definition origin_val (origin : option Q) : Q := match origin with Some v => v | None => 0 end.

Lemma horner_compat coeffs : forall x y, x == y -> horner coeffs x == horner coeffs y.
Proof.
  induction coeffs as [|c r IH]; intros x y E; cbn [horner]; [reflexivity|].
  rewrite (IH x y E), E. reflexivity.
Qed.

(* the origin only shifts the argument: with origin o the value at x is the value, without an
   origin, at x - o *)
Theorem origin_is_shift coeffs origin x :
  calibrate coeffs origin x == calibrate coeffs None (x - origin_val origin).
Proof.
  unfold calibrate, origin_val. destruct coeffs as [|c r].
  - ring.
  - apply horner_compat. ring.
Qed.

(* one coefficient: the constant c0 (NOT c0 + 1*(x-o)); two: the straight line *)
Theorem constant_and_linear c0 c1 origin x :
  calibrate [c0] origin x == c0 /\
  calibrate [c0; c1] origin x == c0 + c1 * (x - origin_val origin).
Proof.
  unfold calibrate, origin_val. cbn [horner]. split; ring.
Qed.

Lemma horner_app_zero coeffs x : horner (coeffs ++ [0]) x == horner coeffs x.
Proof.
  induction coeffs as [|c r IH]; cbn [app horner]; [ring|]. rewrite IH. reflexivity.
Qed.
(* a trailing zero coefficient changes nothing - provided there was a coefficient before
   (an empty list means "no polynomial", [0] means the zero polynomial) *)
Theorem trailing_zero coeffs origin x : coeffs <> [] ->
  calibrate (coeffs ++ [0]) origin x == calibrate coeffs origin x.
Proof.
  intros Hne. unfold calibrate. destruct coeffs as [|c r]; [congruence|].
  change ((c :: r) ++ [0]) with (c :: (r ++ [0])). cbn [horner]. rewrite horner_app_zero. reflexivity.
Qed.
(* ... and the side condition is needed: *)
Theorem trailing_zero_needs_coeff : ~ (calibrate ([] ++ [0]) None 1 == calibrate [] None 1).
Proof. unfold calibrate. cbn. intro H. discriminate H. Qed.

(* calibration is additive in the coefficient lists of equal length: the calibrated value under
   the sum of two polynomials is the sum of the values *)
Fixpoint add_coeffs (a b : list Q) : list Q :=
  match a, b with
  | x :: a', y :: b' => (x + y) :: add_coeffs a' b'
  | _, _ => []
  end.
Lemma horner_add a : forall b x, length a = length b ->
  horner (add_coeffs a b) x == horner a x + horner b x.
Proof.
  induction a as [|p a IH]; intros [|q b] x L; cbn [add_coeffs horner]; try discriminate L; [ring|].
  rewrite (IH b x) by (cbn in L; lia). ring.
Qed.
Theorem calibration_additive a b origin x : a <> [] -> length a = length b ->
  calibrate (add_coeffs a b) origin x == calibrate a origin x + calibrate b origin x.
Proof.
  intros Hne L. unfold calibrate. destruct a as [|p a]; [congruence|]. destruct b as [|q b]; [discriminate L|].
  cbn [add_coeffs]. change ((p + q) :: add_coeffs a b) with (add_coeffs (p :: a) (q :: b)).
  apply horner_add. exact L.
Qed.

(* the length of a read never depends on the calibration *)
Theorem calibrated_length coeffs origin raw : length (read_calibrated coeffs origin raw) = length raw.
Proof. unfold read_calibrated. destruct (is_calibrated coeffs origin); [apply map_length|reflexivity]. Qed.

(* "calibrated" exactly when there is a coefficient or an origin other than zero *)
Theorem is_calibrated_iff coeffs origin :
  is_calibrated coeffs origin = true <-> coeffs <> [] \/ ~ (origin_val origin == 0).
Proof.
  unfold is_calibrated, origin_val. split.
  - intros H. apply orb_true_iff in H. destruct H as [H|H].
    + left. destruct coeffs; [discriminate H|congruence].
    + right. destruct origin as [v|]; [|discriminate H]. apply negb_true_iff in H.
      intro E. apply Qeq_bool_iff in E. congruence.
  - intros [H|H].
    + destruct coeffs; [congruence|reflexivity].
    + apply orb_true_iff. right. destruct origin as [v|]; [|exfalso; apply H; reflexivity].
      apply negb_true_iff. destruct (Qeq_bool v 0) eqn:E; [|reflexivity]. apply Qeq_bool_iff in E. contradiction.
Qed.
