"""C03 -- names are unique per parent, ids are unique, and all lookups agree."""
import os
import sys

sys.path.insert(0, os.path.dirname(os.path.dirname(os.path.abspath(__file__))))
import storeprop  # noqa: E402
import core  # noqa: E402

ID = "C03"
THEOREMS = ["c03_dup_refused", "c03_fresh_id", "c03_by_position", "c03_position_out_of_range", "c03_by_name",
            "c03_by_id", "c03_appended_last", "c03_order_after_delete"]
# nested sources (children, grandchildren) in the source lists of an array, a tag and a group, then probes of those lists
PRELUDES = [
    # every container kind: create X, create X again (must be refused and leave the container as it was), probe
    [["create", 0, "CBlocks", "B", "t", []], ["create", 0, "CBlocks", "B", "t", []], ["create", 1, "CDataArrays", "x", "t", [1]],
     ["create", 1, "CDataArrays", "x", "t", [2]], ["create", 1, "CTags", "x", "t", [1]], ["create", 1, "CTags", "x", "t", [2]],
     ["create", 1, "CGroups", "x", "t", []], ["create", 1, "CGroups", "x", "t", []], ["create", 1, "CDataFrames", "x", "t", [1, 2]],
     ["create", 1, "CDataFrames", "x", "t", [3]], ["create", 1, "CSources", "x", "t", []], ["create", 1, "CSources", "x", "t", []],
     ["create_mtag", 1, "x", "t", 2], ["create_mtag", 1, "x", "t", 2], ["create", 0, "CSections", "x", "t", []],
     ["create", 0, "CSections", "x", "t", []], ["create", 8, "CProperties", "x", "t", [1]], ["create", 8, "CProperties", "x", "t", [2]],
     ["probe", 1, "CDataFrames"], ["probe", 1, "CDataArrays"], ["probe", 1, "CMultiTags"], ["probe", 8, "CProperties"], ["probe", 0, "CBlocks"]],
    [["create", 0, "CBlocks", "B", "t", []], ["create", 1, "CSources", "s", "t", []], ["create", 2, "CSources", "c", "t", []],
     ["create", 3, "CSources", "cc", "t", []], ["create", 1, "CDataArrays", "a", "t", [1]], ["create", 1, "CTags", "t", "t", [1]],
     ["create", 1, "CGroups", "g", "t", []], ["append", 5, "LSources", 3], ["append", 5, "LSources", 4], ["append", 5, "LSources", 2],
     ["append", 6, "LSources", 4], ["append", 7, "LSources", 3], ["probe_link", 5, "LSources"], ["probe_link", 6, "LSources"],
     ["probe_link", 7, "LSources"]],
    [["create", 0, "CBlocks", "B", "t", []], ["create", 1, "CDataArrays", "x", "t", [1]], ["create", 1, "CDataArrays", "y", "t", [2]],
     ["create", 1, "CTags", "x", "t", [1]], ["create", 1, "CGroups", "x", "t", []], ["append", 4, "LReferences", 2],
     ["append", 4, "LReferences", 3], ["append", 5, "LDataArrays", 3], ["append", 5, "LTags", 4], ["probe_link", 4, "LReferences"],
     ["probe_link", 5, "LDataArrays"], ["probe_link", 5, "LTags"]],
]
PROFILE = {"preludes": PRELUDES, "prelude_prob": 0.3, "uuid_names": True,
           "weights": {"create": 12, "probe": 8, "probe_link": 4, "delete": 4, "append": 5, "remove": 2, "bad": 2,
                       "reopen": 0.8, "set_attr": 1, "set_link": 1, "lookup": 2}}
RULE = ("create/delete histories in every container kind (blocks, arrays, tags, multi-tags, groups, nested sources, nested "
        "sections, properties, link lists) with an adversarial name pool (names that sort against creation order, non-ASCII, 40 "
        "characters, names equal to container names, a name of 32 hex digits), duplicates injected; after random steps a probe "
        "reads len, iteration, c[i] for every i in [-len-1, len], and c[name], c[id], name in c, id in c for every member.")


def check_probe(toks):
    """the six access paths must describe one sequence"""
    n = toks[0]
    ids = toks[1:1 + n]
    pos = 1 + n
    for z in range(-n - 1, n + 1):
        r = toks[pos:pos + 2]
        pos += 2
        if -n <= z < n:
            if r != [1, ids[z % n] if n else None]:
                return "c[%d] = %r, expected member %r" % (z, r, ids[z % n])
        elif r != [2, 4]:
            return "c[%d] = %r, expected IndexError" % (z, r)
    for k in range(n):
        if toks[pos] is None:
            pos += 1
            continue
        byname, byid, name_in, id_in = toks[pos:pos + 2], toks[pos + 2:pos + 4], toks[pos + 4], toks[pos + 5]
        pos += 6
        if byname != [1, ids[k]]:
            return "c[name of member %d] = %r, expected that member" % (k, byname)
        if byid != [1, ids[k]]:
            return "c[id of member %d] = %r, expected that member" % (k, byid)
        if name_in != 1 or id_in != 1:
            return "membership test of member %d: name in c = %r, id in c = %r" % (k, name_in, id_in)
    if len(set(ids)) != len(ids):
        return "two members with the same id"
    return None


def predicate(h):
    out = []
    for i, (op, res) in enumerate(zip(h["ops"], h["results"])):
        if res[0] == "toks":
            msg = check_probe(res[1])
            if msg:
                out.append(("access paths of a container disagree", i, {"op": op, "what": msg}))
        info = h["infos"][i]
        if info["dup_ids"]:
            out.append(("two entities carry the same id", i, {"ids": info["dup_ids"][:3]}))
        if info["bad_ids"]:
            out.append(("an id is not a well-formed UUID", i, {"ids": info["bad_ids"][:3]}))
        # every legal name (non-empty, no slash, not the single dot) is accepted: a refusal "invalid name/type" of a
        # create whose name and type are legal violates the property whatever the model says
        if op[0] == "create" and res[0] == "err" and res[1] == 2:
            name, typ = op[3], op[4]
            if isinstance(name, str) and name not in ("", ".") and "/" not in name and isinstance(typ, str) and typ:
                out.append(("a legal name was refused as invalid", i, {"op": op, "message": res[2] if len(res) > 2 else None}))
        # a duplicate name must be refused: the generator's `bad` duplicates show as errors; an accepted
        # create under an existing name would show up as a changed id of the existing member (probe) or
        # as a disagreement with the model
    return out


def run(ctx):
    st = storeprop.run(ctx, ID, THEOREMS, "Props/C03.v", PROFILE, (26, 40), 100, 800, predicate, RULE)
    # ids SUPPLIED by the caller (oid=): ids are numbers in the model, which cannot express an ill-formed id text -
    # implementation only: 13 texts x the 3 calls that take an oid
    recs = ctx.run_impl("impl_oids.py", {})
    kf = {e.get("match"): e for e in core.load_known(ID)}

    def dup_known(r):
        # known finding: a supplied id that is already in use is taken over as it is (two entities, one id)
        return ("supplied_duplicate_id" in kf and r["oid"] == "an id another entity of the file already has"
                and all(p == "the new entity's id equals another id of the file" for p in r["problems"]))
    hits = [r for r in recs if r["problems"] and dup_known(r)]
    if hits:
        ctx.known_hits.append("%s (%d of the 3 calls that take an oid in this run)" % (kf["supplied_duplicate_id"]["what"], len(hits)))
    bad = [r for r in recs if r["problems"] and not dup_known(r)]
    ctx.coverage["supplied_ids"] = len(recs)
    ctx.coverage["supplied_id_failures"] = len(bad)
    ctx.coverage["evaluations"] += len(recs)
    ctx.coverage["rule"] += (" Plus, implementation only: sections and properties created with a caller-supplied id (a canonical "
                             "UUID; a UUID with a newline / blank / tab / further digits around it, one digit short, with a non-hex "
                             "digit; empty; a word; a number; None): the resulting id is a well-formed UUID, differs from the "
                             "other ids, is the key the container finds the entity under, and is the same after reopening.")
    if bad and not ctx.violations:
        rp = ctx.write_replay("%s-oids-seed%d.json" % (ID, ctx.seed), {
            "property": ID, "kind": bad[0]["problems"][0], "input": {"call": bad[0]["call"], "oid": bad[0]["oid"]},
            "observed": bad[0]["problems"], "count": len(bad)})
        ctx.violation("%d creations with a supplied id violate C03, e.g. %s(oid=%s): %s" % (
            len(bad), bad[0]["call"], bad[0]["oid"], bad[0]["problems"][0]), rp)
    return st


def replay(ctx):
    return storeprop.replay(ctx, ID, predicate)
