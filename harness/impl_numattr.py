"""C02 'last write wins' for the numeric attributes (implementation only): every numeric attribute setter of the public
API is driven through sequences of values of changing Python type (int, float, numpy scalars); after every assignment the
value is read back through a FRESH object, and after closing and reopening the last value must still be there."""
import json
import os
import random
import sys

import numpy as np
import nixio


def build(f):
    b = f.create_block("b", "t")
    da = b.create_data_array("da", "t", data=np.arange(6.0))
    da.append_sampled_dimension(1)
    s = f.create_section("s", "t")
    s.create_property("p", [1.0, 2.0])
    return b


def targets(f):
    b = f.blocks["b"]
    return {
        "SampledDimension.sampling_interval": (lambda: b.data_arrays["da"].dimensions[0], "sampling_interval", True),
        "SampledDimension.offset": (lambda: b.data_arrays["da"].dimensions[0], "offset", False),
        "DataArray.expansion_origin": (lambda: b.data_arrays["da"], "expansion_origin", False),
        "Property.uncertainty": (lambda: f.sections["s"].props["p"], "uncertainty", False),
    }


def main():
    req = json.load(sys.stdin)
    rnd = random.Random(req["seed"])
    path = os.path.join(os.getcwd(), "na.nix")
    out = []
    for trial in range(req["n"]):
        f = nixio.File.open(path, nixio.FileMode.Overwrite)
        build(f)
        last = {}
        for _ in range(req["len"]):
            tg = targets(f)
            name = rnd.choice(sorted(tg))
            get, attr, positive = tg[name]
            kind = rnd.choice(["int", "float", "npint", "npfloat", "float"])
            mag = rnd.choice([1, 2, 3, 5, 7, 100])
            if kind == "int":
                v = mag
            elif kind == "npint":
                v = np.int64(mag)
            elif kind == "npfloat":
                v = np.float64(mag + rnd.choice([0.0, 0.25, 0.5]))
            else:
                v = mag + rnd.choice([0.0, 0.25, 0.5, 0.125])
            if not positive and rnd.random() < 0.3:
                v = -v
            rec = {"attribute": name, "assigned": repr(v), "value": float(v)}
            try:
                setattr(get(), attr, v)
                got = getattr(get(), attr)
                rec["read"] = None if got is None else float(got)
                last[name] = float(v)
            except Exception as exc:
                rec["error"] = type(exc).__name__ + ": " + str(exc)[:80]
            out.append(rec)
        f.close()
        f = nixio.File.open(path, nixio.FileMode.ReadOnly)
        tg = targets(f)
        for name, v in sorted(last.items()):
            get, attr, _ = tg[name]
            got = getattr(get(), attr)
            out.append({"attribute": name, "assigned": "(reopen)", "value": v, "read": None if got is None else float(got), "after_reopen": True})
        f.close()
    os.remove(path)
    json.dump(out, sys.stdout)


main()
