(* Pure/Durable.v -- what survives a process kill (C17).
   The session has a live content (what the API shows) and the file on disk.  Between flushes the
   library is free to write any part of its caches, so the content a kill would leave is
   UNSPECIFIED (None) as soon as one write has happened; H5Fflush (global scope) and H5Fclose make
   it the live content.  File.flush() / File.close() are the call sequences regenerated from
   nixio/file.py (Gen/FileConsts.v). *)
From NixV Require Import Base.Prelude Gen.FileConsts.

Section Durable.
  Variable content : Type.

  Record dstate := mkD { live : content; disk : option content; is_open : bool }.

  Definition h5_call (c : fcall) (s : dstate) : dstate :=
    match c with
    | CH5Flush => if is_open s then mkD (live s) (Some (live s)) true else s
    | CH5Close => if is_open s then mkD (live s) (Some (live s)) false else s
    | CNoFileEffect => s
    end.
  Definition run_body (body : list fcall) (s : dstate) : dstate := fold_left (fun s c => h5_call c s) body s.

  Inductive dop :=
  | DWrite (f : content -> content)       (* an API call that changes the content *)
  | DRead                                  (* an API call that does not *)
  | DFlush                                 (* File.flush() *)
  | DClose.                                (* File.close() *)

  Definition dstep (s : dstate) (o : dop) : dstate :=
    match o with
    | DWrite f => if is_open s then mkD (f (live s)) None true else s
    | DRead => s
    | DFlush => run_body file_flush_body s
    | DClose => run_body file_close_body s
    end.
  Definition drun (ops : list dop) (s : dstate) : dstate := fold_left dstep ops s.

  (* SIGKILL: what a later File.open finds *)
  Definition after_kill (s : dstate) : option content := disk s.

  Definition is_write (o : dop) : bool := match o with DWrite _ => true | _ => false end.
End Durable.
