"""C04 (implementation only): entities that are merely NAMED like the id of a deleted entity are not touched by the
deletion.  For every kind of victim and every way of addressing it (name, id, position, object), namesakes of its id - a
section, a data array in another block, a source, a group, a property - are created first; after the deletion each of them
must still be there, unchanged (its walk), and the victim must be gone."""
import json
import os
import sys

import numpy as np
import nixio

sys.path.insert(0, os.path.dirname(os.path.abspath(__file__)))
import nixwalk  # noqa: E402


def build(f):
    b = f.create_block("b", "t")
    b2 = f.create_block("b2", "t")
    a = b.create_data_array("a", "t", data=np.arange(3.0))
    a2 = b.create_data_array("a2", "t", data=np.arange(3.0))
    t = b.create_tag("t", "t", [1.0])
    t.references.append(a)
    mt = b.create_multi_tag("mt", "t", a2)
    g = b.create_group("g", "t")
    g.data_arrays.append(a)
    src = b.create_source("src", "t")
    kid = src.create_source("kid", "t")
    a.sources.append(kid)
    s = f.create_section("s", "t")
    sub = s.create_section("sub", "t")
    pr = s.create_property("pr", [1, 2])
    df = b.create_data_frame("df", "t", col_dict={"x": int}, data=[(1,)])
    a.metadata = s
    return {"array": (b.data_arrays, a), "tag": (b.tags, t), "multi_tag": (b.multi_tags, mt), "group": (b.groups, g),
            "source": (b.sources, src), "nested source": (src.sources, kid), "section": (f.sections, s),
            "nested section": (s.sections, sub), "property": (s.props, pr), "data frame": (b.data_frames, df), "block": (f.blocks, b2)}, b, b2, s


def namesakes(f, b, b2, s, ident):
    """entities of several kinds, all named like `ident`, placed where the victim is not"""
    made = []
    other = f.create_block("other", "t")
    made.append(("data array in another block", other.data_arrays, other.create_data_array(ident, "t", data=np.arange(2.0))))
    made.append(("group in another block", other.groups, other.create_group(ident, "t")))
    made.append(("source in another block", other.sources, other.create_source(ident, "t")))
    top = f.create_section("holder", "t")
    made.append(("section", top.sections, top.create_section(ident, "t")))
    made.append(("property", top.props, top.create_property(ident, [7])))
    return made


def walk_of(kind_label, o):
    w = nixwalk.Walker(False, set())
    fn = {"data array in another block": w.data_array, "group in another block": w.group, "source in another block": w.source,
          "section": w.section, "property": w.prop}[kind_label]
    return fn(o)


def main():
    json.load(sys.stdin)
    path = os.path.join(os.getcwd(), "idn.nix")
    out = []
    kinds = None
    k = 0
    while True:
        f = nixio.File.open(path, nixio.FileMode.Overwrite)
        victims, b, b2, s = build(f)
        names = sorted(victims)
        if kinds is None:
            kinds = [(n, how) for n in names for how in ("name", "id", "position", "object")]
        if k >= len(kinds):
            f.close()
            break
        vkind, how = kinds[k]
        k += 1
        cont, v = victims[vkind]
        vid, vname = v.id, v.name
        rec = {"victim": vkind, "addressed_by": how, "problems": []}
        try:
            made = namesakes(f, b, b2, s, vid)
        except Exception as exc:
            rec["problems"].append("could not create the namesakes: %s" % type(exc).__name__)
            out.append(rec)
            f.close()
            continue
        before = [(lab, c, o.id, walk_of(lab, o)) for lab, c, o in made]
        try:
            if how == "name":
                del cont[vname]
            elif how == "id":
                del cont[vid]
            elif how == "position":
                pos = [x.id for x in cont].index(vid)
                del cont[pos]
            else:
                del cont[v]
        except Exception as exc:
            rec["problems"].append("the deletion was refused: %s: %s" % (type(exc).__name__, str(exc)[:60]))
        if vid in [x.id for x in cont]:
            rec["problems"].append("the victim is still in its container")
        for lab, c, oid, w0 in before:
            now = [x for x in c if x.id == oid]
            if not now:
                rec["problems"].append("a %s that is merely NAMED like the victim's id vanished" % lab)
            elif walk_of(lab, now[0]) != w0:
                rec["problems"].append("a %s named like the victim's id changed" % lab)
        out.append(rec)
        f.close()
    os.remove(path)
    json.dump(out, sys.stdout)


main()
