(* Props/C04.v -- deleting an entity removes it, what it owns and every link to it - nothing
   else.  ONLY property theorems, over the object graph of H5/Store.v: `delete_all s ids` is what
   `del container[x]` does (c04_delete_is_delete_all), for ANY store and ANY victim list. *)
From NixV Require Import Base.Prelude H5.Store Nix.Api Proofs.StoreLemmas Proofs.DeleteProofs
  Proofs.AtomicProofs Proofs.AtomicProofs2.
Open Scope N_scope.

Theorem c04_delete_is_delete_all : forall ph c k s s',
  api_delete ph c k s = (s', inl tt) ->
  exists victims, sto s' = delete_all (sto s) victims /\ hs s' = hs s /\ ro s = false.
Proof. exact api_delete_spec. Qed.
Print Assumptions c04_delete_is_delete_all.

(* no list or link anywhere still yields a deleted entity *)
Theorem c04_no_dangling : forall s ids a k b,
  In (k, b) (links (node_at (delete_all s ids) a)) -> id_in (delete_all s ids) b ids = false.
Proof. exact no_dangling. Qed.
Print Assumptions c04_no_dangling.

(* from the root (or any surviving entity) no victim can be reached any more *)
Theorem c04_victims_unreachable : forall s ids r c,
  reach (delete_all s ids) r c -> id_in s r ids = false -> id_in s c ids = false.
Proof. exact victims_unreachable. Qed.
Print Assumptions c04_victims_unreachable.

(* everything else keeps its state: attributes of every node, every link that does not point
   at a victim, in the same order; a node without links to victims is bit-for-bit the same *)
Theorem c04_attrs_kept : forall s ids a, attrs (node_at (delete_all s ids) a) = attrs (node_at s a).
Proof. exact attrs_delete_all. Qed.
Print Assumptions c04_attrs_kept.
Theorem c04_links_kept_in_order : forall s ids a,
  links (node_at (delete_all s ids) a) =
  filter (fun p => negb (id_in s (snd p) ids)) (links (node_at s a)).
Proof. exact links_delete_all. Qed.
Print Assumptions c04_links_kept_in_order.
Theorem c04_untouched_node : forall s ids a,
  (forall k b, In (k, b) (links (node_at s a)) -> id_in s b ids = false) ->
  node_at (delete_all s ids) a = node_at s a.
Proof. exact untouched_node. Qed.
Print Assumptions c04_untouched_node.
(* what was reachable without passing through a victim stays reachable; nothing new appears *)
Theorem c04_reach_kept : forall s ids a c, reach_avoid s ids a c -> reach (delete_all s ids) a c.
Proof. exact reach_kept. Qed.
Print Assumptions c04_reach_kept.
Theorem c04_nothing_new : forall s ids a c, reach (delete_all s ids) a c -> reach s a c.
Proof. exact reach_mono. Qed.
Print Assumptions c04_nothing_new.

(* whatever key a container is addressed with - position, name, id, for features also the id or name of the
   feature's data - the entity it resolves to (and del container[key] then removes) is a MEMBER of that container *)
From NixV Require Import Proofs.MemberProofs.
Theorem c04_key_resolves_to_member : forall s c ca k hsl k' a,
  container_get_c s c ca k hsl = inl (k', a) -> exists k2, In (k2, a) (cont_links s ca).
Proof. exact container_get_c_member. Qed.
Print Assumptions c04_key_resolves_to_member.

(* non-vacuity (Proofs/NonVacuous.v; concrete reachable states, by vm_compute) *)
From NixV Require Proofs.NonVacuous.
(* in that state the delete of the array (member of a group, referenced by a tag) succeeds and shortens the walk of the block *)
Example c04_hypotheses_met := NonVacuous.nv_delete.
Check c04_hypotheses_met.
Print Assumptions c04_hypotheses_met.
