(* Props/C02.v -- closing and reopening a file reproduces the complete observable state; that
   state is determined by the calls made (last write wins).  ONLY property theorems.
   In the model a file IS its node list; Python objects (handles) hold addresses and nothing
   else, so the first theorem is true by construction - its content comes from the
   correspondence check, which compares the model's walk with the walk of the real file before
   close and after reopen, with every operation performed through a randomly chosen one of
   all the handles ever obtained for the entity. *)
From NixV Require Import Base.Prelude H5.Store Nix.Api Nix.Observe Proofs.StoreLemmas Proofs.WalkProofs.
Open Scope N_scope.

Theorem c02_reopen_same_walk : forall t r now s,
  walk t (sto (fst (exec (OReopen r) now s))) = walk t (sto s).
Proof. exact walk_reopen. Qed.
Print Assumptions c02_reopen_same_walk.

(* the walk is a function of the five leaf observations only *)
Theorem c02_walk_determined : forall t s s', view_eq (view_of s) (view_of s') -> walk t s = walk t s'.
Proof. exact walk_ext. Qed.
Print Assumptions c02_walk_determined.

(* last write wins; every other attribute of every node keeps its value *)
Theorem c02_last_write_wins : forall s a k v, (a < length (nodes s))%nat ->
  get_attr (set_attr s a k v) a k = v.
Proof. exact get_attr_set_same. Qed.
Print Assumptions c02_last_write_wins.
Theorem c02_attr_frame : forall s a k v a' k', (a' <> a \/ k' <> k) ->
  get_attr (set_attr s a k v) a' k' = get_attr s a' k'.
Proof. exact get_attr_set_other. Qed.
Print Assumptions c02_attr_frame.
(* a deleted link stays deleted; other links are not affected *)
Theorem c02_deleted_stays_deleted : forall s a k, (a < length (nodes s))%nat ->
  child (del_link s a k) a k = None.
Proof. exact child_del_link_same. Qed.
Print Assumptions c02_deleted_stays_deleted.
Theorem c02_link_frame : forall s a k b k', (b <> a \/ k' <> k) ->
  child (del_link s a k) b k' = child s b k'.
Proof. exact child_del_link_other. Qed.
Print Assumptions c02_link_frame.
