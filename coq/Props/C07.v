(* Props/C07.v -- dimension descriptors map positions to sample indices by order, exactly.
   ONLY property theorems, each closed by `exact` and followed by Print Assumptions.
   The functions are the model of nixio/dimensions.py in Pure/Dims.v (exact rationals; None =
   IndexError).  The specification (Proofs/DimsBase.v):
     spec_index c dom p m r  :  r = Some i  ->  i is THE last sample <= p / last sample < p /
                                                first sample >= p  (coordinates c, samples dom)
                                r = None    ->  no such sample exists
     spec_range c dom p q m r : r = Some(a,b) -> the samples with coordinate in [p,q] (or [p,q))
                                                are exactly a..b and a <= b;  None -> there are none.
   band_sampled / band_set = "the position is not a sample but within np.isclose's tolerance of
   one" -- the domain of the known finding C07-isclose_band, excluded by hypothesis. *)
From Coq Require Import QArith ZArith List.
From NixV Require Import Base.Prelude Pure.Dims Pure.DimsCheck Proofs.DimsBase
  Proofs.DimsSampled Proofs.DimsTicks Proofs.DimsSet.
Import ListNotations.
Open Scope Q_scope.

Theorem c07_sampled_index_of : forall off itv, 0 < itv -> forall p m,
  band_sampled off itv p = false ->
  spec_index (position_at off itv) nat_dom p m (sampled_index_of off itv p m).
Proof. exact sampled_index_of_spec. Qed.
Print Assumptions c07_sampled_index_of.

Theorem c07_sampled_range : forall off itv, 0 < itv -> forall p q m,
  band_sampled off itv p = false -> band_sampled off itv q = false ->
  spec_range (position_at off itv) nat_dom p q m (sampled_range_indices off itv p q m).
Proof. exact sampled_range_spec. Qed.
Print Assumptions c07_sampled_range.

Theorem c07_sampled_roundtrip : forall off itv, 0 < itv -> forall i, (0 <= i)%Z ->
  sampled_index_of off itv (position_at off itv i) Leq = Some i /\
  sampled_index_of off itv (position_at off itv i) Geq = Some i /\
  sampled_index_of off itv (position_at off itv i) Less = (if (i =? 0)%Z then None else Some (i - 1)%Z).
Proof. exact sampled_roundtrip. Qed.
Print Assumptions c07_sampled_roundtrip.

Theorem c07_sampled_axis : forall off itv count start k, (k < count)%nat ->
  exists v, nth_error (sampled_axis off itv count start) k = Some v /\
            v == position_at off itv (start + Z.of_nat k).
Proof. exact sampled_axis_spec. Qed.
Print Assumptions c07_sampled_axis.

(* an axis started by POSITION: refused exactly before the offset, else it begins at the position and steps by the
   interval; started on sample i it is the axis started by index i, i.e. position_at (i + k) *)
Theorem c07_sampled_axis_at : forall off itv count p,
  (p < off -> sampled_axis_at off itv count p = None) /\
  (off <= p -> exists l, sampled_axis_at off itv count p = Some l /\ length l = count /\
     forall k, (k < count)%nat -> exists v, nth_error l k = Some v /\ v == p + inject_Z (Z.of_nat k) * itv).
Proof. exact sampled_axis_at_spec. Qed.
Print Assumptions c07_sampled_axis_at.
Theorem c07_sampled_axis_at_sample : forall off itv, 0 < itv -> forall count i k, (0 <= i)%Z -> (k < count)%nat ->
  exists l v w, sampled_axis_at off itv count (position_at off itv i) = Some l /\ nth_error l k = Some v /\
                nth_error (sampled_axis off itv count i) k = Some w /\ v == w /\ v == position_at off itv (i + Z.of_nat k).
Proof. exact sampled_axis_at_sample. Qed.
Print Assumptions c07_sampled_axis_at_sample.

(* irregular ticks: for every ascending tick vector (repeats, single ticks, no ticks) *)
Theorem c07_ticks_index_of : forall ticks p m, ascb ticks = true ->
  spec_index (tick_fn ticks) (tick_dom ticks) p m (range_index_of ticks p m).
Proof. exact ticks_index_of_spec. Qed.
Print Assumptions c07_ticks_index_of.

Theorem c07_ticks_range : forall ticks p q m, ascb ticks = true -> p <= q ->
  exists r, range_range_indices ticks p q m = rres_of r /\
            spec_range (tick_fn ticks) (tick_dom ticks) p q m r.
Proof. exact ticks_range_spec. Qed.
Print Assumptions c07_ticks_range.

Theorem c07_ticks_roundtrip : forall ticks i, sascb ticks = true -> (i < length ticks)%nat ->
  exists t, tick_at ticks i = Some t /\
    range_index_of ticks t Leq = Some (Z.of_nat i) /\
    range_index_of ticks t Geq = Some (Z.of_nat i) /\
    range_index_of ticks t Less = (if (i =? 0)%nat then None else Some (Z.of_nat i - 1)%Z).
Proof. exact ticks_roundtrip. Qed.
Print Assumptions c07_ticks_roundtrip.

(* category dimension with n labels (n = 0: no labels, every index >= 0 is a sample) *)
Theorem c07_set_index_of : forall n p m, band_set p = false ->
  spec_index inject_Z (set_dom n) p m (set_index_of n p m).
Proof. exact set_index_of_spec. Qed.
Print Assumptions c07_set_index_of.

Theorem c07_set_range : forall n p q m, p <= q -> band_set p = false -> band_set q = false ->
  exists r, set_range_indices n p q m = rres_of r /\ spec_range inject_Z (set_dom n) p q m r.
Proof. exact set_range_spec. Qed.
Print Assumptions c07_set_range.

(* the executable oracle applied to the IMPLEMENTATION's answers implies the declarative spec *)
Theorem c07_oracle_sound : forall (c : Z -> Q) (n : option Z) p m r,
  (forall i j, idx_dom n i -> idx_dom n j -> (i <= j)%Z -> c i <= c j) ->
  holds_index c n p m r = true -> spec_index c (idx_dom n) p m r.
Proof. exact oracle_sound. Qed.
Print Assumptions c07_oracle_sound.

(* without the band hypothesis the statement is false of the faithful model (known finding) *)
Theorem c07_sampled_band_refuted :
  exists off itv p, 0 < itv /\
    ~ spec_index (position_at off itv) nat_dom p Geq (sampled_index_of off itv p Geq).
Proof. exact sampled_band_refuted. Qed.
Print Assumptions c07_sampled_band_refuted.
