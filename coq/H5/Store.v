(* H5/Store.v -- the HDF5 object graph as nixio uses it: nodes with attributes and an ORDERED
   list of named hard links (creation order), root = node 0.  Nodes are never removed: an
   unlinked node just becomes unreachable, so an address (= what a Python handle caches) stays
   meaningful.  Definitions only; lemmas live in Proofs/. *)
From NixV Require Import Base.Prelude.
From Coq Require Import Lia.
Open Scope N_scope.

(* a text: a literal string, or "the text of the i-th id generated in this history" (ids are
   random in the implementation; both sides name them by order of generation / first
   appearance) *)
Inductive tok := TS (s : str) | TI (i : N).

Definition tok_eqb (a b : tok) : bool :=
  match a, b with
  | TS x, TS y => streq x y
  | TI x, TI y => N.eqb x y
  | _, _ => false
  end.

Inductive aval :=
| AText (t : tok)
| AInt (z : Z)
| AData (d : list Z).             (* opaque payload: a digest of numbers/strings *)

Definition aval_eqb (a b : aval) : bool :=
  match a, b with
  | AText x, AText y => tok_eqb x y
  | AInt x, AInt y => Z.eqb x y
  | AData x, AData y => list_eqb Z.eqb x y
  | _, _ => false
  end.

Definition addr := nat.

Record node := mkNode {
  attrs : list (str * aval);        (* HDF5 attributes *)
  links : list (tok * addr);        (* children, in creation order *)
  isdata : bool                     (* dataset (True) or group (False) *)
}.
Definition empty_node : node := mkNode [] [] false.

Record store := mkStore {
  nodes : list node;
}.

Definition node_at (s : store) (a : addr) : node := nth a (nodes s) empty_node.

Fixpoint upd_nth {A} (l : list A) (n : nat) (f : A -> A) : list A :=
  match l, n with
  | [], _ => []
  | x :: t, O => f x :: t
  | x :: t, S k => x :: upd_nth t k f
  end.

Definition upd_node (s : store) (a : addr) (f : node -> node) : store :=
  mkStore (upd_nth (nodes s) a f).

Definition new_node (s : store) (n : node) : store * addr :=
  (mkStore (nodes s ++ [n]), length (nodes s)).


(* ---- attributes *)
Fixpoint assoc_get {V} (k : str) (l : list (str * V)) : option V :=
  match l with
  | [] => None
  | (k', v) :: t => if streq k' k then Some v else assoc_get k t
  end.
Fixpoint assoc_del {V} (k : str) (l : list (str * V)) : list (str * V) :=
  match l with
  | [] => []
  | (k', v) :: t => if streq k' k then assoc_del k t else (k', v) :: assoc_del k t
  end.
(* replace in place, or append *)
Fixpoint assoc_set {V} (k : str) (v : V) (l : list (str * V)) : list (str * V) :=
  match l with
  | [] => [(k, v)]
  | (k', v') :: t => if streq k' k then (k', v) :: t else (k', v') :: assoc_set k v t
  end.

Definition get_attr (s : store) (a : addr) (k : str) : option aval := assoc_get k (attrs (node_at s a)).
(* H5Group.set_attr: None deletes *)
Definition set_attr (s : store) (a : addr) (k : str) (v : option aval) : store :=
  upd_node s a (fun n => mkNode (match v with
                                 | Some x => assoc_set k x (attrs n)
                                 | None => assoc_del k (attrs n)
                                 end) (links n) (isdata n)).

(* ---- links *)
Fixpoint link_get (k : tok) (l : list (tok * addr)) : option addr :=
  match l with
  | [] => None
  | (k', a) :: t => if tok_eqb k' k then Some a else link_get k t
  end.
Definition link_del (k : tok) (l : list (tok * addr)) : list (tok * addr) :=
  filter (fun p => negb (tok_eqb (fst p) k)) l.

Definition child (s : store) (a : addr) (k : tok) : option addr := link_get k (links (node_at s a)).
Definition set_links (s : store) (a : addr) (l : list (tok * addr)) : store :=
  upd_node s a (fun n => mkNode (attrs n) l (isdata n)).
Definition del_link (s : store) (a : addr) (k : tok) : store :=
  set_links s a (link_del k (links (node_at s a))).
(* h5py: group[name] = obj  (hard link, appended in creation order); H5Group.create_link
   deletes an existing link of that name first *)
Definition add_link (s : store) (a : addr) (k : tok) (tgt : addr) : store :=
  set_links s a (link_del k (links (node_at s a)) ++ [(k, tgt)]).

(* open_group(name, create=True): the existing child, or a new empty group linked last *)
Definition ensure_group (s : store) (a : addr) (k : tok) : store * addr :=
  match child s a k with
  | Some c => (s, c)
  | None => let '(s1, c) := new_node s empty_node in (add_link s1 a k c, c)
  end.

(* ---- reachability (fuel = number of nodes suffices for a simple path) *)
Fixpoint reach_fuel (fuel : nat) (s : store) (from to : addr) : bool :=
  Nat.eqb from to ||
  match fuel with
  | O => false
  | S f => existsb (fun p => reach_fuel f s (snd p) to) (links (node_at s from))
  end.
Definition reachable (s : store) (a : addr) : bool := reach_fuel (length (nodes s)) s 0%nat a.

(* ---- entity attributes *)
Definition k_name : str := [110;97;109;101].
Definition k_type : str := [116;121;112;101].
Definition k_id : str := [101;110;116;105;116;121;95;105;100].          (* entity_id *)
Definition k_definition : str := [100;101;102;105;110;105;116;105;111;110].
Definition k_created : str := [99;114;101;97;116;101;100;95;97;116].
Definition k_updated : str := [117;112;100;97;116;101;100;95;97;116].

Definition attr_tok (s : store) (a : addr) (k : str) : option tok :=
  match get_attr s a k with Some (AText t) => Some t | _ => None end.
Definition entity_id (s : store) (a : addr) : option tok := attr_tok s a k_id.
Definition entity_name (s : store) (a : addr) : option tok := attr_tok s a k_name.

Definition tok_in (t : tok) (l : list tok) : bool := existsb (tok_eqb t) l.
Definition id_in (s : store) (a : addr) (ids : list tok) : bool :=
  match entity_id s a with Some i => tok_in i ids | None => false end.

(* H5Group.delete_all(ids) called on the file root: in EVERY group below the root, drop the
   links whose target's entity_id is in [ids].  (visititems reaches only what is reachable and
   skips the root's own links; the root's children "data"/"metadata" carry no entity_id.  The
   model filters every node: links of unreachable nodes are not observable.)  The victim test
   reads the ids in the store BEFORE the deletion. *)
Definition delete_all (s : store) (ids : list tok) : store :=
  mkStore (map (fun n => mkNode (attrs n)
                                (filter (fun p => negb (id_in s (snd p) ids)) (links n))
                                (isdata n)) (nodes s)).

(* get_by_id: first child (creation order) whose entity_id is the key *)
Fixpoint find_by_id (s : store) (i : tok) (l : list (tok * addr)) : option (tok * addr) :=
  match l with
  | [] => None
  | (k, a) :: t => match entity_id s a with
                   | Some j => if tok_eqb j i then Some (k, a) else find_by_id s i t
                   | None => find_by_id s i t
                   end
  end.

(* util.is_uuid on a text.  A generated id is one.  For literal strings: Python's uuid.UUID
   acceptance after removing "urn:", "uuid:", braces and hyphens = 32 hex digits (the generator
   does not produce the exotic forms int(x,16) also accepts: underscores, blanks, 0x). *)
Definition is_hex (c : N) : bool :=
  ((48 <=? c) && (c <=? 57)) || ((97 <=? c) && (c <=? 102)) || ((65 <=? c) && (c <=? 70)).
Definition strip_braces (s : str) : str :=
  let fix dropl (l : str) := match l with c :: t => if (c =? 123) || (c =? 125) then dropl t else l | [] => [] end in
  rev (dropl (rev (dropl s))).
Definition uuid_core (s : str) : str :=
  replace [45] [] (strip_braces (replace [117;117;105;100;58] [] (replace [117;114;110;58] [] s))).
Definition is_uuid_str (s : str) : bool :=
  let h := uuid_core s in Nat.eqb (length h) 32 && forallb is_hex h.
Definition is_uuid (t : tok) : bool := match t with TI _ => true | TS s => is_uuid_str s end.

(* ---- H5Ocopy (h5py Group.copy).  A deep copy follows every hard link - also those leaving the
   copied hierarchy - and copies each object once, keeping the sharing.  Modelled by appending a
   shifted copy of ALL nodes of the source store: the copy of address a is a + length (nodes dst);
   what is not reachable from the copied root is unreachable garbage no observation sees.
   Copying inside one file is h5copy_into s s. *)
Definition shift_node (k : nat) (x : node) : node :=
  mkNode (attrs x) (map (fun p => (fst p, (snd p + k)%nat)) (links x)) (isdata x).
Definition h5copy_into (dst src : store) : store :=
  mkStore (nodes dst ++ map (shift_node (length (nodes dst))) (nodes src)).
Definition h5copy (s : store) : store := h5copy_into s s.
Definition copy_addr (dst : store) (a : addr) : addr := (a + length (nodes dst))%nat.

(* shallow copy: the object with its attributes and its immediate members; a member that is a
   group is copied with its attributes but without members *)
Definition hollow (x : node) : node := mkNode (attrs x) [] (isdata x).
Fixpoint index_of (c : addr) (l : list addr) (i : nat) : nat :=
  match l with [] => i | x :: r => if Nat.eqb x c then i else index_of c r (S i) end.
(* each object is copied once: a member that is the copied object itself (a section linked to
   itself) becomes the copy itself, two links to one member share one copy *)
Definition h5copy_shallow (s : store) (a : addr) : store * addr :=
  let n := length (nodes s) in
  let x := node_at s a in
  let targets := map snd (links x) in
  let kids := map (fun p => hollow (node_at s (snd p))) (links x) in
  let top := mkNode (attrs x)
                    (map (fun p => (fst p, if Nat.eqb (snd p) a then n else (S n + index_of (snd p) targets 0)%nat)) (links x))
                    (isdata x) in
  (mkStore (nodes s ++ top :: kids), n).

(* keep_id=False: every object from address n0 on that carries an entity_id gets a fresh one
   (the node at n0 + i gets the i-th id after [base]), and a link named by the old id of its
   target is renamed to the target's new id *)
Definition fresh_for (n0 : nat) (base : N) (a : addr) : tok := TI (base + N.of_nat (a - n0)).
Definition regen_node (s : store) (n0 : nat) (base : N) (a : addr) (x : node) : node :=
  mkNode (match assoc_get k_id (attrs x) with
          | Some _ => assoc_set k_id (AText (fresh_for n0 base a)) (attrs x)
          | None => attrs x
          end)
         (map (fun p => if Nat.leb n0 (snd p) && opt_eqb tok_eqb (entity_id s (snd p)) (Some (fst p))
                        then (fresh_for n0 base (snd p), snd p) else p) (links x))
         (isdata x).
Definition regen_ids (s : store) (n0 : nat) (base : N) : store :=
  mkStore (map (fun p => if Nat.leb n0 (fst p) then regen_node s n0 base (fst p) (snd p) else snd p)
               (combine (seq 0 (length (nodes s))) (nodes s))).
