"""Implementation side of C10: histories on one section (properties, values, dict protocol)."""
import gc
import zlib
import json
import os
import struct
import sys

import numpy as np
import nixio
from nixio.exceptions import DuplicateName

NAMES = ["p0", "p1", "äö", "sections", "x y", "n5", "n6", "n7"]
STRS = ["", "a", "äöü", "x" * 40, "0", "True", "1.5", "日本", "e\u0301", "\u00e9", "\u212b", "\u00c5", "a ", "A"]
TY = {"bool": nixio.DataType.Bool, "int": nixio.DataType.Int64, "float": nixio.DataType.Double, "str": nixio.DataType.String}


def dec(v):
    """wire value -> python value"""
    t, x = v
    if t == "bool":
        return bool(x)
    if t == "npbool":
        return np.bool_(bool(x))
    if t == "int":
        return int(x)
    if t == "npint":
        return np.int64(x)
    if t == "float":
        return struct.unpack("<d", struct.pack("<Q", x))[0]
    if t == "npfloat32":
        return np.float32(struct.unpack("<d", struct.pack("<Q", x))[0])
    if t == "str":
        return STRS[x]
    if t == "none":
        return None
    if t == "nested":
        return [1, 2]
    raise ValueError(t)


def err(exc):
    if isinstance(exc, DuplicateName):
        return [2, 1]
    if isinstance(exc, OverflowError):
        return [2, 8]
    if isinstance(exc, TypeError):
        return [2, 3]
    if isinstance(exc, ValueError):
        return [2, 2]
    if isinstance(exc, (KeyError, IndexError)):
        return [2, 5]
    return [2, 9]


def enc_read(v):
    if isinstance(v, (bool, np.bool_)):
        return [0, int(bool(v))]
    if isinstance(v, (int, np.integer)):
        return [1, int(v)]
    if isinstance(v, (float, np.floating)):
        return [2, struct.unpack("<Q", struct.pack("<d", float(v)))[0]]
    if isinstance(v, str):
        return [3, STRS.index(v) if v in STRS else 99]
    return [9, 0]


def ty_code(p):
    dt = p.data_type
    if dt == nixio.DataType.String:
        return 3
    dt = np.dtype(dt)
    if dt == np.bool_:
        return 0
    if dt == np.int64:
        return 1
    if dt == np.float64:
        return 2
    return 7


def enc_vals(vals):
    out = [len(vals)]
    for v in vals:
        out += enc_read(v)
    return out


def state(sec):
    props = list(sec.props)
    out = [len(props)]
    for p in props:
        out += [NAMES.index(p.name), ty_code(p)] + enc_vals(list(p.values))
    subs = list(sec.sections)
    out += [len(subs)] + [NAMES.index(s.name) for s in subs]
    return out


def dict_view(sec):
    keys = [NAMES.index(getattr(x, "name")) for x in sec]
    items = [NAMES.index(k) for k, _ in sec.items()]
    assert keys == items
    return [len(sec), len(keys)] + keys + [1 if NAMES[k] in sec else 0 for k in range(8)]


def main():
    req = json.load(sys.stdin)
    wd = os.getcwd()
    out = []
    for k, ops in enumerate(req["cases"]):
        path = os.path.join(wd, "v%d.nix" % k)
        f = nixio.File.open(path, nixio.FileMode.Overwrite)
        sec = f.create_section("s", "t")
        obs = []
        # two Python objects of the one section and, per name, the Property object that was obtained first: the calls
        # alternate between the objects; after every call both sections must show the same state
        secs = [sec, f.sections["s"]]
        kept = {}
        par = zlib.crc32(json.dumps(ops, sort_keys=True).encode())

        def prop(name):
            fresh = sec.props[name]
            old = kept.setdefault(name, fresh)
            return old if (nop + par) % 3 == 0 else fresh
        for nop, op in enumerate(ops):
            t = op[0]
            sec = secs[(nop + par) % 2]
            try:
                if t == "create":
                    sec.create_property(NAMES[op[1]], [dec(v) for v in op[2]] if not op[3] else dec(op[2][0]))
                    res = [0]
                elif t == "create_ty":
                    sec.create_property(NAMES[op[1]], TY[op[2]])
                    res = [0]
                elif t == "set":
                    p = prop(NAMES[op[1]])
                    if op[3] == "none":
                        p.values = None
                    elif op[3] == "scalar":
                        p.values = dec(op[2][0])
                    elif op[3] == "nparray":
                        p.values = np.array([dec(v) for v in op[2]])
                    else:
                        p.values = [dec(v) for v in op[2]]
                    res = [0]
                elif t == "extend":
                    p = prop(NAMES[op[1]])
                    p.extend_values(dec(op[2][0]) if op[3] == "scalar" else [dec(v) for v in op[2]])
                    res = [0]
                elif t == "dget":
                    r = sec[NAMES[op[1]]]
                    if isinstance(r, nixio.Section):
                        res = [4, NAMES.index(r.name)]
                    else:
                        r = r if isinstance(r, list) else [r]
                        res = [1] + enc_vals(r)
                elif t == "dset":
                    sec[NAMES[op[1]]] = [dec(v) for v in op[2]] if not op[3] else dec(op[2][0])
                    res = [0]
                elif t == "ddel":
                    del sec[NAMES[op[1]]]
                    kept.pop(NAMES[op[1]], None)
                    res = [0]
                elif t == "sub":
                    sec.create_section(NAMES[op[1]], "t")
                    res = [0]
                elif t == "reopen":
                    f.close()
                    gc.collect()
                    f = nixio.File.open(path, nixio.FileMode.ReadWrite)
                    secs = [f.sections["s"], f.sections["s"]]
                    sec = secs[0]
                    kept = {}
                    res = [0]
            except Exception as exc:
                res = err(exc)
            try:
                a = state(secs[0]) + [-7] + dict_view(secs[0])
                b = state(secs[1]) + [-7] + dict_view(secs[1])
                obs.append(res + [-7] + a if a == b else res + [-7, -98, -7, -98])
            except Exception as exc:
                obs.append(res + [-7, -99, -7, -99])
        f.close()
        os.remove(path)
        out.append(obs)
    json.dump(out, sys.stdout)


main()
