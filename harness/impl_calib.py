"""Implementation side of C15: calibrated reads through every read path; raw data via h5py."""
import json
import os
import sys
from fractions import Fraction

import numpy as np
import nixio


def fr(x):
    f = Fraction(float(x))
    return [f.numerator, f.denominator]


def frl(a):
    return [fr(x) for x in np.asarray(a, dtype=np.float64).ravel()]


def main():
    req = json.load(sys.stdin)
    path = os.path.join(os.getcwd(), "cal.nix")
    f = nixio.File.open(path, nixio.FileMode.Overwrite)
    b = f.create_block("b", "t")
    out = []
    for k, c in enumerate(req["cases"]):
        raw = np.array(c["raw"], dtype=c["dtype"]).reshape(c["shape"])
        da = b.create_data_array("a%d" % k, "t", data=raw)
        for d in c["shape"]:
            da.append_set_dimension()
        res = {"steps": []}
        # a second Python object of the same array, read once before any calibration is set, and the views kept from the
        # previous step: every one of them must see the calibration that is in force NOW
        first = da
        other = b.data_arrays["a%d" % k]
        other[:]
        kept = None
        for step in c["steps"]:
            coeffs, origin = step["coeffs"], step["origin"]
            da = other if step.get("via") else first
            def num(x):
                # whole numbers are sometimes given the way users write them: as Python ints
                q = Fraction(*x)
                return int(q) if (step.get("ints") and q.denominator == 1) else float(q)
            try:
                for which in step.get("order", "co"):
                    if which == "c":
                        da.polynom_coefficients = [num(x) for x in coeffs] if coeffs is not None else None
                    else:
                        da.expansion_origin = num(origin) if origin is not None else None
            except Exception as exc:
                res["steps"].append({"error": type(exc).__name__})
                continue
            da = first
            whole = da[:]
            whole2 = other[:]
            kept_reads = None
            if kept is not None:
                kept_reads = []
                for v in kept:
                    try:
                        kept_reads.append(frl(v[:]))
                    except Exception as exc:
                        kept_reads.append(type(exc).__name__)
            idx = tuple(slice(a, z, st) for a, z, st in step["region"])
            reg = da[idx]
            view = da.get_slice([a for a, _ in step["window"]], [e for _, e in step["window"]])
            vread = view[:] if view.valid else None
            # through a tag
            tname = "t%d_%d" % (k, len(res["steps"]))
            tag = b.create_tag(tname, "t", [float(a) for a, _ in step["window"]])
            tag.extent = [float(e) for _, e in step["window"]]
            tag.references.append(da)
            try:
                tview = tag.tagged_data(0)
                tread = tview[:]
                tshape = list(np.shape(tread))
            except Exception as exc:
                tview, tread, tshape = None, None, type(exc).__name__
            kept = [v for v in (view if view.valid else None, tview) if v is not None]
            # read_direct into a caller's buffer, on the array and on the views
            def direct(obj, like):
                buf = np.empty(np.shape(like), dtype=np.asarray(like).dtype)
                try:
                    obj.read_direct(buf)
                    return frl(buf)
                except Exception as exc:
                    return type(exc).__name__
            d_whole = direct(da, whole)
            d_view = direct(view, vread) if vread is not None and np.size(vread) else None
            d_tag = direct(tview, tread) if (tview is not None and tread is not None and np.size(tread)) else None
            rawnow = f._h5file["data/b/data_arrays/a%d/data" % k][:]
            res["steps"].append({
                "whole": frl(whole), "whole_dtype": str(whole.dtype), "region": frl(reg), "region_shape": list(reg.shape),
                "view": None if vread is None else frl(vread), "view_dtype": None if vread is None else str(vread.dtype),
                "tagged": None if tread is None else frl(tread), "tagged_shape": tshape,
                "direct": [d_whole, d_view, d_tag],
                "whole2": frl(whole2), "whole2_dtype": str(whole2.dtype), "kept": kept_reads,
                "raw_same": bool(np.array_equal(rawnow, raw)) and str(rawnow.dtype) == str(raw.dtype),
                "read_coeffs": [fr(x) for x in da.polynom_coefficients], "read_origin": None if da.expansion_origin is None else fr(da.expansion_origin)})
        out.append(res)
    f.close()
    os.remove(path)
    json.dump(out, sys.stdout)


main()
