(* Props/C15.v -- calibration is applied on every read and never touches the stored values.
   ONLY property theorems.  In the model (Pure/Array.v) calibration exists only in
   read_calibrated; no write operation mentions coefficients or origin, so "setting the
   calibration never alters the raw values" is true of the model by construction and is NOT
   stated as a theorem: it is exercised (raw h5py read after every set/clear step). *)
From Coq Require Import ZArith List QArith.
From NixV Require Import Base.Prelude Pure.Slices Pure.Array Proofs.ArrayProofs.
Import ListNotations.
Open Scope Q_scope.

(* Horner's scheme (np.polynomial.polynomial.polyval) is c0 + c1 y + c2 y^2 + ... *)
Theorem c15_horner : forall coeffs y, horner coeffs y == power_sum coeffs y 0.
Proof. exact horner_is_polynomial. Qed.
Print Assumptions c15_horner.

(* calibration is element by element: slicing and calibration commute, for every selection *)
Theorem c15_commute : forall coeffs origin (raw : list Q) (pos : list nat) d,
  read_calibrated coeffs origin (map (fun p => nth p raw d) pos) =
  map (fun p => nth p (read_calibrated coeffs origin raw)
                     (if is_calibrated coeffs origin then calibrate coeffs origin d else d)) pos.
Proof. exact calibration_commutes_with_selection. Qed.
Print Assumptions c15_commute.

(* no coefficients and no (or a zero) origin: the raw values *)
Theorem c15_no_calibration_identity : forall raw,
  read_calibrated [] None raw = raw /\ read_calibrated [] (Some 0) raw = raw.
Proof. exact no_calibration_identity. Qed.
Print Assumptions c15_no_calibration_identity.

(* every element of a calibrated read is the polynomial of the corresponding raw element *)
Theorem c15_pointwise : forall coeffs origin (raw : list Q) i d,
  is_calibrated coeffs origin = true -> (i < length raw)%nat ->
  nth i (read_calibrated coeffs origin raw) d = calibrate coeffs origin (nth i raw d) /\
  length (read_calibrated coeffs origin raw) = length raw.
Proof.
  intros coeffs origin raw i d Hc Hi. unfold read_calibrated. rewrite Hc. split; [|apply map_length].
  rewrite (nth_indep _ d (calibrate coeffs origin d)) by (rewrite map_length; exact Hi).
  apply map_nth.
Qed.
Print Assumptions c15_pointwise.
