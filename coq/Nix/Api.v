(* Nix/Api.v -- the nixio API calls as programs over the store, each in the order of the Python
   (same tests, same order of writes).  The error monad does NOT roll back: an error keeps the
   state reached so far (C12 is about whether the code validates before it writes).
   Handles are what Python entity objects are: an address, the nix parent, the kind. *)
From NixV Require Import Base.Prelude H5.Store Gen.Touch Pure.Bfs.
Open Scope N_scope.

Inductive ekind := KFile | KBlock | KGroup | KDataArray | KTag | KMultiTag | KFeature
                 | KSource | KSection | KProperty | KDataFrame.
Definition ekind_eqb (a b : ekind) : bool :=
  match a, b with
  | KFile, KFile | KBlock, KBlock | KGroup, KGroup | KDataArray, KDataArray | KTag, KTag
  | KMultiTag, KMultiTag | KFeature, KFeature | KSource, KSource | KSection, KSection
  | KProperty, KProperty | KDataFrame, KDataFrame => true
  | _, _ => false
  end.

(* coarse result classes (exception families) *)
Inductive err := EDup | EBadName | EType | EIndex | EKey | ERuntime | EReadOnly | EOther.
Definition err_code (e : err) : N :=
  match e with EDup => 1 | EBadName => 2 | EType => 3 | EIndex => 4 | EKey => 5
             | ERuntime => 6 | EReadOnly => 7 | EOther => 8 end.

(* node, kind, the nix parent's node (_parent) and that parent's parent (_parent._parent) *)
(* observation tokens (results of probes and searches, the canonical walk) *)
Inductive wtok := WN (n : Z) | WT (t : tok) | WNone.
Definition w_opt_tok (o : option tok) : wtok := match o with Some t => WT t | None => WNone end.
Definition b2w (b : bool) : wtok := WN (if b then 1 else 0).

Record handle := mkH { ha : addr; hk : ekind; hown : addr; hown2 : addr }.

Record st := mkSt {
  sto : store;
  hs : list handle;          (* handle table: handle number = position *)
  auto : bool;               (* file.auto_update_timestamps *)
  ro : bool;                 (* opened read-only *)
  nid : N;                   (* id supply: uuid4 never collides *)
}.

Definition res (A : Type) := (st * (A + err))%type.
Definition M (A : Type) := st -> res A.
Definition ret {A} (x : A) : M A := fun s => (s, inl x).
Definition fail {A} (e : err) : M A := fun s => (s, inr e).
Definition bind {A B} (m : M A) (k : A -> M B) : M B :=
  fun s => match m s with
           | (s', inl x) => k x s'
           | (s', inr e) => (s', inr e)
           end.
Notation "x <- m ;; k" := (bind m (fun x => k)) (at level 61, m at next level, right associativity).
Notation "m ;;; k" := (bind m (fun _ => k)) (at level 61, right associativity).

(* a snapshot for reading; the open mode is masked (no call reads it: read-only shows only as
   the failure of a write) *)
Definition get_st : M st := fun s => (s, inl (mkSt (sto s) (hs s) (auto s) false (nid s))).
Definition rd {A} (f : store -> A) : M A := fun s => (s, inl (f (sto s))).
(* every write to the file fails on a read-only file *)
Definition wr (f : store -> store) : M unit :=
  fun s => if ro s then (s, inr EReadOnly)
           else (mkSt (f (sto s)) (hs s) (auto s) (ro s) (nid s), inl tt).
Definition wr_ret {A} (f : store -> store * A) : M A :=
  fun s => if ro s then (s, inr EReadOnly)
           else let '(s', x) := f (sto s) in (mkSt s' (hs s) (auto s) (ro s) (nid s), inl x).
(* uuid4: not a write to the file *)
Definition gen_id : M tok :=
  fun s => (mkSt (sto s) (hs s) (auto s) (ro s) (N.succ (nid s)), inl (TI (nid s))).
Definition new_handle (h : handle) : M N :=
  fun s => (mkSt (sto s) (hs s ++ [h]) (auto s) (ro s) (nid s), inl (N.of_nat (length (hs s)))).
Definition the_handle (i : N) : M handle :=
  fun s => match nth_error (hs s) (N.to_nat i) with
           | Some h => (s, inl h)
           | None => (s, inr EOther)
           end.
Definition guard (b : bool) (e : err) : M unit := if b then ret tt else fail e.

(* ---- names of container groups / links *)
Definition s_data : str := [100;97;116;97].
Definition s_metadata : str := [109;101;116;97;100;97;116;97].
Definition s_groups : str := [103;114;111;117;112;115].
Definition s_data_arrays : str := [100;97;116;97;95;97;114;114;97;121;115].
Definition s_tags : str := [116;97;103;115].
Definition s_multi_tags : str := [109;117;108;116;105;95;116;97;103;115].
Definition s_sources : str := [115;111;117;114;99;101;115].
Definition s_data_frames : str := [100;97;116;97;95;102;114;97;109;101;115].
Definition s_sections : str := [115;101;99;116;105;111;110;115].
Definition s_properties : str := [112;114;111;112;101;114;116;105;101;115].
Definition s_features : str := [102;101;97;116;117;114;101;115].
Definition s_references : str := [114;101;102;101;114;101;110;99;101;115].
Definition s_positions : str := [112;111;115;105;116;105;111;110;115].
Definition s_extents : str := [101;120;116;101;110;116;115].
Definition s_position : str := [112;111;115;105;116;105;111;110].
Definition s_link : str := [108;105;110;107].
Definition s_link_type : str := [108;105;110;107;95;116;121;112;101].
Definition s_target_type : str := [116;97;114;103;101;116;95;116;121;112;101].
Definition s_DataArray : str := [68;97;116;97;65;114;114;97;121].
Definition s_DataFrame : str := [68;97;116;97;70;114;97;109;101].
Definition s_tagged : str := [116;97;103;103;101;100].
Definition s_label : str := [108;97;98;101;108].
Definition s_unit : str := [117;110;105;116].
Definition s_repository : str := [114;101;112;111;115;105;116;111;114;121].
Definition s_reference : str := [114;101;102;101;114;101;110;99;101].
Definition s_value : str := [118;97;108;117;101].

(* containers that hold entities (Container) *)
Inductive ckind := CBlocks | CSections | CGroups | CDataArrays | CTags | CMultiTags | CSources
                 | CProperties | CFeatures | CDataFrames.
(* lists of links (LinkContainer / SourceLinkContainer) *)
Inductive lkind := LDataArrays | LTags | LMultiTags | LReferences | LSources | LDataFrames.
(* single links *)
Inductive rkind := RMetadata | RPositions | RExtents | RFeatureData | RSectionLink.
(* settable attributes *)
Inductive akind := AType | ADefinition | ALabel | AUnit | ARepository | AReference | ALinkType.

Definition cname (c : ckind) : str :=
  match c with
  | CBlocks => s_data | CSections => s_sections | CGroups => s_groups
  | CDataArrays => s_data_arrays | CTags => s_tags | CMultiTags => s_multi_tags
  | CSources => s_sources | CProperties => s_properties | CFeatures => s_features
  | CDataFrames => s_data_frames
  end.
(* the group name of the container under a parent of kind [pk]: the file keeps its sections
   in "metadata" *)
Definition cgroup (pk : ekind) (c : ckind) : str :=
  match pk, c with KFile, CSections => s_metadata | _, _ => cname c end.
Definition ckind_item (c : ckind) : ekind :=
  match c with
  | CBlocks => KBlock | CSections => KSection | CGroups => KGroup | CDataArrays => KDataArray
  | CTags => KTag | CMultiTags => KMultiTag | CSources => KSource | CProperties => KProperty
  | CFeatures => KFeature | CDataFrames => KDataFrame
  end.
(* which parents have which containers *)
Definition has_container (pk : ekind) (c : ckind) : bool :=
  match pk, c with
  | KFile, (CBlocks | CSections) => true
  | KBlock, (CGroups | CDataArrays | CTags | CMultiTags | CSources | CDataFrames) => true
  | KSource, CSources => true
  | KSection, (CSections | CProperties) => true
  | (KTag | KMultiTag), CFeatures => true
  | _, _ => false
  end.
Definition lname (l : lkind) : str :=
  match l with
  | LDataArrays => s_data_arrays | LTags => s_tags | LMultiTags => s_multi_tags
  | LReferences => s_references | LSources => s_sources | LDataFrames => s_data_frames
  end.
Definition lkind_item (l : lkind) : ekind :=
  match l with
  | LDataArrays | LReferences => KDataArray | LTags => KTag | LMultiTags => KMultiTag
  | LSources => KSource | LDataFrames => KDataFrame
  end.
(* the block-level container a link list draws from *)
Definition lkind_store (l : lkind) : ckind :=
  match l with
  | LDataArrays | LReferences => CDataArrays | LTags => CTags | LMultiTags => CMultiTags
  | LSources => CSources | LDataFrames => CDataFrames
  end.
Definition has_list (k : ekind) (l : lkind) : bool :=
  match k, l with
  | KGroup, (LDataArrays | LTags | LMultiTags | LSources | LDataFrames) => true
  | (KTag | KMultiTag), (LReferences | LSources) => true
  | KDataArray, LSources => true
  | _, _ => false
  end.
Definition rname (r : rkind) : str :=
  match r with
  | RMetadata => s_metadata | RPositions => s_positions | RExtents => s_extents
  | RFeatureData => s_data | RSectionLink => s_link
  end.
Definition aname (a : akind) : str :=
  match a with
  | AType => k_type | ADefinition => k_definition | ALabel => s_label | AUnit => s_unit
  | ARepository => s_repository | AReference => s_reference | ALinkType => s_link_type
  end.

(* keys a caller can pass to a container *)
(* KeyIdOf h: the id string of the entity handle h designates (read when the handle was made) *)
Inductive key := KeyName (t : tok) | KeyPos (z : Z) | KeyObj (h : N) | KeyIdOf (h : N).

(* ---- timestamps *)
Definition touch_updated (a : addr) (now : Z) : M unit :=
  wr (fun s => set_attr s a k_updated (Some (AInt now))).
Definition touch_created (a : addr) (now : Z) : M unit :=
  wr (fun s => set_attr s a k_created (Some (AInt now))).
(* if self.file.auto_update_timestamps: self.force_updated_at() *)
Definition auto_touch (a : addr) (now : Z) : M unit :=
  s <- get_st ;; if auto s then touch_updated a now else ret tt.

(* the guarded update of a setter, present exactly when the translated table (Gen/Touch.v, from
   the current source) lists (class, setter) *)
Definition c_Entity : str := [69;110;116;105;116;121].
Definition c_DataArray : str := [68;97;116;97;65;114;114;97;121].
Definition c_Section : str := [83;101;99;116;105;111;110].
Definition c_MultiTag : str := [77;117;108;116;105;84;97;103].
Definition c_Feature : str := [70;101;97;116;117;114;101].
Definition c_Tag : str := [84;97;103].
Definition touches (cls name : str) : bool :=
  existsb (fun p => streq (fst p) cls && streq (snd p) name) auto_touch_table.
Definition auto_touch_for (cls name : str) (a : addr) (now : Z) : M unit :=
  if touches cls name then auto_touch a now else ret tt.

(* ---- util.check_entity_name_and_type *)
Definition tok_empty (t : tok) : bool := match t with TS [] => true | _ => false end.
Definition tok_has_slash (t : tok) : bool :=
  match t with TS s => existsb (N.eqb 47) s | TI _ => false end.
Definition check_name_type (name type : tok) : M unit :=
  guard (negb (tok_empty name)) EBadName ;;;
  guard (negb (tok_has_slash name)) EBadName ;;;
  guard (negb (tok_empty type)) EBadName.

(* `name in h5group` on an optional container group (h5py path lookup: a name with a slash
   or an empty name is never a direct child; see DESIGN: the generator keeps such names away
   from existing paths) *)
Definition in_group (s : store) (c : option addr) (name : tok) : bool :=
  match c with
  | None => false
  | Some ca => if tok_has_slash name || tok_empty name then false
               else match child s ca name with Some _ => true | None => false end
  end.

(* Entity.create_new: id, name/type check, group (created by the first set_attr; the parent
   container is created on the way), three attributes, Entity.__init__, two timestamps *)
Definition entity_create_new (pa : addr) (cgrp : str) (name type : tok) (now : Z) : M (addr * tok) :=
  id <- gen_id ;;
  let name' := if tok_empty name then id else name in
  check_name_type name' type ;;;
  ca <- wr_ret (fun s => ensure_group s pa (TS cgrp)) ;;
  a <- wr_ret (fun s => ensure_group s ca name') ;;
  wr (fun s => set_attr s a k_name (Some (AText name'))) ;;;
  wr (fun s => set_attr s a k_type (Some (AText type))) ;;;
  wr (fun s => set_attr s a k_id (Some (AText id))) ;;;
  touch_created a now ;;;
  touch_updated a now ;;;
  ret (a, id).

(* Container.__contains__(name : str) -- used by File.create_section *)
Definition container_has_name (s : store) (c : option addr) (name : tok) : bool :=
  match c with
  | None => false
  | Some ca =>
      match (if is_uuid name then find_by_id s name (links (node_at s ca)) else None) with
      | Some _ => true
      | None => in_group s c name
      end
  end.

Definition write_payload (a : addr) (dname : str) (d : list Z) : M unit :=
  c <- wr_ret (fun s => match child s a (TS dname) with
                        | Some c => (s, c)
                        | None => let '(s1, c) := new_node s (mkNode [] [] true) in
                                  (add_link s1 a (TS dname) c, c)
                        end) ;;
  wr (fun s => set_attr s c s_value (Some (AData d))).

(* the create_* calls.  [payload]: digest of data / position / values *)
Definition api_create (ph : N) (c : ckind) (name type : tok) (payload : list Z) (now : Z) : M N :=
  p <- the_handle ph ;;
  guard (has_container (hk p) c) EOther ;;;
  let pa := ha p in
  let cg := cgroup (hk p) c in
  match c with
  | CBlocks =>
      (* File.create_block: duplicate test first (on the h5 group), checks inside create_new *)
      dup <- rd (fun s => in_group s (child s pa (TS cg)) name) ;;
      guard (negb dup) EDup ;;;
      r <- entity_create_new pa cg name type now ;;
      new_handle (mkH (fst r) KBlock pa 0%nat)
  | CSections =>
      match hk p with
      | KFile =>
          (* File.create_section: `name in self.sections` (Container.__contains__) first *)
          dup <- rd (fun s => container_has_name s (child s pa (TS cg)) name) ;;
          guard (negb dup) EDup ;;;
          r <- entity_create_new pa cg name type now ;;
          new_handle (mkH (fst r) KSection pa 0%nat)
      | _ =>
          check_name_type name type ;;;
          ca <- wr_ret (fun s => ensure_group s pa (TS cg)) ;;
          dup <- rd (fun s => in_group s (Some ca) name) ;;
          guard (negb dup) EDup ;;;
          r <- entity_create_new pa cg name type now ;;
          new_handle (mkH (fst r) KSection pa 0%nat)
      end
  | CSources =>
      check_name_type name type ;;;
      (match hk p with
       | KSource => ca <- wr_ret (fun s => ensure_group s pa (TS cg)) ;; ret tt   (* open_group(.., True) *)
       | _ => ret tt
       end) ;;;
      dup <- rd (fun s => in_group s (child s pa (TS cg)) name) ;;
      guard (negb dup) EDup ;;;
      r <- entity_create_new pa cg name type now ;;
      new_handle (mkH (fst r) KSource pa (match hk p with KBlock => pa | _ => hown2 p end))
  | CGroups | CDataArrays | CTags | CDataFrames =>
      check_name_type name type ;;;
      dup <- rd (fun s => in_group s (child s pa (TS cg)) name) ;;
      guard (negb dup) EDup ;;;
      r <- entity_create_new pa cg name type now ;;
      (match c with
       | CDataArrays | CDataFrames => write_payload (fst r) s_data payload       (* create_dataset + write_direct *)
       | CTags => write_payload (fst r) s_position payload ;;; auto_touch_for c_Tag s_position (fst r) now
       | _ => ret tt
       end) ;;;
      new_handle (mkH (fst r) (ckind_item c) pa 0%nat)
  | CProperties =>
      ca <- wr_ret (fun s => ensure_group s pa (TS cg)) ;;
      dup <- rd (fun s => in_group s (Some ca) name) ;;
      guard (negb dup) EDup ;;;
      (* Property.create_new: check_entity_name, dataset, name, id, timestamps; then values *)
      guard (negb (tok_empty name)) EBadName ;;;
      guard (negb (tok_has_slash name)) EBadName ;;;
      a <- wr_ret (fun s => let '(s1, c) := new_node s (mkNode [] [] true) in (add_link s1 ca name c, c)) ;;
      wr (fun s => set_attr s a k_name (Some (AText name))) ;;;
      id <- gen_id ;;
      wr (fun s => set_attr s a k_id (Some (AText id))) ;;;
      touch_created a now ;;;
      touch_updated a now ;;;
      wr (fun s => set_attr s a s_value (Some (AData payload))) ;;;
      new_handle (mkH a KProperty pa 0%nat)
  | CMultiTags | CFeatures => fail EOther      (* created by their own calls below *)
  end.

(* Container.__contains__(entity) on a block-level container: a member of that NAME exists and
   carries the entity's ID *)
Definition store_has_entity (s : store) (blk : addr) (c : ckind) (x : addr) : bool :=
  match entity_name s x with
  | Some n =>
      if tok_has_slash n || tok_empty n then false
      else match child s blk (TS (cname c)) with
           | Some ca => match child s ca n with
                        | Some y => opt_eqb tok_eqb (entity_id s y) (entity_id s x)
                        | None => false
                        end
           | None => false
           end
  | None => false
  end.

(* Block.create_multi_tag(name, type, positions=<DataArray>) *)
Definition api_create_mtag (ph : N) (name type : tok) (posh : N) (now : Z) : M N :=
  p <- the_handle ph ;; pos <- the_handle posh ;;
  guard (ekind_eqb (hk p) KBlock) EOther ;;;
  guard (ekind_eqb (hk pos) KDataArray) EOther ;;;
  check_name_type name type ;;;
  dup <- rd (fun s => in_group s (child s (ha p) (TS s_multi_tags)) name) ;;
  guard (negb dup) EDup ;;;
  (* the positions setter refuses an array of another block; create_multi_tag then removes the
     multi-tag it had started: as if refused before anything was created *)
  ok <- rd (fun s => store_has_entity s (ha p) CDataArrays (ha pos)) ;;
  guard ok ERuntime ;;;
  r <- entity_create_new (ha p) s_multi_tags name type now ;;
  wr (fun s => add_link s (fst r) (TS s_positions) (ha pos)) ;;;
  auto_touch_for c_MultiTag s_positions (fst r) now ;;;
  new_handle (mkH (fst r) KMultiTag (ha p) 0%nat).

(* BaseTag.create_feature(data, link_type) -> Feature.create_new *)
Definition api_create_feature (th : N) (dh : N) (ltype : tok) (now : Z) : M N :=
  t <- the_handle th ;; d <- the_handle dh ;;
  guard (ekind_eqb (hk t) KTag || ekind_eqb (hk t) KMultiTag) EOther ;;;
  guard (ekind_eqb (hk d) KDataArray || ekind_eqb (hk d) KDataFrame) EType ;;;
  let frame := ekind_eqb (hk d) KDataFrame in
  (* a data frame cannot be a Tagged feature (UnsupportedLinkType, before anything is made) *)
  guard (negb (frame && tok_eqb ltype (TS s_tagged))) EOther ;;;
  (* Feature.data setter's test; on refusal Feature.create_new removes the group it had made *)
  ok <- rd (fun s => store_has_entity s (hown t) (if frame then CDataFrames else CDataArrays) (ha d)) ;;
  guard ok ERuntime ;;;
  id <- gen_id ;;
  ca <- wr_ret (fun s => ensure_group s (ha t) (TS s_features)) ;;
  a <- wr_ret (fun s => ensure_group s ca id) ;;
  wr (fun s => set_attr s a k_id (Some (AText id))) ;;;
  wr (fun s => set_attr s a s_link_type (Some (AText ltype))) ;;;
  auto_touch_for c_Feature s_link_type a now ;;;
  wr (fun s => set_attr s a s_target_type (Some (AText (TS (if frame then s_DataFrame else s_DataArray))))) ;;;
  wr (fun s => add_link s a (TS s_data) (ha d)) ;;;
  auto_touch_for c_Feature s_data a now ;;;
  touch_created a now ;;;
  touch_updated a now ;;;
  new_handle (mkH a KFeature (ha t) (hown t)).

(* ---- resolving a key in a Container *)
Definition py_index (len : nat) (z : Z) : option nat :=
  let z' := if (z <? 0)%Z then (Z.of_nat len + z)%Z else z in
  if (z' <? 0)%Z || (Z.of_nat len <=? z')%Z then None else Some (Z.to_nat z').

Definition cont_links (s : store) (c : option addr) : list (tok * addr) :=
  match c with Some ca => links (node_at s ca) | None => [] end.

(* Container.__getitem__ *)
Definition container_get (s : store) (c : option addr) (k : key) (hsl : list handle) : (tok * addr) + err :=
  let ls := cont_links s c in
  match k with
  | KeyPos z => match py_index (length ls) z with
                | Some i => match nth_error ls i with Some p => inl p | None => inr EIndex end
                | None => inr EIndex
                end
  | KeyName t =>
      (* get_by_id_or_name: an id first; a text that merely looks like an id falls back to the name *)
      match (if is_uuid t then find_by_id s t ls else None) with
      | Some p => inl p
      | None =>
          if tok_empty t || tok_has_slash t then inr EKey
          else match link_get t ls with Some a => inl (t, a) | None => inr EKey end
      end
  | KeyObj _ | KeyIdOf _ => inr EOther     (* resolved by the caller *)
  end.

(* FeatureContainer.__getitem__: on KeyError the features are scanned, in order, for one whose DATA has that id or
   name (feat.data raises RuntimeError when the data link is gone) *)
Fixpoint feature_by_data (s : store) (t : tok) (l : list (tok * addr)) : (tok * addr) + err :=
  match l with
  | [] => inr EKey
  | (k, a) :: r =>
      match child s a (TS s_data) with
      | None => inr ERuntime
      | Some x => if opt_eqb tok_eqb (entity_id s x) (Some t) || opt_eqb tok_eqb (entity_name s x) (Some t)
                  then inl (k, a) else feature_by_data s t r
      end
  end.
Definition container_get_c (s : store) (c : ckind) (ca : option addr) (k : key) (hsl : list handle)
  : (tok * addr) + err :=
  match container_get s ca k hsl, c, k with
  | inr EKey, CFeatures, KeyName t => feature_by_data s t (cont_links s ca)
  | r, _, _ => r
  end.

(* LinkContainer.__getitem__: position as Container; id = link name; name = scan of `name` attrs *)
Fixpoint find_by_name_attr (s : store) (n : tok) (l : list (tok * addr)) : option (tok * addr) :=
  match l with
  | [] => None
  | (k, a) :: t => match entity_name s a with
                   | Some m => if tok_eqb m n then Some (k, a) else find_by_name_attr s n t
                   | None => find_by_name_attr s n t
                   end
  end.
Definition linklist_get (s : store) (c : option addr) (k : key) : (tok * addr) + err :=
  let ls := cont_links s c in
  match k with
  | KeyPos z => match py_index (length ls) z with
                | Some i => match nth_error ls i with Some p => inl p | None => inr EIndex end
                | None => inr EIndex
                end
  | KeyName t =>
      match (if is_uuid t then link_get t ls else None) with
      | Some a => inl (t, a)
      | None => match find_by_name_attr s t ls with Some p => inl p | None => inr EKey end
      end
  | KeyObj _ | KeyIdOf _ => inr EOther
  end.

Definition lift_sum {A} (x : A + err) : M A := match x with inl v => ret v | inr e => fail e end.

Definition resolve_key (k : key) : M key :=
  match k with
  | KeyIdOf h => x <- the_handle h ;; s <- get_st ;;
                 match entity_id (sto s) (ha x) with
                 | Some i => ret (KeyName i)
                 | None => fail EOther
                 end
  | _ => ret k
  end.

(* container[key] -> a new handle *)
Definition api_lookup (ph : N) (c : ckind) (k0 : key) : M N :=
  p <- the_handle ph ;; k <- resolve_key k0 ;;
  guard (has_container (hk p) c) EOther ;;;
  s <- get_st ;;
  r <- lift_sum (container_get_c (sto s) c (child (sto s) (ha p) (TS (cgroup (hk p) c))) k (hs s)) ;;
  new_handle (mkH (snd r) (ckind_item c) (ha p)
                  (match c, hk p with
                   | CSources, KBlock => ha p        (* a source's owning block *)
                   | CSources, _ => hown2 p
                   | _, _ => hown p
                   end)).

(* the nix parent a link list hands to the items it instantiates: the block
   (LinkContainer._inst_item uses itemstore._parent) *)
Definition api_lookup_link (ph : N) (l : lkind) (k0 : key) : M N :=
  p <- the_handle ph ;; k <- resolve_key k0 ;;
  guard (has_list (hk p) l) EOther ;;;
  s <- get_st ;;
  r <- lift_sum (linklist_get (sto s) (child (sto s) (ha p) (TS (lname l))) k) ;;
  new_handle (mkH (snd r) (lkind_item l) (hown p) (match l with LSources => hown p | _ => 0%nat end)).

(* ---- sections / sources below an entity, breadth first (util/find.py), fuel-bounded *)
Definition sub_entities (s : store) (cn : str) (a : addr) : list addr :=
  map snd (cont_links s (child s a (TS cn))).
Fixpoint bfs_fuel (fuel : nat) (s : store) (cn : str) (queue : list addr) : list addr :=
  match fuel with
  | O => []
  | S f => match queue with
           | [] => []
           | x :: q => x :: bfs_fuel f s cn (q ++ sub_entities s cn x)
           end
  end.
Definition subtree (s : store) (cn : str) (a : addr) : list addr :=
  bfs_fuel (S (length (nodes s))) s cn [a].
Definition ids_of (s : store) (l : list addr) : list tok :=
  flat_map (fun a => match entity_id s a with Some i => [i] | None => [] end) l.

(* del container[key] *)
Definition api_delete (ph : N) (c : ckind) (k0 : key) : M unit :=
  p <- the_handle ph ;; k <- resolve_key k0 ;;
  guard (has_container (hk p) c) EOther ;;;
  s <- get_st ;;
  target <- (match k with
             | KeyObj h => x <- the_handle h ;;
                           (* a Feature is not an Entity: `del tag.features[feature]` goes through
                              self[feature] and is refused with a TypeError - after is_uuid(str(feature)),
                              and Feature.__str__ reads feature.data, which raises RuntimeError when the
                              data link is gone *)
                           guard (negb (ekind_eqb (hk x) KFeature) ||
                                  match child (sto s) (ha x) (TS s_data) with Some _ => true | None => false end) ERuntime ;;;
                           guard (negb (ekind_eqb (hk x) KFeature)) EType ;;;
                           guard (ekind_eqb (hk x) (ckind_item c)) EType ;;; ret (ha x)
             | _ => r <- lift_sum (container_get_c (sto s) c (child (sto s) (ha p) (TS (cgroup (hk p) c))) k (hs s)) ;;
                    ret (snd r)
             end) ;;
  let victims :=
    match c with
    | CSections => ids_of (sto s) (subtree (sto s) s_sections target)
    | CSources => ids_of (sto s) (subtree (sto s) s_sources target ++ [target])
    | _ => ids_of (sto s) [target]
    end in
  wr (fun s0 => delete_all s0 victims).

(* H5Group.delete(name, delete_if_empty): unlink; then, if asked, remove the group itself from
   its parent when it became empty and lies deeper than the root's children *)
Definition group_delete (parent a : addr) (gname : tok) (k : tok) (delete_if_empty : bool) : M unit :=
  wr (fun s => del_link s a k) ;;;
  s <- get_st ;;
  if delete_if_empty && match links (node_at (sto s) a) with [] => true | _ => false end
  then wr (fun s0 => del_link s0 parent gname) else ret tt.

(* Container.__contains__(entity) for LinkContainer.append's `item not in self._itemstore` *)
Definition api_append (ph : N) (l : lkind) (xh : N) : M unit :=
  p <- the_handle ph ;; x <- the_handle xh ;;
  guard (has_list (hk p) l) EOther ;;;
  s <- get_st ;;
  (* hasattr(item, "id") holds for every entity; isinstance test inside __contains__ *)
  (match l with
   | LSources =>
       guard (ekind_eqb (hk x) KSource) ERuntime ;;;
       (* anywhere in the block's source tree, by id *)
       let blk := hown p in
       let all := flat_map (subtree (sto s) s_sources) (sub_entities (sto s) s_sources blk) in
       guard (match entity_id (sto s) (ha x) with
              | Some i => tok_in i (ids_of (sto s) all)
              | None => false end) ERuntime
   | _ =>
       guard (ekind_eqb (hk x) (lkind_item l)) EType ;;;
       guard (store_has_entity (sto s) (hown p) (lkind_store l) (ha x)) ERuntime
   end) ;;;
  match entity_id (sto s) (ha x) with
  | Some i =>
      ca <- wr_ret (fun s0 => ensure_group s0 (ha p) (TS (lname l))) ;;
      wr (fun s0 => add_link s0 ca i (ha x))
  | None => fail EOther
  end.

(* del linklist[key] -> LinkContainer.__delitem__ -> backend.delete(item.id) *)
Definition api_remove (ph : N) (l : lkind) (k0 : key) : M unit :=
  p <- the_handle ph ;; k <- resolve_key k0 ;;
  guard (has_list (hk p) l) EOther ;;;
  s <- get_st ;;
  let c := child (sto s) (ha p) (TS (lname l)) in
  target <- (match k with
             | KeyObj h => x <- the_handle h ;;
                           guard (ekind_eqb (hk x) (lkind_item l)) EType ;;; ret (ha x)
             | _ => r <- lift_sum (linklist_get (sto s) c k) ;; ret (snd r)
             end) ;;
  match c, entity_id (sto s) target with
  | Some ca, Some i =>
      (* backend.delete(id): is_uuid -> get_by_id(id).name : the LINK name of the first child
         with that id *)
      match find_by_id (sto s) i (links (node_at (sto s) ca)) with
      | Some (ln, _) => group_delete (ha p) ca (TS (lname l)) ln true
      | None => fail EKey
      end
  | _, _ => fail EKey
  end.

(* single links *)
Definition api_set_link (ph : N) (r : rkind) (xh : option N) (now : Z) : M unit :=
  p <- the_handle ph ;;
  match r, xh with
  | RMetadata, Some x' =>
      x <- the_handle x' ;;
      guard (negb (ekind_eqb (hk p) KFeature || ekind_eqb (hk p) KProperty || ekind_eqb (hk p) KSection || ekind_eqb (hk p) KFile)) EOther ;;;
      guard (ekind_eqb (hk x) KSection) EType ;;;
      wr (fun s => add_link s (ha p) (TS s_metadata) (ha x))
  | RMetadata, None =>
      (* del x.metadata : if "metadata" in group: group.delete("metadata") *)
      guard (negb (ekind_eqb (hk p) KFeature || ekind_eqb (hk p) KProperty || ekind_eqb (hk p) KSection || ekind_eqb (hk p) KFile)) EOther ;;;
      s <- get_st ;;
      (match child (sto s) (ha p) (TS s_metadata) with
       | Some _ => wr (fun s0 => del_link s0 (ha p) (TS s_metadata))
       | None => ret tt
       end)
  | RPositions, Some x' =>
      x <- the_handle x' ;;
      guard (ekind_eqb (hk p) KMultiTag) EOther ;;;
      (* MultiTag._check_data_array: a DataArray of the multi-tag's own block (membership by NAME + id) *)
      guard (ekind_eqb (hk x) KDataArray) EType ;;;
      ok <- rd (fun s => store_has_entity s (hown p) CDataArrays (ha x)) ;;
      guard ok ERuntime ;;;
      wr (fun s => add_link s (ha p) (TS s_positions) (ha x)) ;;;
      auto_touch_for c_MultiTag s_positions (ha p) now
  | RPositions, None => guard (ekind_eqb (hk p) KMultiTag) EOther ;;; fail EType
  | RExtents, Some x' =>
      x <- the_handle x' ;;
      guard (ekind_eqb (hk p) KMultiTag) EOther ;;;
      guard (ekind_eqb (hk x) KDataArray) EType ;;;
      ok <- rd (fun s => store_has_entity s (hown p) CDataArrays (ha x)) ;;
      guard ok ERuntime ;;;
      wr (fun s => add_link s (ha p) (TS s_extents) (ha x)) ;;;
      auto_touch_for c_MultiTag s_extents (ha p) now
  | RExtents, None =>
      guard (ekind_eqb (hk p) KMultiTag) EOther ;;;
      s <- get_st ;;
      (match child (sto s) (ha p) (TS s_extents) with
       | Some _ => wr (fun s0 => del_link s0 (ha p) (TS s_extents)) ;;; auto_touch_for c_MultiTag s_extents (ha p) now
       | None => fail EKey                     (* del group["extents"] on a missing link *)
       end)
  | RFeatureData, Some x' =>
      x <- the_handle x' ;;
      guard (ekind_eqb (hk p) KFeature) EOther ;;;
      guard (ekind_eqb (hk x) KDataArray || ekind_eqb (hk x) KDataFrame) EType ;;;
      let frame := ekind_eqb (hk x) KDataFrame in
      (* parblock = self._parent._parent: the block of the feature's tag; membership by NAME *)
      ok <- rd (fun s => store_has_entity s (hown2 p) (if frame then CDataFrames else CDataArrays) (ha x)) ;;
      guard ok ERuntime ;;;
      (* a Tagged feature cannot point at a data frame (UnsupportedLinkType) *)
      tagged <- rd (fun s => opt_eqb tok_eqb (attr_tok s (ha p) s_link_type) (Some (TS s_tagged))) ;;
      guard (negb (frame && tagged)) EOther ;;;
      wr (fun s => set_attr s (ha p) s_target_type (Some (AText (TS (if frame then s_DataFrame else s_DataArray))))) ;;;
      wr (fun s => add_link s (ha p) (TS s_data) (ha x)) ;;;
      auto_touch_for c_Feature s_data (ha p) now
  | RFeatureData, None => fail EType
  | RSectionLink, Some x' =>
      x <- the_handle x' ;;
      guard (ekind_eqb (hk p) KSection) EOther ;;;
      guard (ekind_eqb (hk x) KSection) EOther ;;;
      wr (fun s => add_link s (ha p) (TS s_link) (ha x)) ;;;
      auto_touch_for c_Section s_link (ha p) now
  | RSectionLink, None => fail EOther
  end.

(* entity attribute setters *)
Definition api_set_attr (ph : N) (a : akind) (v : option tok) (now : Z) : M unit :=
  p <- the_handle ph ;;
  let k := hk p in
  let is_entity := negb (ekind_eqb k KFile || ekind_eqb k KFeature || ekind_eqb k KProperty) in
  match a with
  | AType =>
      guard is_entity EOther ;;;
      (match v with
       | None => fail EOther                              (* AttributeError *)
       | Some t => wr (fun s => set_attr s (ha p) k_type (Some (AText t))) ;;; auto_touch_for c_Entity k_type (ha p) now
       end)
  | ADefinition =>
      guard is_entity EOther ;;;
      wr (fun s => set_attr s (ha p) k_definition (option_map AText v)) ;;; auto_touch_for c_Entity k_definition (ha p) now
  | ALabel | AUnit =>
      guard (ekind_eqb k KDataArray) EOther ;;;
      wr (fun s => set_attr s (ha p) (aname a) (option_map AText v)) ;;; auto_touch_for c_DataArray (aname a) (ha p) now
  | ARepository | AReference =>
      guard (ekind_eqb k KSection) EOther ;;;
      wr (fun s => set_attr s (ha p) (aname a) (option_map AText v)) ;;; auto_touch_for c_Section (aname a) (ha p) now
  | ALinkType => fail EOther
  end.

(* ---- searches, parents, referring lists (util/find.py, section.py, source.py) *)
Fixpoint tree_of (fuel : nat) (s : store) (cn : str) (a : addr) : tree addr :=
  match fuel with
  | O => T a []
  | S f => T a (map (tree_of f s cn) (sub_entities s cn a))
  end.
Definition tree_depth : nat := 48.
(* the tree below a handle: a File keeps its top-level sections in "metadata" *)
Definition find_tree (s : store) (k : ekind) (a : addr) : tree addr :=
  match k with
  | KFile => T a (map (tree_of tree_depth s s_sections) (sub_entities s s_metadata a))
  | KSection => tree_of tree_depth s s_sections a
  | _ => tree_of tree_depth s s_sources a
  end.
Inductive ffilt := FAll | FName (t : tok) | FType (t : tok).
Definition ffilt_fn (s : store) (f : ffilt) (a : addr) : bool :=
  match f with
  | FAll => true
  | FName t => opt_eqb tok_eqb (entity_name s a) (Some t)
  | FType t => opt_eqb tok_eqb (attr_tok s a k_type) (Some t)
  end.
Definition ids_toks (s : store) (l : list addr) : list wtok := map (fun a => w_opt_tok (entity_id s a)) l.

(* find_sections / find_sources(filtr, limit); limit None = sys.maxsize *)
Definition api_find (ph : N) (limit : option Z) (f : ffilt) : M (list wtok) :=
  p <- the_handle ph ;;
  guard (match hk p with KFile | KBlock | KSection | KSource => true | _ => false end) EOther ;;;
  s <- get_st ;;
  let t := find_tree (sto s) (hk p) (ha p) in
  let lim := match limit with None => size t | Some z => Z.to_nat z end in
  let entity_root := match hk p with KSection | KSource => true | _ => false end in
  ret (ids_toks (sto s) (Bfs.find entity_root t lim (ffilt_fn (sto s) f))).

(* Container.__contains__(entity): a member of that name carrying that id *)
Definition cont_has_entity (s : store) (c : option addr) (x : addr) : bool :=
  match entity_name s x, c with
  | Some n, Some ca =>
      if tok_has_slash n || tok_empty n then false
      else match child s ca n with
           | Some y => opt_eqb tok_eqb (entity_id s y) (entity_id s x)
           | None => false
           end
  | _, _ => false
  end.
Fixpoint flatten {A} (t : tree A) : list A :=       (* pre-order *)
  match t with T a cs => a :: flat_map flatten cs end.

(* Section.parent (breadth-first over the file's sections) *)
Definition section_parent (s : store) (x : addr) : option addr :=
  let tops := sub_entities s s_metadata 0%nat in
  if existsb (fun t => opt_eqb tok_eqb (entity_id s t) (entity_id s x)) tops then None
  else
    let ft := T 0%nat (map (tree_of tree_depth s s_sections) tops) in
    let order := bfs (fsize (kids ft)) (size ft) (tag 1 (kids ft)) in
    List.find (fun sect => cont_has_entity s (child s sect (TS s_sections)) x) order.
(* Source.parent_source: depth-first through the block's sources *)
Definition source_parent (s : store) (blk x : addr) : option addr :=
  if cont_has_entity s (child s blk (TS s_sources)) x then None
  else match entity_id s x with
       | None => None
       | Some i =>
           let pre := flat_map (fun t => flatten (tree_of tree_depth s s_sources t)) (sub_entities s s_sources blk) in
           List.find (fun src => match find_by_id s i (cont_links s (child s src (TS s_sources))) with
                            | Some _ => true | None => false end) pre
       end.

Inductive pkind := PParent | PBlock.
Definition api_parent (ph : N) (w : pkind) : M (list wtok) :=
  p <- the_handle ph ;;
  s <- get_st ;;
  match hk p, w with
  | KSection, PParent => ret [match section_parent (sto s) (ha p) with
                              | Some a => w_opt_tok (entity_id (sto s) a) | None => WNone end]
  | KSource, PParent => ret [match source_parent (sto s) (hown2 p) (ha p) with
                             | Some a => w_opt_tok (entity_id (sto s) a) | None => WNone end]
  | KSource, PBlock => ret [w_opt_tok (entity_id (sto s) (hown2 p))]
  | _, _ => fail EOther
  end.

(* referring_* : the inverse of the metadata / source links *)
Definition blocks_of (s : store) : list addr := sub_entities s s_data 0%nat.
Definition members (s : store) (c : ckind) : list addr :=
  match c with
  | CBlocks => blocks_of s
  (* Section.referring_sources walks blk.find_sources(): breadth first per block *)
  | CSources => flat_map (fun b => let t := find_tree s KBlock b in Bfs.find false t (size t) (fun _ => true)) (blocks_of s)
  | _ => flat_map (fun b => sub_entities s (cname c) b) (blocks_of s)
  end.
Definition api_referring (ph : N) (c : ckind) : M (list wtok) :=
  p <- the_handle ph ;;
  s <- get_st ;;
  match hk p with
  | KSection =>
      guard (match c with CBlocks | CGroups | CDataArrays | CTags | CMultiTags | CSources => true | _ => false end) EOther ;;;
      ret (ids_toks (sto s)
             (filter (fun e => match child (sto s) e (TS s_metadata) with
                               | Some m => opt_eqb tok_eqb (entity_id (sto s) m) (entity_id (sto s) (ha p))
                               | None => false end) (members (sto s) c)))
  | KSource =>
      guard (match c with CDataArrays | CTags | CMultiTags => true | _ => false end) EOther ;;;
      (* block.<container> filtered by `self in x.sources` (link name = id) *)
      ret (ids_toks (sto s)
             (filter (fun e => match entity_id (sto s) (ha p) with
                               | Some i => match link_get i (cont_links (sto s) (child (sto s) e (TS s_sources))) with
                                           | Some _ => true | None => false end
                               | None => false end)
                     (sub_entities (sto s) (cname c) (hown2 p))))
  | _ => fail EOther
  end.

(* Entity.force_created_at(t) / force_updated_at(t) *)
Definition api_force (ph : N) (created : bool) (t : Z) : M unit :=
  p <- the_handle ph ;;
  (* File.force_created_at / force_updated_at exist as well (the root node carries the file's timestamps) *)
  guard (negb (ekind_eqb (hk p) KFeature)) EOther ;;;
  wr (fun s => set_attr s (ha p) (if created then k_created else k_updated) (Some (AInt t))).

(* close + open again: the file content is what it is; all Python objects are gone *)
Definition api_reopen (readonly : bool) : M N :=
  fun s => (mkSt (sto s) [mkH 0%nat KFile 0%nat 0%nat] (auto s) readonly (nid s), inl 0).

(* ---- observation tokens (results of probes, the canonical walk) *)

(* c[key] as tokens: 1, id of the member  /  2, error class *)
Definition res_toks (s : store) (r : (tok * addr) + err) : list wtok :=
  match r with
  | inl (_, a) => [WN 1; w_opt_tok (entity_id s a)]
  | inr e => [WN 2; WN (Z.of_N (err_code e))]
  end.
Definition zrange (lo : Z) (n : nat) : list Z := map (fun i => (lo + Z.of_nat i)%Z) (seq 0 n).

(* the access paths of a Container: len, iteration, c[i] for i in [-len-1, len], and for every
   member c[name], c[id], name in c, id in c *)
Definition probe_container (s : store) (c : option addr) (hsl : list handle) : list wtok :=
  let ls := cont_links s c in
  let n := length ls in
  WN (Z.of_nat n) :: map (fun p => w_opt_tok (entity_id s (snd p))) ls
  ++ flat_map (fun z => res_toks s (container_get s c (KeyPos z) hsl)) (zrange (- Z.of_nat n - 1) (2 * n + 2))
  ++ flat_map (fun p =>
       match entity_name s (snd p), entity_id s (snd p) with
       | Some nm, Some i =>
           res_toks s (container_get s c (KeyName nm) hsl) ++ res_toks s (container_get s c (KeyName i) hsl)
           ++ [b2w (container_has_name s c nm); b2w (container_has_name s c i)]
       | _, _ => [WNone]
       end) ls.

(* LinkContainer.__contains__(str) *)
Definition linklist_has (s : store) (c : option addr) (t : tok) : bool :=
  let ls := cont_links s c in
  match (if is_uuid t then link_get t ls else None) with
  | Some _ => true
  | None => match find_by_name_attr s t ls with Some _ => true | None => false end
  end.
Definition probe_linklist (s : store) (c : option addr) : list wtok :=
  let ls := cont_links s c in
  let n := length ls in
  WN (Z.of_nat n) :: map (fun p => w_opt_tok (entity_id s (snd p))) ls
  ++ flat_map (fun z => res_toks s (linklist_get s c (KeyPos z))) (zrange (- Z.of_nat n - 1) (2 * n + 2))
  ++ flat_map (fun p =>
       match entity_name s (snd p), entity_id s (snd p) with
       | Some nm, Some i =>
           res_toks s (linklist_get s c (KeyName nm)) ++ res_toks s (linklist_get s c (KeyName i))
           ++ [b2w (linklist_has s c nm); b2w (linklist_has s c i)]
       | _, _ => [WNone]
       end) ls.

Definition api_probe (ph : N) (c : ckind) : M (list wtok) :=
  p <- the_handle ph ;;
  guard (has_container (hk p) c) EOther ;;;
  s <- get_st ;;
  ret (probe_container (sto s) (child (sto s) (ha p) (TS (cgroup (hk p) c))) (hs s)).
Definition api_probe_link (ph : N) (l : lkind) : M (list wtok) :=
  p <- the_handle ph ;;
  guard (has_list (hk p) l) EOther ;;;
  s <- get_st ;;
  ret (probe_linklist (sto s) (child (sto s) (ha p) (TS (lname l)))).

(* ---- the copy family: File.create_block / Block.create_data_array, create_tag,
   create_multi_tag (copy_from=...) / File.copy_section / Section.copy_section /
   Section.create_property(copy_from=...), all through H5Group.copy *)
Definition copy_container (dk xk : ekind) : option ckind :=
  match dk, xk with
  | KFile, KBlock => Some CBlocks
  | KBlock, KDataArray => Some CDataArrays
  | KBlock, KDataFrame => Some CDataFrames
  | KBlock, KTag => Some CTags
  | KBlock, KMultiTag => Some CMultiTags
  | KFile, KSection | KSection, KSection => Some CSections
  | KSection, KProperty => Some CProperties
  | _, _ => None
  end.
Definition gen_ids (k : nat) : M N :=
  fun s => (mkSt (sto s) (hs s) (auto s) (ro s) (nid s + N.of_nat k), inl (nid s)).
Definition n_nodes : M nat := rd (fun s => length (nodes s)).
(* the i-th property of the source section, copied into the (shallow) copy [ca]'s properties *)
Fixpoint copy_props (pgrp : addr) (props : list (tok * addr)) (keep : bool) : M unit :=
  match props with
  | [] => ret tt
  | (k, pa) :: rest =>
      a <- wr_ret (fun s => let '(s1, c) := new_node s (hollow (node_at s pa)) in (add_link s1 pgrp k c, c)) ;;
      wr (fun s => set_attr s a k_name (Some (AText k))) ;;;
      (if keep then ret tt
       else id <- gen_id ;; wr (fun s => set_attr s a k_id (Some (AText id)))) ;;;
      copy_props pgrp rest keep
  end.
Definition api_copy (dh xh : N) (name : option tok) (keep children : bool) : M N :=
  d <- the_handle dh ;; x <- the_handle xh ;;
  match copy_container (hk d) (hk x) with
  | None => fail EType
  | Some c =>
      let cg := cgroup (hk d) c in
      let srccg := match hk x with
                   | KSection => if Nat.eqb (hown x) 0 then s_metadata else s_sections
                   | _ => cname c
                   end in
      srcname <- rd (fun s => entity_name s (ha x)) ;;
      match (match name with Some n => Some n | None => srcname end) with
      | None => fail EOther
      | Some name' =>
          (* the duplicate-name test; the block / section variants create the container first *)
          (match hk d with
           | KFile => ret tt
           | _ => ca <- wr_ret (fun s => ensure_group s (ha d) (TS cg)) ;; ret tt
           end) ;;;
          dup <- rd (fun s => in_group s (child s (ha d) (TS cg)) name') ;;
          guard (negb dup) EOther ;;;                              (* NameError *)
          (* H5Group.copy *)
          ca <- wr_ret (fun s => ensure_group s (ha d) (TS cg)) ;;
          src <- rd (fun s => match srcname with
                              | Some sn => match child s (hown x) (TS srccg) with
                                           | Some g => child s g sn
                                           | None => None
                                           end
                              | None => None
                              end) ;;
          match src with
          | None => fail EKey
          | Some sa =>
              n0 <- n_nodes ;;
              let shallow := negb children && ekind_eqb (hk x) KSection in
              a <- wr_ret (fun s => if shallow then h5copy_shallow s sa else (h5copy s, copy_addr s sa)) ;;
              wr (fun s => add_link s ca name' a) ;;;
              wr (fun s => set_attr s a k_name (Some (AText name'))) ;;;
              (if keep then ret tt
               else n1 <- n_nodes ;; base <- gen_ids (n1 - n0) ;; wr (fun s => regen_ids s n0 base)) ;;;
              (if shallow
               then props <- rd (fun s => match child s sa (TS s_properties) with
                                          | Some g => links (node_at s g)
                                          | None => []
                                          end) ;;
                    match props with
                    | [] => ret tt
                    | _ => pg <- wr_ret (fun s => ensure_group s a (TS s_properties)) ;; copy_props pg props keep
                    end
               else ret tt) ;;;
              (* the result is looked up by name in the destination container *)
              s <- get_st ;;
              r <- lift_sum (container_get (sto s) (Some ca) (KeyName name') (hs s)) ;;
              new_handle (mkH (snd r) (hk x) (ha d) (hown d))
          end
      end
  end.

(* ---- the operation alphabet of histories *)
Inductive op :=
| OCreate (p : N) (c : ckind) (name type : tok) (payload : list Z)
| OCreateMTag (p : N) (name type : tok) (pos : N)
| OCreateFeature (t d : N) (ltype : tok)
| OLookup (p : N) (c : ckind) (k : key)
| OLookupLink (p : N) (l : lkind) (k : key)
| ODelete (p : N) (c : ckind) (k : key)
| OAppend (p : N) (l : lkind) (x : N)
| ORemove (p : N) (l : lkind) (k : key)
| OSetLink (p : N) (r : rkind) (x : option N)
| OSetAttr (p : N) (a : akind) (v : option tok)
| OForce (p : N) (created : bool) (t : Z)
| OFind (p : N) (limit : option Z) (f : ffilt)
| OParent (p : N) (w : pkind)
| OReferring (p : N) (c : ckind)
| OProbe (p : N) (c : ckind)
| OProbeLink (p : N) (l : lkind)
| OCopy (d x : N) (name : option tok) (keep children : bool)
| OSetAuto (b : bool)
| OReopen (readonly : bool).

(* result of an op: ok (with the number of the new handle, if any) or an error class *)
Inductive ores := ROk (h : option N) | RToks (l : list wtok) | RErr (e : err).

(* in a read-only session every failure counts as "refused because read-only" *)
Definition err_in (s : st) (e : err) : err := if ro s then EReadOnly else e.
Definition wrapN (m : M N) : st -> st * ores :=
  fun s => match m s with (s', inl h) => (s', ROk (Some h)) | (s', inr e) => (s', RErr (err_in s e)) end.
Definition wrapU (m : M unit) : st -> st * ores :=
  fun s => match m s with (s', inl _) => (s', ROk None) | (s', inr e) => (s', RErr (err_in s e)) end.

Definition wrapT (m : M (list wtok)) : st -> st * ores :=
  fun s => match m s with (s', inl l) => (s', RToks l) | (s', inr e) => (s', RErr (err_in s e)) end.

Definition exec (o : op) (now : Z) : st -> st * ores :=
  match o with
  | OCreate p c n t d => wrapN (api_create p c n t d now)
  | OCreateMTag p n t pos => wrapN (api_create_mtag p n t pos now)
  | OCreateFeature t d l => wrapN (api_create_feature t d l now)
  | OLookup p c k => wrapN (api_lookup p c k)
  | OLookupLink p l k => wrapN (api_lookup_link p l k)
  | ODelete p c k => wrapU (api_delete p c k)
  | OAppend p l x => wrapU (api_append p l x)
  | ORemove p l k => wrapU (api_remove p l k)
  | OSetLink p r x => wrapU (api_set_link p r x now)
  | OSetAttr p a v => wrapU (api_set_attr p a v now)
  | OForce p c t => wrapU (api_force p c t)
  | OFind p l f => wrapT (api_find p l f)
  | OParent p w => wrapT (api_parent p w)
  | OReferring p c => wrapT (api_referring p c)
  | OProbe p c => wrapT (api_probe p c)
  | OProbeLink p l => wrapT (api_probe_link p l)
  | OCopy d x n k c => wrapN (api_copy d x n k c)
  | OSetAuto b => fun s => (mkSt (sto s) (hs s) b (ro s) (nid s), ROk None)
  | OReopen r => wrapN (api_reopen r)
  end.

(* a fresh file: root with "data" and "metadata" *)
(* File.__init__ stamps a new file with the clock (the histories create it at second [file_birth]) *)
Definition file_birth : Z := 1000.
Definition init_store : store :=
  let s0 := mkStore [empty_node] in
  let '(s1, _) := ensure_group s0 0%nat (TS s_data) in
  let '(s2, _) := ensure_group s1 0%nat (TS s_metadata) in
  set_attr (set_attr s2 0%nat k_created (Some (AInt file_birth))) 0%nat k_updated (Some (AInt file_birth)).
Definition init_st : st := mkSt init_store [mkH 0%nat KFile 0%nat 0%nat] true false 0.

(* run a history; the clock of op number i is [t0 + i] *)
Fixpoint run_from (ops : list op) (now : Z) (s : st) : st * list ores :=
  match ops with
  | [] => (s, [])
  | o :: rest => let '(s1, r) := exec o now s in
                 let '(s2, rs) := run_from rest (now + 1)%Z s1 in (s2, r :: rs)
  end.
