(* Pure/SlicesCheck.v -- correspondence / oracle for C06. *)
From Coq Require Import ZArith List Bool.
From NixV Require Import Base.Prelude Pure.Slices.
Import ListNotations.
Open Scope Z_scope.

Definition zl_eqb := list_eqb Z.eqb.
(* what a read returns: refused | (shape, the flat offsets of the cells, row-major); a single
   element comes back as a one-element array *)
Inductive rres := RRefused | RData (shape cells : list Z) | RInvalid.
Definition rres_eqb (a b : rres) : bool :=
  match a, b with
  | RRefused, RRefused | RInvalid, RInvalid => true
  | RData s c, RData s' c' => zl_eqb s s' && zl_eqb c c'
  | _, _ => false
  end.
Definition of_sels (shape : list Z) (r : list axsel + ierr) : rres :=
  match r with
  | inr _ => RRefused
  | inl sels => let '(rs, cells) := gather shape sels in
                RData (match rs with [] => [1] | _ => rs end) cells
  end.

Definition model_read (shape : list Z) (e : list ix) : rres := of_sels shape (np_norm shape e).

Definition widths (w : list (Z * Z)) : list Z := map (fun p => snd p - fst p) w.
Fixpoint shift_all (w : list (Z * Z)) (l : list axsel) : list axsel :=
  match w, l with
  | (a, _) :: wr, s :: lr => shift a s :: shift_all wr lr
  | _, _ => []
  end.
Definition model_view_read (shape : list Z) (pe : list (Z * Z)) (e : list ix) : rres :=
  match view_window shape pe with
  | None => RInvalid
  | Some w => of_sels shape (view_norm w e)
  end.
(* the specification: NumPy applied to the window's own sub-array, cells named by their offsets
   in the parent *)
Definition spec_view_read (shape : list Z) (pe : list (Z * Z)) (e : list ix) : rres :=
  match view_window shape pe with
  | None => RInvalid
  | Some w => of_sels shape (match np_norm (widths w) e with
                             | inl l => inl (shift_all w l)
                             | inr x => inr x
                             end)
  end.

Definition read_case := (list Z * list ix * rres)%type.
Definition check_read (c : read_case) : N :=
  let '(shape, e, r) := c in vcode (rres_eqb (model_read shape e) r) (rres_eqb (model_read shape e) r).
Definition view_case := (list Z * list (Z * Z) * list ix * rres)%type.
Definition check_view (c : view_case) : N :=
  let '(shape, pe, e, r) := c in
  vcode (rres_eqb (model_view_read shape pe e) r) (rres_eqb (spec_view_read shape pe e) r).
