(* Pure/UpgradeCheck.v -- correspondence / oracle for C18. *)
From NixV Require Import Base.Prelude Gen.FileConsts Pure.Version Pure.Upgrade.
Open Scope Z_scope.

Definition zl_eqb := list_eqb Z.eqb.
Definition sl_eqb := list_eqb streq.
Definition ostr_eqb := opt_eqb streq.
Definition dval_eqb (a b : dval) : bool :=
  match a, b with DZ x, DZ y => zl_eqb x y | DS x, DS y => sl_eqb x y | _, _ => false end.
Definition extras_eqb (a b : extras) : bool :=
  zl_eqb (x_unc a) (x_unc b) && sl_eqb (x_ref a) (x_ref b) && sl_eqb (x_file a) (x_file b)
  && sl_eqb (x_enc a) (x_enc b) && sl_eqb (x_chk a) (x_chk b).
Definition pstate_eqb (a b : pstate) : bool :=
  match a, b with
  | POld v u d x, POld v' u' d' x' => zl_eqb v v' && ostr_eqb u u' && ostr_eqb d d' && extras_eqb x x'
  | PNew v u d ua ud, PNew v' u' d' ua' ud' =>
      zl_eqb v v' && ostr_eqb u u' && ostr_eqb d d' && opt_eqb Z.eqb ua ua'
      && list_eqb (fun p q => N.eqb (fst p) (fst q) && dval_eqb (snd p) (snd q)) ud ud'
  | _, _ => false
  end.
Definition dstate_eqb (a b : dstate) : bool :=
  match a, b with DAlias, DAlias | DLinked, DLinked | DTicks, DTicks => true | _, _ => false end.
Definition ufile_eqb (a b : ufile) : bool :=
  zl_eqb (ver a) (ver b) && Bool.eqb (has_id a) (has_id b)
  && list_eqb pstate_eqb (props a) (props b) && list_eqb dstate_eqb (dims a) (dims b).

(* a case: the old file, the number n of micro-steps completed before the interruption, the
   file the implementation left behind, the file after running the upgrade again, and whether
   collect_tasks then finds nothing left *)
Definition upgrade_case := (ufile * nat * ufile * ufile * bool)%type.
Definition check_upgrade (c : upgrade_case) : N :=
  let '(f, n, after_cut, after_resume, nothing_left) := c in
  let steps := collect f in
  vcode (ufile_eqb (run f (firstn n steps)) after_cut && ufile_eqb (upgrade f) after_resume)
        ((* the specification, independent of the task machine *)
         (if up_to_date f then ufile_eqb after_resume f else ufile_eqb after_resume (final f))
         && nothing_left
         && (Nat.leb (length steps) n || zl_eqb (ver after_cut) (ver f))).
