(* Proofs/CreateProofs.v -- C03: what a creating call does when it succeeds and when the name
   is taken. *)
From NixV Require Import Base.Prelude H5.Store Nix.Api Proofs.StoreLemmas Proofs.DeleteProofs.
From Coq Require Import Lia.
Open Scope N_scope.

Definition legal (name type : tok) : Prop :=
  tok_empty name = false /\ tok_has_slash name = false /\ tok_empty type = false.

Lemma check_ok name type s : legal name type -> check_name_type name type s = (s, inl tt).
Proof. intros [H1 [H2 H3]]. unfold check_name_type, bind, guard. rewrite H1, H2, H3. reflexivity. Qed.

(* a second entity under an existing name is refused with a duplicate-name error and nothing
   changes (block-level containers) *)
Theorem dup_refused ph c name type d now s p :
  nth_error (hs s) (N.to_nat ph) = Some p -> hk p = KBlock ->
  (c = CGroups \/ c = CDataArrays \/ c = CTags) -> legal name type ->
  in_group (sto s) (child (sto s) (ha p) (TS (cname c))) name = true ->
  api_create ph c name type d now s = (s, inr EDup).
Proof.
  intros Hp Hk Hc Hl Hin. unfold api_create. unfold bind at 1. unfold the_handle. rewrite Hp, Hk.
  destruct Hc as [->|[->| ->]]; cbn [has_container guard cgroup cname]; unfold bind at 1; cbn [ret];
    unfold bind at 1; rewrite (check_ok _ _ _ Hl); unfold bind at 1; unfold rd; cbn [cname] in Hin;
    rewrite Hin; reflexivity.
Qed.

(* Entity.create_new when it succeeds: the id is the next one of the supply (never used
   before), the group carries that id, the given (or generated) name and the type, and it is
   the child of that name in the container *)
Theorem entity_create_new_ok pa cg name type now s s' a i :
  wf (sto s) ->
  entity_create_new pa cg name type now s = (s', inl (a, i)) ->
  i = TI (nid s) /\ nid s' = N.succ (nid s) /\ hs s' = hs s /\
  entity_id (sto s') a = Some i /\
  get_attr (sto s') a k_type = Some (AText type) /\
  entity_name (sto s') a = Some (if tok_empty name then i else name).
Proof.
  unfold entity_create_new. intros W H.
  apply bind_inv in H. destruct H as [s1 [id [H1 H]]].
  unfold gen_id in H1. injection H1 as <- <-.
  apply bind_inv in H. destruct H as [s2 [u [H2 H]]].
  assert (S2 : s2 = mkSt (sto s) (hs s) (auto s) (ro s) (N.succ (nid s))).
  { unfold check_name_type in H2.
    apply bind_inv in H2. destruct H2 as [x1 [u1 [G1 H2]]]. apply guard_inv in G1. destruct G1 as [-> _].
    apply bind_inv in H2. destruct H2 as [x2 [u2 [G2 H2]]]. apply guard_inv in G2. destruct G2 as [-> _].
    apply guard_inv in H2. tauto. }
  subst s2.
  apply bind_inv in H. destruct H as [s3 [ca [H3 H]]].
  apply bind_inv in H. destruct H as [s4 [a' [H4 H]]].
  apply bind_inv in H. destruct H as [s5 [u5 [H5 H]]].
  apply bind_inv in H. destruct H as [s6 [u6 [H6 H]]].
  apply bind_inv in H. destruct H as [s7 [u7 [H7 H]]].
  apply bind_inv in H. destruct H as [s8 [u8 [H8 H]]].
  apply bind_inv in H. destruct H as [s9 [u9 [H9 H]]].
  apply ret_inv in H. destruct H as [-> E]. injection E as Ea Ei. subst a i.
  unfold wr_ret in H3. cbn [ro sto hs auto nid] in H3. destruct (ro s) eqn:Hro; [discriminate|].
  destruct (ensure_group (sto s) pa (TS cg)) as [st3 ca3] eqn:E3. injection H3 as <- <-.
  unfold wr_ret in H4. cbn [ro sto hs auto nid] in H4.
  set (nm := if tok_empty name then TI (nid s) else name) in *.
  destruct (ensure_group st3 ca3 nm) as [st4 a4] eqn:E4. injection H4 as <- <-.
  apply wr_inv in H5. destruct H5 as [_ ->]. cbn [ro sto hs auto nid] in *.
  apply wr_inv in H6. destruct H6 as [_ ->]. cbn [ro sto hs auto nid] in *.
  apply wr_inv in H7. destruct H7 as [_ ->]. cbn [ro sto hs auto nid] in *.
  unfold touch_created in H8. apply wr_inv in H8. destruct H8 as [_ ->]. cbn [ro sto hs auto nid] in *.
  unfold touch_updated in H9. apply wr_inv in H9. destruct H9 as [_ ->]. cbn [ro sto hs auto nid].
  destruct (ensure_group_wf _ _ _ _ _ W E3) as [W3 [L3 _]].
  destruct (ensure_group_wf _ _ _ _ _ W3 E4) as [W4 [L4 _]].
  split; [reflexivity|]. split; [reflexivity|]. split; [reflexivity|].
  unfold entity_id, entity_name, attr_tok.
  rewrite !(get_attr_set_other _ a4 k_updated) by (right; discriminate).
  rewrite !(get_attr_set_other _ a4 k_created) by (right; discriminate).
  split; [|split].
  - rewrite get_attr_set_same by (rewrite !length_set_attr; exact L4). reflexivity.
  - rewrite get_attr_set_other by (right; discriminate).
    rewrite get_attr_set_same by (rewrite !length_set_attr; exact L4). reflexivity.
  - rewrite get_attr_set_other by (right; discriminate).
    rewrite get_attr_set_other by (right; discriminate).
    rewrite get_attr_set_same by exact L4. reflexivity.
Qed.
