"""C07 -- dimension descriptors map positions to sample indices by order, exactly."""
import itertools
import math
import os
import random
import sys
from fractions import Fraction

sys.path.insert(0, os.path.dirname(os.path.dirname(os.path.abspath(__file__))))
import core  # noqa: E402
from coqlit import cQ, cZ, cnat, clist  # noqa: E402

ID = "C07"
THEOREMS = [
    "c07_sampled_index_of", "c07_sampled_range", "c07_sampled_roundtrip", "c07_sampled_axis", "c07_sampled_axis_at", "c07_sampled_axis_at_sample",
    "c07_ticks_index_of", "c07_ticks_range", "c07_ticks_roundtrip",
    "c07_set_index_of", "c07_set_range",
    "c07_oracle_sound", "c07_sampled_band_refuted",
]
HEADER = ("From Coq Require Import QArith ZArith List.\n"
          "From NixV Require Import Base.Prelude Pure.Dims Pure.DimsCheck.\nImport ListNotations.\n")
MODE = {"less": "Less", "leq": "Leq", "geq": "Geq"}
SMODE = {"excl": "Exclusive", "incl": "Inclusive"}
ATOL = Fraction(1, 10 ** 8)
RTOL = Fraction(1, 10 ** 5)


def fr(x):
    return Fraction(float(x))


def w(x):
    f = fr(x)
    return [f.numerator, f.denominator]


def q(x):
    return cQ(Fraction(x[0], x[1]))


def round_half_even(x):
    f = math.floor(x)
    d = x - f
    if d < Fraction(1, 2):
        return f
    if d > Fraction(1, 2):
        return f + 1
    return f if f % 2 == 0 else f + 1


def borderline(x, idx):
    """float evaluation of (p-off)/itv may fall on the other side of the isclose edge"""
    d = abs(x - idx)
    tol = ATOL + RTOL * abs(idx)
    eps = Fraction(1, 10 ** 11) * (1 + abs(idx))
    # the isclose edge, and the round-half point (np.round of the float may go the other way)
    return abs(d - tol) < eps or abs(d - Fraction(1, 2)) < eps


def optz(r):
    if r[0] == "some":
        return "(Some %s)" % cZ(r[1])
    if r[0] == "none":
        return "(@None Z)"
    return None


def rres(r):
    if r[0] == "some":
        return "(RSome %s %s)" % (cZ(r[1]), cZ(r[2]))
    if r[0] == "none":
        return "RNone"
    if r[0] == "raise":
        return "RRaise"
    return None


def ulp_neighbours(x):
    import numpy as np
    return [float(np.nextafter(x, -np.inf)), float(np.nextafter(x, np.inf))]


def run(ctx):
    rnd = random.Random(ctx.seed)
    thorough = ctx.tier == "thorough"
    st = core.proof_stage(ctx, [], ["Pure/DimsCheck.vo", "Pure/DimLinkCheck.vo", "Props/C07.vo"], "Props/C07.v", THEOREMS)
    ctx.trusted_base = [
        "Coq 8.16.1 kernel (QArith, lra/lia); no native_compute",
        "hand-written model Pure/Dims.v of index_of/range_indices/position_at/axis/tick_at for the three dimension kinds, "
        "tied to nixio/dimensions.py by correspondence on exact rationals of the float inputs (this run)",
        "numpy: np.round = round-half-even, np.isclose(a,b) = |a-b| <= 1e-8 + 1e-5|b|, np.floor, np.where order",
        "IEEE rounding of (position-offset)/interval is not modelled: inputs whose exact value lies within 1e-11 relative "
        "of the isclose edge are skipped and counted",
    ]
    ctx.assumptions = ["sampling interval > 0; ticks ascending; interval queries with start <= end for range/set dimensions",
                       "every property theorem: Closed under the global context"]

    offs = [0.0, 0.5, -0.5, 0.25, 3.0, -0.375, 17.125, -4.0, 0.1, -0.4, 0.3, 2.7, 1e-3, -1e-3, 100.0]
    itvs = [1.0, 0.5, 0.25, 2.0, 0.125, 3.0, 0.1, 0.3, 1e-3, 2.5, 7.0, 1e-6, 1024.0]
    n_desc = 400 if thorough else 40
    per = 60 if thorough else 30
    sampled, sampled_range, skipped = [], [], 0
    descs = [(0.0, 1.0), (-0.4, 0.1), (3.0, 2.0), (0.0, 0.1)] + [(rnd.choice(offs), rnd.choice(itvs)) for _ in range(n_desc)]
    for off, itv in descs:
        pts = []
        for _ in range(per):
            r = rnd.random()
            i = rnd.choice([0, 0, 1, 2, 3, 7, 10, 50, 999, 1000, 60000]) if r < 0.5 else rnd.randint(0, 40)
            base = i * itv + off
            k = rnd.random()
            if k < 0.3:
                p = base
            elif k < 0.45:
                p = base + itv * rnd.choice([0.5, 0.25, 0.75, 0.001, 0.999])
            elif k < 0.55:
                p = rnd.choice(ulp_neighbours(base))
            elif k < 0.65:
                p = off - itv * rnd.choice([0.5, 1.0, 3.25, 1e-9])
            elif k < 0.75:
                p = base + itv * rnd.choice([1e-9, -1e-9, 4e-3, -4e-3, 1e-7])   # band
            elif k < 0.85:
                p = off if rnd.random() < 0.5 else 0.0
            else:
                p = rnd.uniform(off - 2 * itv, off + 45 * itv)
            pts.append(float(p))
        for p in pts:
            x = (fr(p) - fr(off)) / fr(itv)
            if borderline(x, round_half_even(x)):
                skipped += 1
                continue
            for m in ("less", "leq", "geq"):
                sampled.append((w(off), w(itv), w(p), m))
        for _ in range(per // 3):
            a, b = rnd.choice(pts), rnd.choice(pts)
            if rnd.random() < 0.8 and a > b:
                a, b = b, a
            xs = [(fr(v) - fr(off)) / fr(itv) for v in (a, b)]
            if any(borderline(x, round_half_even(x)) for x in xs):
                skipped += 1
                continue
            sampled_range.append((w(off), w(itv), w(a), w(b), rnd.choice(["excl", "incl"])))
    # round trip on dyadic descriptors (float arithmetic exact)
    dy_offs = [0.0, 0.5, -0.5, 0.25, 3.0, -0.375, 17.125, -4.0]
    dy_itvs = [1.0, 0.5, 0.25, 2.0, 0.125, 3.0, 1024.0]
    roundtrip = [(w(o), w(i), k) for o in dy_offs for i in dy_itvs for k in (0, 1, 2, 5, 63, 1000, 65537)]
    if not thorough:
        roundtrip = rnd.sample(roundtrip, 120)

    # ticks
    grid = [-2.0, -0.5, 0.0, 0.25, 1.0, 1.5, 4.0]
    tick_vectors = []
    if thorough:
        for n in range(1, 6):
            tick_vectors += [list(c) for c in itertools.combinations_with_replacement(grid, n)]
    else:
        for n in range(1, 5):
            allv = [list(c) for c in itertools.combinations_with_replacement(grid, n)]
            tick_vectors += rnd.sample(allv, min(len(allv), 12))
    for _ in range(200 if thorough else 25):
        n = rnd.randint(1, 12)
        v = sorted(rnd.choice([rnd.uniform(-5, 5), float(rnd.randint(-3, 3)), rnd.choice([0.1, 0.2, 0.3])]) for _ in range(n))
        tick_vectors.append(v)
    ticks_req = []
    for v in tick_vectors:
        cand = set(v)
        for a, b in zip(v, v[1:]):
            cand.add((a + b) / 2)
        cand.update([v[0] - 1, v[-1] + 1, v[0] - 1e-9, v[-1] + 1e-9])
        for t in list(v)[:3]:
            cand.update(ulp_neighbours(t))
        cand = sorted(cand)
        qs = [(w(p), m) for p in cand for m in ("less", "leq", "geq")]
        rs = []
        for _ in range(12):
            a, b = rnd.choice(cand), rnd.choice(cand)
            if rnd.random() < 0.85 and a > b:
                a, b = b, a
            rs.append((w(a), w(b), rnd.choice(["excl", "incl"])))
        ticks_req.append(([w(t) for t in v], qs, rs))
    # sets
    sets_req = []
    for n in range(0, 7):
        cand = set()
        for i in range(-1, n + 3):
            cand.update([float(i), i + 0.5, i + 1e-9, i - 1e-9, i + 0.999])
            cand.update(ulp_neighbours(float(i)))
        cand = sorted(cand)
        if not thorough:
            cand = rnd.sample(cand, min(30, len(cand)))
        qs = [(w(p), m) for p in cand for m in ("less", "leq", "geq")]
        rs = []
        for _ in range(60 if thorough else 20):
            a, b = rnd.choice(cand), rnd.choice(cand)
            if rnd.random() < 0.85 and a > b:
                a, b = b, a
            rs.append((w(a), w(b), rnd.choice(["excl", "incl"])))
        sets_req.append((n, qs, rs))

    impl = ctx.run_impl("impl_dims.py", {"sampled": sampled, "sampled_range": sampled_range,
                                         "roundtrip": roundtrip, "ticks": ticks_req, "sets": sets_req})
    streams = []   # (name, type, fn, terms, inputs, results)
    odd = []       # results the wire format cannot carry (unexpected exceptions)

    def add(name, ty, fn, items):
        terms, inputs, results = [], [], []
        for term, inp, res in items:
            if term is None:
                odd.append((name, inp, res))
                continue
            terms.append(term)
            inputs.append(inp)
            results.append(res)
        streams.append((name, ty, fn, terms, inputs, results))

    add("sampled", "sampled_case", "check_sampled", [
        (None if optz(r) is None else "(%s, %s, %s, %s, %s)" % (q(c[0]), q(c[1]), q(c[2]), MODE[c[3]], optz(r)),
         {"offset": float(Fraction(*c[0])), "interval": float(Fraction(*c[1])), "position": float(Fraction(*c[2])), "mode": c[3]}, r)
        for c, r in zip(sampled, impl["sampled"])])
    add("sampled_range", "sampled_range_case", "check_sampled_range", [
        (None if rres(r) is None else "(%s, %s, %s, %s, %s, %s)" % (q(c[0]), q(c[1]), q(c[2]), q(c[3]), SMODE[c[4]], rres(r)),
         {"offset": float(Fraction(*c[0])), "interval": float(Fraction(*c[1])), "start": float(Fraction(*c[2])),
          "end": float(Fraction(*c[3])), "mode": c[4]}, r)
        for c, r in zip(sampled_range, impl["sampled_range"])])
    add("roundtrip", "roundtrip_case", "check_roundtrip", [
        (None if None in (optz(r[1]), optz(r[2]), optz(r[3])) else
         "(%s, %s, %s, (%s, %s, %s, %s))" % (q(c[0]), q(c[1]), cZ(c[2]), q(r[0]), optz(r[1]), optz(r[2]), optz(r[3])),
         {"offset": float(Fraction(*c[0])), "interval": float(Fraction(*c[1])), "index": c[2]}, r)
        for c, r in zip(roundtrip, impl["roundtrip"])])
    # axes started by position / by nothing / by index 0: the model's answer (Pure/Dims.v sampled_axis_at, sampled_axis)
    ax_items = []
    for c, r in zip(roundtrip, impl["roundtrip"]):
        for how, p, res in r[5]:
            inp = {"offset": float(Fraction(*c[0])), "interval": float(Fraction(*c[1])), "started_by": how,
                   "start_position": None if p is None else float(Fraction(*p))}
            if isinstance(res, str) and res != "ValueError":
                ax_items.append((None, inp, res))
                continue
            pt = "(Some %s)" % q(p) if how == "position" else "None"
            rt = "None" if res == "ValueError" else "(Some %s)" % clist([q(a) for a in res], "Q")
            ax_items.append(("(%s, %s, %s, %s)" % (q(c[0]), q(c[1]), pt, rt), inp, res))
    add("axis_at", "axis_at_case", "check_axis_at", ax_items)
    # axis check (python side of the tie: axis(3, start=i)[k] == position_at(i+k) on dyadic inputs)
    for c, r in zip(roundtrip, impl["roundtrip"]):
        off, itv, i = Fraction(*c[0]), Fraction(*c[1]), c[2]
        want = [(i + k) * itv + off for k in range(3)]
        got = [Fraction(*a) for a in r[4]]
        if want != got:
            odd.append(("axis", {"offset": float(off), "interval": float(itv), "start": i}, [float(g) for g in got]))
        # an axis started by position begins AT that position (refused before the offset); without a start, or with
        # start index 0 (which wins over a position), at the offset
        for how, p, res in r[5]:
            if how == "position":
                pq = Fraction(*p)
                wantv = "ValueError" if pq < off else [pq + k * itv for k in range(3)]
            else:
                wantv = [off + k * itv for k in range(3)]
            gotv = res if isinstance(res, str) else [Fraction(*a) for a in res]
            if wantv != gotv:
                odd.append(("axis started by " + how, {"offset": float(off), "interval": float(itv),
                                                         "start_position": None if p is None else float(Fraction(*p))},
                            res if isinstance(res, str) else [float(g) for g in gotv]))
    t_items, tr_items = [], []
    for (ticks, qs, rs), (one, two, extra) in zip(ticks_req, impl["ticks"]):
        tl = clist([q(t) for t in ticks], "Q")
        tf = [float(Fraction(*t)) for t in ticks]
        if extra["stored"] != ticks or extra["tick_at"] != ticks or extra["axis"] != ticks:
            odd.append(("ticks_stored", tf, extra))
        for (p, m), r in zip(qs, one):
            t_items.append((None if optz(r) is None else "(%s, %s, %s, %s)" % (tl, q(p), MODE[m], optz(r)),
                            {"ticks": tf, "position": float(Fraction(*p)), "mode": m}, r))
        for (a, b, m), r in zip(rs, two):
            tr_items.append((None if rres(r) is None else "(%s, %s, %s, %s, %s)" % (tl, q(a), q(b), SMODE[m], rres(r)),
                             {"ticks": tf, "start": float(Fraction(*a)), "end": float(Fraction(*b)), "mode": m}, r))
    add("ticks", "ticks_case", "check_ticks", t_items)
    add("ticks_range", "ticks_range_case", "check_ticks_range", tr_items)
    s_items, sr_items = [], []
    for (n, qs, rs), (one, two, nl) in zip(sets_req, impl["sets"]):
        if nl != n:
            odd.append(("set_labels", n, nl))
        for (p, m), r in zip(qs, one):
            s_items.append((None if optz(r) is None else "(%s, %s, %s, %s)" % (cnat(n), q(p), MODE[m], optz(r)),
                            {"labels": n, "position": float(Fraction(*p)), "mode": m}, r))
        for (a, b, m), r in zip(rs, two):
            sr_items.append((None if rres(r) is None else "(%s, %s, %s, %s, %s)" % (cnat(n), q(a), q(b), SMODE[m], rres(r)),
                             {"labels": n, "start": float(Fraction(*a)), "end": float(Fraction(*b)), "mode": m}, r))
    add("set", "set_case", "check_set", s_items)
    add("set_range", "set_range_case", "check_set_range", sr_items)

    model_ok = core.vo_ok("Pure/DimsCheck.v")
    failures, disagreements, band = [], [], []
    if model_ok:
        for name, ty, fn, terms, inputs, results in streams:
            verd, errs = core.eval_verdicts(ctx.workdir, HEADER, ty, fn, terms, tag=name, shard_size=1200)
            for e in errs:
                st["broken"].append("model evaluation failed (%s): %s" % (name, e))
            for i, code in verd:
                if code & 2:
                    failures.append((name, inputs[i], results[i]))
                elif code & 4:
                    band.append((name, inputs[i], results[i]))
                if code & 1 and not code & 6:
                    disagreements.append((name, inputs[i], results[i]))
    else:
        st["broken"].append("model Pure/DimsCheck.v does not build")
    for name, inp, res in odd:
        failures.append((name, inp, res))

    kf = core.load_known(ID)
    kf_band = [e for e in kf if e.get("match") == "isclose_band"]
    if band and not kf_band:
        failures.extend(band)
    for e in kf_band:
        wv = e["witness"]
        r = ctx.run_impl("impl_dims.py", {"sampled": [(w(wv["offset"]), w(wv["interval"]), w(wv["position"]), wv["mode"])]})["sampled"][0]
        if r != ["some", wv["exact_answer"]]:
            ctx.known_hits.append("%s (witness offset=%s interval=%s index_of(%s, %s) -> %s, by order: %s; %d band inputs in this run)"
                                  % (e["what"], wv["offset"], wv["interval"], wv["position"], wv["mode"], r[1:], wv["exact_answer"], len(band)))
    if failures:
        failures.sort(key=lambda x: len(repr(x[1])))
        name, inp, res = failures[0]
        rp = ctx.write_replay("%s-seed%d.json" % (ID, ctx.seed), {
            "property": ID, "kind": "implementation violates the order-based specification on a concrete input",
            "stream": name, "input": inp, "implementation_returned": res,
            "more_failing_inputs": failures[1:25], "count": len(failures), "broken_obligations": st["broken"]})
        ctx.violation("%d inputs violate C07, smallest: %s %r -> %r" % (len(failures), name, inp, res), rp)
    elif disagreements:
        disagreements.sort(key=lambda x: len(repr(x[1])))
        st["broken"].append("correspondence: model and implementation disagree on %d inputs, e.g. %s %r -> impl %r"
                            % (len(disagreements), disagreements[0][0], disagreements[0][1], disagreements[0][2]))
    total = sum(len(s[3]) for s in streams)
    ctx.coverage.update({
        "evaluations": total,
        "distinct_nontrivial": len(set(repr(x) for s in streams for x in s[4])),
        "rule": "descriptors from dyadic and decimal pools (negative/zero/fractional offsets, intervals 1e-6..1024); positions on, "
                "between, before, after samples, +-1 ulp, inside the np.isclose band, large indices; tick vectors: ascending "
                "multisets over a 7-value grid (%s) + random vectors of length 1-12 with repeats, queried at every tick, midpoint, "
                "outside and +-1 ulp; set dimensions with 0-6 labels; all three index modes, both interval modes; every case is "
                "non-trivial (a descriptor plus a query); distinct = distinct (descriptor, query) inputs" %
                ("all of length <= 5, exhaustive" if thorough else "random sample"),
        "streams": {s[0]: len(s[3]) for s in streams},
        "skipped_float_borderline": skipped, "band_inputs": len(band),
        "disagreements": len(disagreements), "spec_failures": len(failures),
        "samples": [streams[0][4][0], streams[1][4][0], streams[3][4][0], streams[5][4][0]],
        "exhaustive": False,
    })
    # ---- dimensions whose ticks / labels come through a link convert positions exactly like dimensions that hold the
    # same values themselves (differential, inside the dimension-link histories shared with C05 / C12)
    if True:
        import dimlink
        cov = dimlink.stage(ctx, st, 400 if thorough else 60, 12, [])
        ctx.coverage["linked_dimension_histories"] = cov["dimension_histories"]
        ctx.coverage["linked_dimension_failures"] = cov["dimension_failures"]
        ctx.coverage["rule"] += ("; plus histories on LINKED range and set dimensions: after every call index_of (3 modes) and "
                                 "range_indices (2 modes) at every sample, midpoint and outside are compared with an unlinked "
                                 "dimension holding the same ticks / labels")
    return st
