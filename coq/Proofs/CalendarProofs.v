(* Proofs/CalendarProofs.v -- C19: every whole second between 1970 and 2100 survives
   time_to_str followed by str_to_time. *)
From NixV Require Import Base.Prelude Gen.Touch Pure.Calendar.
From Coq Require Import Lia.
Open Scope Z_scope.

(* ---- days <-> civil, by an exhaustive kernel-checked sweep over the 47 482 days of
   1970-01-01 .. 2099-12-31, lifted to a forall *)
Definition day_ok (d : Z) : bool :=
  let '(y, m, dd) := civil_from_days d in
  (days_from_civil (y, m, dd) =? d) && (1970 <=? y) && (y <? 2100) && (1 <=? m) && (m <=? 12)
  && (1 <=? dd) && (dd <=? 31).
Fixpoint all_from (n : nat) (d : Z) : bool :=
  match n with O => true | S k => day_ok d && all_from k (d + 1) end.
Lemma all_from_spec n : forall d0 d, all_from n d0 = true -> d0 <= d < d0 + Z.of_nat n -> day_ok d = true.
Proof.
  induction n as [|k IH]; intros d0 d H Hr; [lia|].
  cbn [all_from] in H. apply andb_prop in H. destruct H as [H1 H2].
  destruct (Z.eq_dec d d0) as [->|Hne]; [exact H1|].
  apply (IH (d0 + 1)); [exact H2|lia].
Qed.
Definition ndays : nat := Z.to_nat 47482.
Lemma sweep_days : all_from ndays 0 = true.
Proof. vm_compute. reflexivity. Qed.
Lemma day_roundtrip d : 0 <= d < 47482 -> day_ok d = true.
Proof. intros H. apply (all_from_spec ndays 0 d sweep_days). unfold ndays. lia. Qed.

(* ---- fixed-width decimal printing and parsing, for every width and every rest of string *)
Lemma digit_char n : 0 <= n < 10 ->
  ((48 <=? Z.to_N (48 + n))%N && (Z.to_N (48 + n) <=? 57)%N) = true /\ Z.of_N (Z.to_N (48 + n)) = 48 + n.
Proof.
  intros H. split.
  - apply andb_true_intro. split; apply N.leb_le; lia.
  - rewrite Z2N.id by lia. reflexivity.
Qed.

Lemma mod_mul10 n P : 0 < P -> n mod (P * 10) = n mod P + P * ((n / P) mod 10).
Proof. intros H. apply Z.rem_mul_r; lia. Qed.

Lemma digit_of_mod n P : 0 < P -> ((n mod (P * 10)) / P) mod 10 = (n / P) mod 10.
Proof.
  intros H. rewrite mod_mul10 by exact H.
  rewrite (Z.mul_comm P ((n / P) mod 10)), Z.div_add by lia.
  rewrite (Z.div_small (n mod P)) by (apply Z.mod_pos_bound; lia).
  rewrite Z.add_0_l. apply Z.mod_mod. lia.
Qed.
Lemma mod_of_mod n P : 0 < P -> (n mod (P * 10)) mod P = n mod P.
Proof.
  intros H. rewrite mod_mul10 by exact H.
  rewrite (Z.mul_comm P ((n / P) mod 10)), Z.mod_add by lia. apply Z.mod_mod. lia.
Qed.
Lemma pow10_succ k : 10 ^ Z.of_nat (S k) = 10 ^ Z.of_nat k * 10.
Proof. rewrite Nat2Z.inj_succ, Z.pow_succ_r by lia. lia. Qed.
Lemma pow10_pos k : 0 < 10 ^ Z.of_nat k.
Proof. apply Z.pow_pos_nonneg; lia. Qed.

(* print_num w only looks at n mod 10^w *)
Lemma print_mod k : forall n, print_num k n = print_num k (n mod 10 ^ Z.of_nat k).
Proof.
  induction k as [|j IH]; intros n; [reflexivity|].
  cbn [print_num]. rewrite pow10_succ. f_equal.
  - rewrite digit_of_mod by apply pow10_pos. reflexivity.
  - rewrite (IH n), (IH (n mod (10 ^ Z.of_nat j * 10))).
    rewrite mod_of_mod by apply pow10_pos. reflexivity.
Qed.

Lemma parse_print w : forall n acc rest, 0 <= n < 10 ^ Z.of_nat w ->
  parse_num w acc (print_num w n ++ rest) = Some (acc * 10 ^ Z.of_nat w + n, rest).
Proof.
  induction w as [|k IH]; intros n acc rest Hn.
  - cbn in *. f_equal. f_equal. lia.
  - cbn [print_num parse_num app].
    pose proof (pow10_pos k) as Hp. rewrite pow10_succ in Hn |- *.
    set (q := n / 10 ^ Z.of_nat k).
    assert (Hq : 0 <= q < 10).
    { unfold q. split; [apply Z.div_pos; lia|]. apply Z.div_lt_upper_bound; lia. }
    rewrite (Z.mod_small q 10) by lia.
    destruct (digit_char q Hq) as [D1 D2]. rewrite D1.
    rewrite (print_mod k n), IH by (apply Z.mod_pos_bound; lia).
    f_equal. f_equal. rewrite D2. unfold q.
    pose proof (Z.div_mod n (10 ^ Z.of_nat k) ltac:(lia)). lia.
Qed.

(* ---- the translated formats have the shape the proof handles (re-checked at every build) *)
Lemma formats_shape :
  fmt_time_to_str = [FYear; FMonth; FDay; FLit 84; FHour; FMin; FSec] /\
  fmt_str_to_time = [FYear; FMonth; FDay; FLit 84; FHour; FMin; FSec].
Proof. split; reflexivity. Qed.

Definition in_range (f : fields) : Prop :=
  0 <= f_y f < 10000 /\ 0 <= f_mo f < 100 /\ 0 <= f_d f < 100 /\
  0 <= f_h f < 100 /\ 0 <= f_mi f < 100 /\ 0 <= f_s f < 100.

Lemma parse_format f f0 : in_range f ->
  parse_items fmt_str_to_time (format_items fmt_time_to_str f) f0 = Some f.
Proof.
  intros [Hy [Hm [Hd [Hh [Hmi Hs]]]]]. destruct formats_shape as [-> ->].
  cbn [format_items parse_items width get_field].
  rewrite parse_print by (cbn; lia). cbv beta iota.
  rewrite parse_print by (cbn; lia). cbv beta iota.
  rewrite parse_print by (cbn; lia). cbv beta iota.
  cbn [app]. rewrite N.eqb_refl. cbv beta iota.
  rewrite parse_print by (cbn; lia). cbv beta iota.
  rewrite parse_print by (cbn; lia). cbv beta iota.
  rewrite parse_print by (cbn; lia). cbv beta iota.
  destruct f; cbn; first [reflexivity | (f_equal; f_equal; lia)].
Qed.

Theorem time_roundtrip t : 0 <= t < 4102444800 -> str_to_time (time_to_str t) = Some t.
Proof.
  intros Ht. unfold str_to_time, time_to_str.
  set (days := t / 86400). set (sod := t mod 86400).
  assert (Hd : 0 <= days < 47482).
  { unfold days. split; [apply Z.div_pos; lia|]. apply Z.div_lt_upper_bound; lia. }
  assert (Hs : 0 <= sod < 86400) by (unfold sod; apply Z.mod_pos_bound; lia).
  pose proof (day_roundtrip days Hd) as Hok. unfold day_ok in Hok.
  unfold fields_of. fold days sod.
  destruct (civil_from_days days) as [[y m] d] eqn:Ec.
  repeat (apply andb_prop in Hok; let H' := fresh "K" in destruct Hok as [Hok H']).
  apply Z.eqb_eq in Hok.
  apply Z.leb_le in K4, K2, K0. apply Z.ltb_lt in K3. apply Z.leb_le in K1, K.
  rewrite parse_format.
  - cbn [option_map]. f_equal. unfold time_of. cbn [f_y f_mo f_d f_h f_mi f_s]. rewrite Hok.
    pose proof (Z.div_mod t 86400 ltac:(lia)). fold days sod in H.
    pose proof (Z.div_mod sod 3600 ltac:(lia)).
    pose proof (Z.div_mod (sod mod 3600) 60 ltac:(lia)).
    assert (sod mod 60 = (sod mod 3600) mod 60) by (clear; Z.div_mod_to_equations; lia).
    lia.
  - unfold in_range. cbn [f_y f_mo f_d f_h f_mi f_s].
    assert (0 <= sod / 3600 < 24) by (split; [apply Z.div_pos; lia | apply Z.div_lt_upper_bound; lia]).
    assert (0 <= sod mod 3600 < 3600) by (apply Z.mod_pos_bound; lia).
    assert (0 <= (sod mod 3600) / 60 < 60) by (split; [apply Z.div_pos; lia | apply Z.div_lt_upper_bound; lia]).
    assert (0 <= sod mod 60 < 60) by (apply Z.mod_pos_bound; lia).
    lia.
Qed.

Example time_example :
  time_to_str 951782400 = [50;48;48;48;48;50;50;57;84;48;48;48;48;48;48]%N /\   (* 20000229T000000 *)
  str_to_time [50;48;57;57;49;50;51;49;84;50;51;53;57;53;57]%N = Some 4102444799. (* 20991231T235959 *)
Proof. vm_compute. split; reflexivity. Qed.
