"""Implementation side of C07: real dimension objects of a scratch NIX file."""
import json
import os
import sys
from fractions import Fraction

import numpy as np
import nixio
from nixio.dimensions import IndexMode, SliceMode

MODES = {"less": IndexMode.Less, "leq": IndexMode.LessOrEqual, "geq": IndexMode.GreaterOrEqual}
SMODES = {"excl": SliceMode.Exclusive, "incl": SliceMode.Inclusive}


def fl(x):
    """[num, den] -> float (exact: the generator only sends float-representable rationals)"""
    return float(Fraction(x[0], x[1]))


def io(fn, *a, **kw):
    try:
        r = fn(*a, **kw)
    except IndexError:
        return ["none"]
    except Exception as exc:
        return ["exc", type(exc).__name__]
    return ["some", int(r)]


def rr(fn, *a, **kw):
    try:
        r = fn(*a, **kw)
    except IndexError:
        return ["raise"]
    except Exception as exc:
        return ["exc", type(exc).__name__]
    if r is None:
        return ["none"]
    return ["some", int(r[0]), int(r[1])]


def frac(x):
    f = Fraction(float(x))
    return [f.numerator, f.denominator]


def main():
    req = json.load(sys.stdin)
    path = os.path.join(os.getcwd(), "dims.nix")
    f = nixio.File.open(path, nixio.FileMode.Overwrite)
    blk = f.create_block("b", "t")
    out = {}
    da = blk.create_data_array("sampled", "t", data=np.zeros(4))
    sd = da.append_sampled_dimension(1.0)

    def setup(off, itv):
        sd.sampling_interval = fl(itv)
        sd.offset = fl(off)

    res = []
    last = None
    for off, itv, p, m in req.get("sampled", []):
        if (off, itv) != last:
            setup(off, itv)
            last = (off, itv)
        res.append(io(sd.index_of, fl(p), MODES[m]))
    out["sampled"] = res
    res = []
    last = None
    for off, itv, p, q, m in req.get("sampled_range", []):
        if (off, itv) != last:
            setup(off, itv)
            last = (off, itv)
        res.append(rr(sd.range_indices, fl(p), fl(q), SMODES[m]))
    out["sampled_range"] = res
    res = []
    for off, itv, i in req.get("roundtrip", []):
        setup(off, itv)
        pos = sd.position_at(i)
        ax = sd.axis(3, start=i)

        def axis_by(**kw):
            try:
                return [frac(a) for a in sd.axis(3, **kw)]
            except ValueError:
                return "ValueError"
            except Exception as exc:
                return type(exc).__name__
        # the other ways to say where an axis starts: by position (on a sample, 0, the offset, one sample before the
        # offset), by nothing at all, by both (the index wins)
        o = fl(off)
        variants = [["position", frac(pos), axis_by(start_position=pos)], ["position", frac(0.0), axis_by(start_position=0.0)],
                    ["position", frac(0.0), axis_by(start_position=0)], ["position", frac(o), axis_by(start_position=o)],
                    ["position", frac(o - fl(itv)), axis_by(start_position=o - fl(itv))], ["none", None, axis_by()],
                    ["both", frac(pos), axis_by(start=0, start_position=pos)], ["index", None, axis_by(start=0)]]
        res.append([frac(pos), io(sd.index_of, pos, IndexMode.LessOrEqual),
                    io(sd.index_of, pos, IndexMode.GreaterOrEqual), io(sd.index_of, pos, IndexMode.Less),
                    [frac(a) for a in ax], variants])
    out["roundtrip"] = res

    # range dimensions: one array per tick vector
    res = []
    resr = []
    for k, (ticks, qs, rs) in enumerate(req.get("ticks", [])):
        tk = [fl(t) for t in ticks]
        a = blk.create_data_array("r%d" % k, "t", data=np.zeros(max(len(tk), 1)))
        rd = a.append_range_dimension(tk)
        stored = rd.ticks
        one = []
        for p, m in qs:
            one.append(io(rd.index_of, fl(p), MODES[m]))
        two = []
        for p, q, m in rs:
            two.append(rr(rd.range_indices, fl(p), fl(q), SMODES[m]))
        extra = {"stored": [frac(t) for t in stored],
                 "tick_at": [frac(rd.tick_at(i)) for i in range(len(tk))],
                 "axis": [frac(t) for t in rd.axis(len(tk), 0)]}
        res.append([one, two, extra])
    out["ticks"] = res

    res = []
    for k, (n, qs, rs) in enumerate(req.get("sets", [])):
        a = blk.create_data_array("s%d" % k, "t", data=np.zeros(max(n, 1)))
        sdim = a.append_set_dimension(["l%d" % i for i in range(n)] if n else None)
        one = [io(sdim.index_of, fl(p), MODES[m]) for p, m in qs]
        two = [rr(sdim.range_indices, fl(p), fl(q), SMODES[m]) for p, q, m in rs]
        res.append([one, two, len(sdim.labels)])
    out["sets"] = res
    f.close()
    os.remove(path)
    json.dump(out, sys.stdout)


main()
