(* Props/C12.v -- a refused operation leaves the file exactly as it was.
   ONLY property theorems.  API calls: programs of Nix/Api.v (tied to the code by correspondence
   on operation histories).  `atomic same m`: whenever m fails on a writable file, the store it
   leaves is EQUAL to the one it started from (read-only files: Props/C11.v).
   `plus_container`: equal, or with one additional EMPTY container group (created by
   open_group(name, create=True) before the duplicate test; not reachable through any read). *)
From NixV Require Import Base.Prelude H5.Store Nix.Api Nix.Observe Proofs.MonadLemmas
  Proofs.AtomicProofs Proofs.AtomicProofs2.
Open Scope N_scope.

(* File.create_block / create_section, Block.create_group / create_data_array / create_tag /
   create_source: duplicate, empty or slashed name, empty type -> nothing at all changes *)
Theorem c12_creators : forall ph c n t d now s s' e p,
  ro s = false -> nth_error (hs s) (N.to_nat ph) = Some p -> atomic_container (hk p) c = true ->
  api_create ph c n t d now s = (s', inr e) -> sto s' = sto s.
Proof. exact api_create_atomic. Qed.
Print Assumptions c12_creators.

(* Source.create_source, Section.create_section, Section.create_property *)
Theorem c12_nested_creators : forall ph c n t d now s s' e p,
  ro s = false -> nth_error (hs s) (N.to_nat ph) = Some p -> pre_container (hk p) c = true ->
  api_create ph c n t d now s = (s', inr e) -> plus_container (sto s) (sto s').
Proof. exact api_create_atomic_nested. Qed.
Print Assumptions c12_nested_creators.

Theorem c12_create_multi_tag : forall ph n t pos now, atomic same (api_create_mtag ph n t pos now).
Proof. exact atomic_api_create_mtag. Qed.
Print Assumptions c12_create_multi_tag.

(* link lists: wrong kind, foreign block, unknown key, out-of-range index *)
Theorem c12_append : forall ph l x, atomic same (api_append ph l x).
Proof. exact atomic_api_append. Qed.
Print Assumptions c12_append.
Theorem c12_remove : forall ph l k, atomic same (api_remove ph l k).
Proof. exact atomic_api_remove. Qed.
Print Assumptions c12_remove.
Theorem c12_delete : forall ph c k, atomic same (api_delete ph c k).
Proof. exact atomic_api_delete. Qed.
Print Assumptions c12_delete.
Theorem c12_set_attr : forall ph a v now, atomic same (api_set_attr ph a v now).
Proof. exact atomic_api_set_attr. Qed.
Print Assumptions c12_set_attr.
Theorem c12_set_link : forall ph r x now, atomic same (api_set_link ph r x now).
Proof. exact atomic_api_set_link. Qed.
Print Assumptions c12_set_link.
(* lookups never write, whatever they return *)
Theorem c12_lookup : forall ph c k, readonly (api_lookup ph c k).
Proof. exact readonly_api_lookup. Qed.
Print Assumptions c12_lookup.

(* BaseTag.create_feature: data of the wrong kind or from another block -> nothing changes (the
   implementation removes the feature it had started; until the repair of 0aff958 it did not, and
   this was a refuted statement with a witness) *)
Theorem c12_create_feature : forall th dh l now, atomic same (api_create_feature th dh l now).
Proof. exact atomic_api_create_feature. Qed.
Print Assumptions c12_create_feature.

(* ---- dimension calls (model: Pure/DimLink.v, tied by the dimension histories): unordered ticks, a
   link index of the wrong length or without exactly one -1, labels on a linked set dimension,
   removing a link that is not there - whatever is refused changes nothing *)
From NixV Require Import Pure.DimLink Proofs.DimLinkProofs.
From Coq Require Import ZArith List.
Theorem c12_dimension_calls : forall s o s' e, dstep s o = (s', Some e) -> s' = s.
Proof. exact refused_unchanged. Qed.
Print Assumptions c12_dimension_calls.
Theorem c12_dimension_refusals_exact : forall s o, (exists e, snd (dstep s o) = Some e) <->
  match o with
  | RSetTicks l => descends l = true
  | RLink idx | SLink idx => link_check (tg s) idx <> None
  | RUnlink => r_link (rd s) = None
  | SUnlink => s_link (sd s) = None
  | SSetLabels _ => s_link (sd s) <> None
  | AppendRange tk lb un => sarg_bad lb = true \/ sarg_bad un = true \/ tk = TkBad \/ (exists l, tk = TkOk l /\ descends l = true)
  | AppendSampled iv lb un off => (forall z, iv <> NmOk z) \/ sarg_bad lb = true \/ sarg_bad un = true \/ off = NmBad
  | AppendSet l => l = TkBad
  | _ => False
  end.
Proof. exact refusals. Qed.
Print Assumptions c12_dimension_refusals_exact.

(* non-vacuity (Proofs/NonVacuous.v; concrete reachable states, by vm_compute) *)
From NixV Require Proofs.NonVacuous.
(* a refused creator in a reachable writable state *)
Example c12_hypotheses_met := NonVacuous.nv_dup_refused.
Check c12_hypotheses_met.
Print Assumptions c12_hypotheses_met.
(* refused and accepted dimension calls *)
Example c12_dimension_hypotheses_met := NonVacuous.nv_dim.
Check c12_dimension_hypotheses_met.
Print Assumptions c12_dimension_hypotheses_met.
