(* Pure/Calendar.v -- util.time_to_str / util.str_to_time: POSIX seconds <-> "YYYYMMDDTHHMMSS".
   The two format strings are translated from the source (Gen/Touch.v).  datetime's proleptic
   Gregorian arithmetic is modelled by the days<->civil algorithms of H. Hinnant; strftime
   prints %Y with 4 digits and the other fields with 2; strptime reads them back. *)
From NixV Require Import Base.Prelude Gen.Touch.
Open Scope Z_scope.

Definition civil_from_days (z0 : Z) : Z * Z * Z :=
  let z := z0 + 719468 in
  let era := z / 146097 in
  let doe := z - era * 146097 in
  let yoe := (doe - doe / 1460 + doe / 36524 - doe / 146096) / 365 in
  let y := yoe + era * 400 in
  let doy := doe - (365 * yoe + yoe / 4 - yoe / 100) in
  let mp := (5 * doy + 2) / 153 in
  let d := doy - (153 * mp + 2) / 5 + 1 in
  let m := if mp <? 10 then mp + 3 else mp - 9 in
  (if m <=? 2 then y + 1 else y, m, d).
Definition days_from_civil (ymd : Z * Z * Z) : Z :=
  let '(y0, m, d) := ymd in
  let y := if m <=? 2 then y0 - 1 else y0 in
  let era := y / 400 in
  let yoe := y - era * 400 in
  let doy := (153 * (if m >? 2 then m - 3 else m + 9) + 2) / 5 + d - 1 in
  let doe := yoe * 365 + yoe / 4 - yoe / 100 + doy in
  era * 146097 + doe - 719468.

Record fields := mkF { f_y : Z; f_mo : Z; f_d : Z; f_h : Z; f_mi : Z; f_s : Z }.

(* datetime.utcfromtimestamp(t) *)
Definition fields_of (t : Z) : fields :=
  let days := t / 86400 in
  let sod := t mod 86400 in
  let '(y, m, d) := civil_from_days days in
  mkF y m d (sod / 3600) ((sod mod 3600) / 60) (sod mod 60).
(* (dt - datetime(1970,1,1)).total_seconds() *)
Definition time_of (f : fields) : Z :=
  days_from_civil (f_y f, f_mo f, f_d f) * 86400 + f_h f * 3600 + f_mi f * 60 + f_s f.

(* fixed-width decimal *)
Fixpoint print_num (w : nat) (n : Z) : str :=
  match w with
  | O => []
  | S k => Z.to_N (48 + (n / 10 ^ Z.of_nat k) mod 10) :: print_num k n
  end.
Fixpoint parse_num (w : nat) (acc : Z) (s : str) : option (Z * str) :=
  match w with
  | O => Some (acc, s)
  | S k => match s with
           | c :: t => if (48 <=? c)%N && (c <=? 57)%N
                       then parse_num k (acc * 10 + Z.of_N c - 48) t else None
           | [] => None
           end
  end.

Definition width (i : fitem) : nat := match i with FYear => 4%nat | FLit _ => 1%nat | _ => 2%nat end.
Definition get_field (i : fitem) (f : fields) : Z :=
  match i with
  | FYear => f_y f | FMonth => f_mo f | FDay => f_d f | FHour => f_h f | FMin => f_mi f
  | FSec => f_s f | FLit _ => 0
  end.
Definition set_field (i : fitem) (v : Z) (f : fields) : fields :=
  match i with
  | FYear => mkF v (f_mo f) (f_d f) (f_h f) (f_mi f) (f_s f)
  | FMonth => mkF (f_y f) v (f_d f) (f_h f) (f_mi f) (f_s f)
  | FDay => mkF (f_y f) (f_mo f) v (f_h f) (f_mi f) (f_s f)
  | FHour => mkF (f_y f) (f_mo f) (f_d f) v (f_mi f) (f_s f)
  | FMin => mkF (f_y f) (f_mo f) (f_d f) (f_h f) v (f_s f)
  | FSec => mkF (f_y f) (f_mo f) (f_d f) (f_h f) (f_mi f) v
  | FLit _ => f
  end.

Fixpoint format_items (items : list fitem) (f : fields) : str :=
  match items with
  | [] => []
  | FLit c :: r => c :: format_items r f
  | i :: r => print_num (width i) (get_field i f) ++ format_items r f
  end.
Fixpoint parse_items (items : list fitem) (s : str) (f : fields) : option fields :=
  match items with
  | [] => match s with [] => Some f | _ => None end
  | FLit c :: r => match s with
                   | x :: t => if N.eqb x c then parse_items r t f else None
                   | [] => None
                   end
  | i :: r => match parse_num (width i) 0 s with
              | Some (v, t) => parse_items r t (set_field i v f)
              | None => None
              end
  end.

Definition time_to_str (t : Z) : str := format_items fmt_time_to_str (fields_of t).
Definition str_to_time (s : str) : option Z :=
  option_map time_of (parse_items fmt_str_to_time s (mkF 1900 1 1 0 0 0)).
