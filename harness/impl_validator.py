"""Implementation side of C14: build a file from a recipe (consistent content + injected
inconsistencies), run File.validate(), report the errors per recipe object as sorted codes."""
import json
import os
import re
import sys

import numpy as np
import nixio
from nixio.validator import ValidationError as VE

PLAIN = {VE.NoName: 1, VE.NoType: 2, VE.NoDate: 3, VE.NoID: 4, VE.DimensionMismatch: 5,
         VE.NoPosition: 20, VE.PositionDimensionMismatch: 21, VE.ExtentDimensionMismatch: 22, VE.PositionExtentMismatch: 23,
         VE.ReferenceUnitsMismatch: 24, VE.ReferenceUnitsIncompatible: 25, VE.InvalidUnit: 26,
         VE.NoPositions: 30, VE.PositionsDimensionMismatch: 31, VE.ExtentsDimensionMismatch: 32, VE.PositionsExtentsMismatch: 33}
TEMPL = [(VE.RangeDimTicksMismatch, 100), (VE.SetDimLabelsMismatch, 200), (VE.NoTicks, 300), (VE.UnsortedTicks, 400),
         (VE.InvalidDimensionUnit, 500), (VE.NoSamplingInterval, 600), (VE.InvalidSamplingInterval, 700)]
TEMPL_RE = [(re.compile("^" + re.escape(t).replace(r"\{\}", r"(\d+)") + "$"), base) for t, base in TEMPL]


def code(msg):
    if msg in PLAIN:
        return PLAIN[msg]
    for rx, base in TEMPL_RE:
        m = rx.match(msg)
        if m:
            return base + int(m.group(1))
    return 999


def strip_ent(obj, ent, dataset=False):
    attrs = obj._h5group.group.attrs
    if not ent["name"]:
        del attrs["name"]
    if not ent["type"]:
        del attrs["type"]
    if not ent["date"]:
        del attrs["created_at"]


def build(f, r):
    """returns the list of (class name, h5 name) of the recipe's objects, in recipe order"""
    b = f.create_block("blk", "t")
    keys = []
    arrays = []
    later = []
    for i, a in enumerate(r["arrays"]):
        da = b.create_data_array("a%d" % i, "t", data=np.zeros(tuple(a["shape"])))
        for d in a["dims"]:
            if d[0] == "set":
                da.append_set_dimension(["l%d" % k for k in range(d[1])] if d[1] else None)
            elif d[0] == "sampled":
                dim = da.append_sampled_dimension(1.0)
                if d[1] is None:
                    del dim._h5group.group.attrs["sampling_interval"]
                else:
                    dim._h5group.set_attr("sampling_interval", d[1] / 1000.0)
                if d[2] is not None:
                    dim._h5group.set_attr("unit", d[2])
            else:
                dim = da.append_range_dimension([1.0, 2.0])
                how = d[3] if len(d) > 3 else 0
                if d[1] and how:
                    # the same ticks (and unit) held by another array and reached through a dimension link: along a
                    # vector (how = 1) or along the last axis of a matrix row (how = 2)
                    tk = np.array([float(x) for x in d[1]])
                    hname = "k%d_%d" % (i, len(da.dimensions))
                    if how == 1:
                        h = b.create_data_array(hname, "t", data=tk)
                        h.append_set_dimension()
                        dim.link_data_array(h, [-1])
                    else:
                        h = b.create_data_array(hname, "t", data=np.vstack([np.zeros(len(tk)), tk]))
                        h.append_set_dimension()
                        h.append_set_dimension()
                        dim.link_data_array(h, [1, -1])
                    if d[2] is not None:
                        h._h5group.set_attr("unit", d[2])
                    continue
                if d[1]:
                    dim._h5group.write_data("ticks", [float(x) for x in d[1]])
                else:
                    del dim._h5group.group["ticks"]
                if d[2] is not None:
                    dim._h5group.set_attr("unit", d[2])
        arrays.append(da)
        later.append((da, a["ent"]))
        keys.append(("DataArray", "a%d" % i))
    for i, t in enumerate(r["tags"]):
        tg = b.create_tag("t%d" % i, "t", [1.0] * max(t["npos"], 1))
        if t["npos"] == 0:
            del tg._h5group.group["position"]
        if t["next"]:
            tg.extent = [1.0] * t["next"]
        if t["units"]:
            tg._h5group.write_data("units", list(t["units"]), nixio.DataType.String)
        for k in t["refs"]:
            tg.references.append(arrays[k])
        later.append((tg, t["ent"]))
        keys.append(("Tag", "t%d" % i))
    for i, t in enumerate(r["mtags"]):
        def helper(name, shape):
            h = b.create_data_array(name, "t", data=np.zeros(tuple(shape)))
            for _ in shape:
                h.append_set_dimension()
            return h
        pos = helper("p%d" % i, t["pos"] if t["pos"] is not None else [1])
        mt = b.create_multi_tag("m%d" % i, "t", pos)
        if t["pos"] is None:
            del mt._h5group.group["positions"]
        if t["ext"] is not None:
            mt.extents = helper("e%d" % i, t["ext"])
        if t["units"]:
            mt._h5group.write_data("units", list(t["units"]), nixio.DataType.String)
        for k in t["refs"]:
            mt.references.append(arrays[k])
        later.append((mt, t["ent"]))
        keys.append(("MultiTag", "m%d" % i))
    sec = None
    src = None
    for i, e in enumerate(r["others"]):
        kind = ["Block", "Group", "Source", "Section", "Source", "Section"][i % 6]
        if kind == "Block":
            o = b if i == 0 else f.create_block("blk%d" % i, "t")
        elif kind == "Group":
            o = b.create_group("g%d" % i, "t")
        elif kind == "Source":
            o = (src or b).create_source("s%d" % i, "t")
            src = o
        else:
            o = (sec or f).create_section("sec%d" % i, "t")
            sec = o
        later.append((o, e))
        keys.append((kind, o._h5group.name))
    for o, e in later:
        strip_ent(o, e)
    return keys


def main():
    req = json.load(sys.stdin)
    wd = os.getcwd()
    out = []
    for k, r in enumerate(req["cases"]):
        path = os.path.join(wd, "v%d.nix" % k)
        f = nixio.File.open(path, nixio.FileMode.Overwrite)
        try:
            keys = build(f, r)
        except Exception as exc:
            out.append({"build_error": type(exc).__name__ + ": " + str(exc)[:120]})
            f.close()
            continue
        if req.get("reopen", True):
            f.close()
            f = nixio.File.open(path, nixio.FileMode.ReadOnly)
        try:
            res = f.validate()
        except Exception as exc:
            out.append({"validate_error": type(exc).__name__ + ": " + str(exc)[:120]})
            f.close()
            continue
        got = {}
        for obj, msgs in res["errors"].items():
            hn = obj._h5group.name if hasattr(obj, "_h5group") else "file"
            got[(type(obj).__name__, hn)] = sorted(code(m) for m in msgs)
        per = [got.pop(key, []) for key in keys]
        out.append({"errors": per, "extra": [[list(k), v] for k, v in got.items()]})
        f.close()
        os.remove(path)
    json.dump(out, sys.stdout)


main()
