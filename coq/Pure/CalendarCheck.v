(* Pure/CalendarCheck.v -- correspondence of util.time_to_str / str_to_time (C19). *)
From NixV Require Import Base.Prelude Gen.Touch Pure.Calendar.
Open Scope Z_scope.
(* (t, the implementation's time_to_str(t), the implementation's str_to_time of that text) *)
Definition time_case := (Z * str * Z)%type.
Definition check_time (c : time_case) : N :=
  let '(t, istr, iback) := c in
  vcode (streq (time_to_str t) istr && opt_eqb Z.eqb (str_to_time istr) (Some iback))
        (Z.eqb iback t).
