(* Proofs/TimeProofs.v -- C19 over the API model: which operations can move which timestamps. *)
From NixV Require Import Base.Prelude H5.Store Gen.Touch Nix.Api Proofs.StoreLemmas Proofs.DeleteProofs
  Proofs.MonadLemmas Proofs.AtomicProofs.
From Coq Require Import Lia.
Open Scope N_scope.

(* every node that existed keeps attribute [key], except possibly node [ex] *)
Definition keeps (key : str) (ex : option addr) (s s' : store) : Prop :=
  (length (nodes s) <= length (nodes s'))%nat /\
  forall a, (a < length (nodes s))%nat -> Some a <> ex -> get_attr s' a key = get_attr s a key.

Lemma keeps_refl key ex s : keeps key ex s s.
Proof. split; auto. Qed.
Lemma keeps_trans key ex s1 s2 s3 : keeps key ex s1 s2 -> keeps key ex s2 s3 -> keeps key ex s1 s3.
Proof.
  intros [L1 H1] [L2 H2]. split; [lia|]. intros a La Ha.
  rewrite H2 by (try lia; exact Ha). apply H1; assumption.
Qed.

Lemma keeps_set_attr_other key ex s a k v : k <> key -> keeps key ex s (set_attr s a k v).
Proof.
  intros H. split; [rewrite length_set_attr; lia|]. intros b _ _.
  apply get_attr_set_other. right. intro E. apply H. symmetry. exact E.
Qed.
Lemma keeps_set_attr_at key s a k v : keeps key (Some a) s (set_attr s a k v).
Proof.
  split; [rewrite length_set_attr; lia|]. intros b _ Hb.
  apply get_attr_set_other. left. intro E. apply Hb. f_equal. exact E.
Qed.
Lemma keeps_set_links key ex s a l : keeps key ex s (set_links s a l).
Proof. split; [rewrite length_set_links; lia|]. intros b _ _. apply get_attr_set_links. Qed.
Lemma keeps_add_link key ex s a k x : keeps key ex s (add_link s a k x).
Proof. apply keeps_set_links. Qed.
Lemma keeps_del_link key ex s a k : keeps key ex s (del_link s a k).
Proof. apply keeps_set_links. Qed.
Lemma keeps_delete_all key ex s ids : keeps key ex s (delete_all s ids).
Proof.
  split; [unfold delete_all; cbn; rewrite map_length; lia|]. intros b _ _. apply get_attr_delete_all.
Qed.
Lemma keeps_new_node key ex s n : keeps key ex s (fst (new_node s n)).
Proof.
  split; [rewrite length_new_node; lia|]. intros b Lb _. unfold get_attr.
  rewrite node_at_new_old by exact Lb. reflexivity.
Qed.
Lemma keeps_ensure_group key ex s pa k : keeps key ex s (fst (ensure_group s pa k)).
Proof.
  unfold ensure_group. destruct (child s pa k); [apply keeps_refl|].
  cbn. change (mkStore (nodes s ++ [empty_node])) with (fst (new_node s empty_node)).
  eapply keeps_trans; [apply keeps_new_node | apply keeps_add_link].
Qed.

(* programs: under a condition C on the session state (preserved), the store moves within P *)
Definition pres (C : st -> Prop) (P : store -> store -> Prop) {A} (m : M A) : Prop :=
  forall s, C s -> P (sto s) (sto (fst (m s))) /\ C (fst (m s)).

Section Pres.
  Variable C : st -> Prop.
  Variable P : store -> store -> Prop.
  Hypothesis P_refl : forall s, P s s.
  Hypothesis P_trans : forall a b c, P a b -> P b c -> P a c.
  (* C only looks at the session flags, which writes and reads do not change *)
  Hypothesis C_flags : forall s s', auto s' = auto s -> C s -> C s'.

  Lemma pres_ret {A} (x : A) : pres C P (ret x).
  Proof. intros s H. cbn. auto. Qed.
  Lemma pres_fail {A} e : pres C P (@fail A e).
  Proof. intros s H. cbn. auto. Qed.
  Lemma pres_bind {A B} (m : M A) (k : A -> M B) : pres C P m -> (forall x, pres C P (k x)) -> pres C P (bind m k).
  Proof.
    intros Hm Hk s Hc. unfold bind. destruct (Hm s Hc) as [H1 H2].
    destruct (m s) as [s1 [x|e]]; cbn in *; [|auto].
    destruct (Hk x s1 H2) as [H3 H4]. split; [eapply P_trans; eassumption | exact H4].
  Qed.
  Lemma pres_readonly {A} (m : M A) : (forall s, sto (fst (m s)) = sto s /\ auto (fst (m s)) = auto s) -> pres C P m.
  Proof. intros H s Hc. destruct (H s) as [H1 H2]. rewrite H1. split; [apply P_refl | eapply C_flags; eassumption]. Qed.
  Lemma pres_get_st : pres C P get_st.
  Proof. apply pres_readonly. intros s. cbn. auto. Qed.
  Lemma pres_rd {A} (f : store -> A) : pres C P (rd f).
  Proof. apply pres_readonly. intros s. cbn. auto. Qed.
  Lemma pres_gen_id : pres C P gen_id.
  Proof. apply pres_readonly. intros s. cbn. auto. Qed.
  Lemma pres_new_handle h : pres C P (new_handle h).
  Proof. apply pres_readonly. intros s. cbn. auto. Qed.
  Lemma pres_the_handle i : pres C P (the_handle i).
  Proof. apply pres_readonly. intros s. unfold the_handle. destruct (nth_error _ _); cbn; auto. Qed.
  Lemma pres_guard b e : pres C P (guard b e).
  Proof. destruct b; [apply pres_ret | apply pres_fail]. Qed.
  Lemma pres_lift_sum {A} (x : A + err) : pres C P (lift_sum x).
  Proof. destruct x; [apply pres_ret | apply pres_fail]. Qed.
  Lemma pres_wr f : (forall s, P s (f s)) -> pres C P (wr f).
  Proof.
    intros Hf s Hc. unfold wr. destruct (ro s); cbn; [split; [apply P_refl | exact Hc]|].
    split; [apply Hf | eapply C_flags; [|exact Hc]; reflexivity].
  Qed.
  Lemma pres_wr_ret {A} (f : store -> store * A) : (forall s, P s (fst (f s))) -> pres C P (wr_ret f).
  Proof.
    intros Hf s Hc. unfold wr_ret. destruct (ro s); cbn; [split; [apply P_refl | exact Hc]|].
    specialize (Hf (sto s)). destruct (f (sto s)) as [s1 x]. cbn in *.
    split; [exact Hf | eapply C_flags; [|exact Hc]; reflexivity].
  Qed.
End Pres.

(* ------------------------------------------------------------------ creation time is fixed *)
Definition anyst (s : st) : Prop := True.
Definition KC := keeps k_created None.
Lemma KC_refl s : KC s s. Proof. apply keeps_refl. Qed.
Lemma KC_trans a b c : KC a b -> KC b c -> KC a c. Proof. apply keeps_trans. Qed.
Lemma any_flags (s s' : st) : auto s' = auto s -> anyst s -> anyst s'. Proof. auto. Qed.

Ltac kc_side :=
  intros;
  first [ apply keeps_set_attr_other; discriminate
        | apply keeps_add_link | apply keeps_del_link | apply keeps_delete_all
        | apply keeps_ensure_group | apply keeps_refl
        | (match goal with |- keeps _ _ _ (fst (let '(_, _) := ?x in _)) => destruct x end) ].

Ltac pres_step C P Pr Pt Cf side :=
  first
    [ apply (pres_bind C P Pt); [| intros ]
    | apply (pres_ret C P Pr) | apply (pres_fail C P Pr) | apply (pres_get_st C P Pr Cf)
    | apply (pres_rd C P Pr Cf) | apply (pres_gen_id C P Pr Cf) | apply (pres_new_handle C P Pr Cf)
    | apply (pres_the_handle C P Pr Cf) | apply (pres_guard C P Pr) | apply (pres_lift_sum C P Pr)
    | apply (pres_wr C P Pr Cf); solve [side]
    | apply (pres_wr_ret C P Pr Cf); solve [side]
    | match goal with |- pres _ _ (match ?x with _ => _ end) => destruct x end
    | match goal with |- pres _ _ (if ?x then _ else _) => destruct x end ].

Ltac kc_tac := repeat (pres_step anyst KC KC_refl KC_trans any_flags kc_side).

Lemma kc_touch_updated a now : pres anyst KC (touch_updated a now).
Proof. unfold touch_updated. kc_tac. Qed.
Lemma kc_auto_touch a now : pres anyst KC (auto_touch a now).
Proof. unfold auto_touch. kc_tac; try apply kc_touch_updated. Qed.
Lemma kc_auto_touch_for c n a now : pres anyst KC (auto_touch_for c n a now).
Proof. unfold auto_touch_for. destruct (touches c n); [apply kc_auto_touch | apply (pres_ret anyst KC KC_refl)]. Qed.
Lemma kc_resolve_key k : pres anyst KC (resolve_key k).
Proof. unfold resolve_key. kc_tac. Qed.
Lemma kc_group_delete p a g k b : pres anyst KC (group_delete p a g k b).
Proof. unfold group_delete. kc_tac. Qed.

Ltac kc_tac2 :=
  repeat first [ apply kc_auto_touch_for | apply kc_resolve_key | apply kc_group_delete
               | pres_step anyst KC KC_refl KC_trans any_flags kc_side ].

Lemma kc_set_attr ph a v now : pres anyst KC (api_set_attr ph a v now).
Proof. unfold api_set_attr. kc_tac2. Qed.
Lemma kc_set_link ph r x now : pres anyst KC (api_set_link ph r x now).
Proof. unfold api_set_link. kc_tac2. Qed.
Lemma kc_append ph l x : pres anyst KC (api_append ph l x).
Proof. unfold api_append. kc_tac2. Qed.
Lemma kc_remove ph l k : pres anyst KC (api_remove ph l k).
Proof. unfold api_remove. kc_tac2. Qed.
Lemma kc_delete ph c k : pres anyst KC (api_delete ph c k).
Proof. unfold api_delete. kc_tac2. Qed.
Lemma kc_lookup ph c k : pres anyst KC (api_lookup ph c k).
Proof. unfold api_lookup. kc_tac2. Qed.
Lemma kc_lookup_link ph l k : pres anyst KC (api_lookup_link ph l k).
Proof. unfold api_lookup_link. kc_tac2. Qed.

(* the operations that neither create an entity nor force a creation time *)
Definition plain_op (o : op) : bool :=
  match o with
  | OSetAttr _ _ _ | OSetLink _ _ _ | OAppend _ _ _ | ORemove _ _ _ | ODelete _ _ _
  | OLookup _ _ _ | OLookupLink _ _ _ | OSetAuto _ | OReopen _ => true
  | _ => false
  end.

Theorem created_fixed o now s : plain_op o = true ->
  forall a, (a < length (nodes (sto s)))%nat ->
  get_attr (sto (fst (exec o now s))) a k_created = get_attr (sto s) a k_created.
Proof.
  intros Hp a La.
  assert (K : KC (sto s) (sto (fst (exec o now s)))).
  { destruct o; try discriminate; cbn [exec]; try rewrite wrapN_sto; try rewrite wrapU_sto;
      try (match goal with |- KC (sto s) (sto (fst (?m s))) =>
             let H := fresh in
             assert (H : pres anyst KC m) by
               first [ apply kc_set_attr | apply kc_set_link | apply kc_append | apply kc_remove
                     | apply kc_delete | apply kc_lookup | apply kc_lookup_link ];
             exact (proj1 (H s I)) end);
      apply keeps_refl. }
  destruct K as [_ K]. apply K; [exact La | discriminate].
Qed.

(* ------------------------------------------ automatic timestamps off: nothing moves *)
Definition autooff (s : st) : Prop := auto s = false.
Definition KU := keeps k_updated None.
Lemma KU_refl s : KU s s. Proof. apply keeps_refl. Qed.
Lemma KU_trans a b c : KU a b -> KU b c -> KU a c. Proof. apply keeps_trans. Qed.
Lemma off_flags (s s' : st) : auto s' = auto s -> autooff s -> autooff s'.
Proof. unfold autooff. congruence. Qed.

Ltac ku_tac := repeat (pres_step autooff KU KU_refl KU_trans off_flags kc_side).

(* with the switch off, the guarded update does nothing *)
Lemma ku_auto_touch a now : pres autooff KU (auto_touch a now).
Proof.
  intros s Hc. unfold auto_touch, bind, get_st. cbn [auto]. rewrite Hc. cbn.
  split; [apply keeps_refl | exact Hc].
Qed.
Lemma ku_auto_touch_for c n a now : pres autooff KU (auto_touch_for c n a now).
Proof. unfold auto_touch_for. destruct (touches c n); [apply ku_auto_touch | apply (pres_ret autooff KU KU_refl)]. Qed.
Lemma ku_resolve_key k : pres autooff KU (resolve_key k).
Proof. unfold resolve_key. ku_tac. Qed.
Lemma ku_group_delete p a g k b : pres autooff KU (group_delete p a g k b).
Proof. unfold group_delete. ku_tac. Qed.
Ltac ku_tac2 :=
  repeat first [ apply ku_auto_touch_for | apply ku_resolve_key | apply ku_group_delete
               | pres_step autooff KU KU_refl KU_trans off_flags kc_side ].
Lemma ku_set_attr ph a v now : pres autooff KU (api_set_attr ph a v now).
Proof. unfold api_set_attr. ku_tac2. Qed.
Lemma ku_set_link ph r x now : pres autooff KU (api_set_link ph r x now).
Proof. unfold api_set_link. ku_tac2. Qed.
Lemma ku_append ph l x : pres autooff KU (api_append ph l x).
Proof. unfold api_append. ku_tac2. Qed.
Lemma ku_remove ph l k : pres autooff KU (api_remove ph l k).
Proof. unfold api_remove. ku_tac2. Qed.
Lemma ku_delete ph c k : pres autooff KU (api_delete ph c k).
Proof. unfold api_delete. ku_tac2. Qed.
Lemma ku_lookup ph c k : pres autooff KU (api_lookup ph c k).
Proof. unfold api_lookup. ku_tac2. Qed.
Lemma ku_lookup_link ph l k : pres autooff KU (api_lookup_link ph l k).
Proof. unfold api_lookup_link. ku_tac2. Qed.

Definition plain_op_off (o : op) : bool :=
  match o with
  | OSetAttr _ _ _ | OSetLink _ _ _ | OAppend _ _ _ | ORemove _ _ _ | ODelete _ _ _
  | OLookup _ _ _ | OLookupLink _ _ _ | OReopen _ => true
  | _ => false
  end.

Theorem auto_off_nothing_moves o now s : auto s = false -> plain_op_off o = true ->
  forall a, (a < length (nodes (sto s)))%nat ->
  get_attr (sto (fst (exec o now s))) a k_updated = get_attr (sto s) a k_updated /\
  get_attr (sto (fst (exec o now s))) a k_created = get_attr (sto s) a k_created.
Proof.
  intros Hoff Hp a La. split.
  - assert (K : KU (sto s) (sto (fst (exec o now s)))).
    { destruct o; try discriminate; cbn [exec]; try rewrite wrapN_sto; try rewrite wrapU_sto;
        try (match goal with |- KU (sto s) (sto (fst (?m s))) =>
               let H := fresh in
               assert (H : pres autooff KU m) by
                 first [ apply ku_set_attr | apply ku_set_link | apply ku_append | apply ku_remove
                       | apply ku_delete | apply ku_lookup | apply ku_lookup_link ];
               exact (proj1 (H s Hoff)) end);
        apply keeps_refl. }
    destruct K as [_ K]. apply K; [exact La | discriminate].
  - apply created_fixed; [|exact La]. destruct o; try discriminate; reflexivity.
Qed.

(* ------------------------- automatic timestamps on: a setter moves its own entity's only *)
Definition KUx (x : addr) := keeps k_updated (Some x).
Lemma KUx_refl x s : KUx x s s. Proof. apply keeps_refl. Qed.
Lemma KUx_trans x a b c : KUx x a b -> KUx x b c -> KUx x a c. Proof. apply keeps_trans. Qed.

Ltac kux_side x :=
  intros;
  first [ apply keeps_set_attr_other; discriminate
        | apply keeps_set_attr_at
        | apply keeps_add_link | apply keeps_del_link | apply keeps_delete_all
        | apply keeps_ensure_group | apply keeps_refl ].

Lemma kux_touch_updated x now : pres anyst (KUx x) (touch_updated x now).
Proof.
  unfold touch_updated. apply (pres_wr anyst (KUx x) (KUx_refl x) any_flags). intros. apply keeps_set_attr_at.
Qed.
Lemma kux_auto_touch_for c n x now : pres anyst (KUx x) (auto_touch_for c n x now).
Proof.
  unfold auto_touch_for. destruct (touches c n); [|apply (pres_ret anyst (KUx x) (KUx_refl x))].
  unfold auto_touch. apply (pres_bind anyst (KUx x) (KUx_trans x)); [apply (pres_get_st anyst _ (KUx_refl x) any_flags)|].
  intros y. destruct (auto y); [apply kux_touch_updated | apply (pres_ret anyst _ (KUx_refl x))].
Qed.

Ltac kux_tac x :=
  repeat first [ apply kux_auto_touch_for
               | pres_step anyst (KUx x) (KUx_refl x) (KUx_trans x) any_flags ltac:(kux_side x) ].

(* the rest of a setter once the handle is known: every write goes to the handle's node *)
Definition set_attr_rest (p : handle) (a : akind) (v : option tok) (now : Z) : M unit :=
  let k := hk p in
  let is_entity := negb (ekind_eqb k KFile || ekind_eqb k KFeature || ekind_eqb k KProperty) in
  match a with
  | AType =>
      guard is_entity EOther ;;;
      (match v with
       | None => fail EOther
       | Some t => wr (fun s => set_attr s (ha p) k_type (Some (AText t))) ;;; auto_touch_for c_Entity k_type (ha p) now
       end)
  | ADefinition =>
      guard is_entity EOther ;;;
      wr (fun s => set_attr s (ha p) k_definition (option_map AText v)) ;;; auto_touch_for c_Entity k_definition (ha p) now
  | ALabel | AUnit =>
      guard (ekind_eqb k KDataArray) EOther ;;;
      wr (fun s => set_attr s (ha p) (aname a) (option_map AText v)) ;;; auto_touch_for c_DataArray (aname a) (ha p) now
  | ARepository | AReference =>
      guard (ekind_eqb k KSection) EOther ;;;
      wr (fun s => set_attr s (ha p) (aname a) (option_map AText v)) ;;; auto_touch_for c_Section (aname a) (ha p) now
  | ALinkType => fail EOther
  end.

Lemma api_set_attr_unfold ph a v now s p : nth_error (hs s) (N.to_nat ph) = Some p ->
  api_set_attr ph a v now s = set_attr_rest p a v now s.
Proof. intros Hp. unfold api_set_attr, bind at 1. unfold the_handle. rewrite Hp. reflexivity. Qed.

Lemma kux_set_attr_rest p a v now : pres anyst (KUx (ha p)) (set_attr_rest p a v now).
Proof. unfold set_attr_rest. destruct a; kux_tac (ha p). Qed.

(* ... and nobody else's update time *)
Theorem set_attr_touches_only_self ph a v now s p :
  nth_error (hs s) (N.to_nat ph) = Some p ->
  forall b, (b < length (nodes (sto s)))%nat -> b <> ha p ->
  get_attr (sto (fst (api_set_attr ph a v now s))) b k_updated = get_attr (sto s) b k_updated.
Proof.
  intros Hp b Lb Hb. rewrite (api_set_attr_unfold _ _ _ _ _ _ Hp).
  destruct (kux_set_attr_rest p a v now s I) as [[_ K] _]. apply K; [exact Lb | congruence].
Qed.

(* the attribute -> (class, setter) of the translated table *)
Definition attr_entry (a : akind) : str * str :=
  match a with
  | AType => (c_Entity, k_type) | ADefinition => (c_Entity, k_definition)
  | ALabel => (c_DataArray, s_label) | AUnit => (c_DataArray, s_unit)
  | ARepository => (c_Section, s_repository) | AReference => (c_Section, s_reference)
  | ALinkType => (c_Feature, s_link_type)
  end.

Lemma wr_then_touch key val c n x now s s1 :
  auto s = true -> touches c n = true ->
  (wr (fun st0 => set_attr st0 x key val) ;;; auto_touch_for c n x now) s = (s1, inl tt) ->
  sto s1 = set_attr (set_attr (sto s) x key val) x k_updated (Some (AInt now)).
Proof.
  intros Ha Ht E. unfold bind, wr in E. destruct (ro s) eqn:Hro; [discriminate|].
  unfold auto_touch_for in E. rewrite Ht in E. unfold auto_touch, bind, get_st in E. cbn [auto] in E.
  rewrite Ha in E. unfold touch_updated, wr in E. cbn [ro sto hs auto nid] in E.
  injection E as <-. reflexivity.
Qed.

(* with automatic timestamps on, a successful setter of a listed attribute sets the entity's
   update time to the current time *)
Theorem set_attr_sets_update_time ph a v now s s' p :
  nth_error (hs s) (N.to_nat ph) = Some p -> (ha p < length (nodes (sto s)))%nat ->
  auto s = true -> touches (fst (attr_entry a)) (snd (attr_entry a)) = true ->
  api_set_attr ph a v now s = (s', inl tt) ->
  get_attr (sto s') (ha p) k_updated = Some (AInt now).
Proof.
  intros Hp La Hauto Ht E. rewrite (api_set_attr_unfold _ _ _ _ _ _ Hp) in E.
  unfold set_attr_rest in E.
  assert (Fin : forall key val s0, sto s0 = sto s -> auto s0 = true ->
            (wr (fun st0 => set_attr st0 (ha p) key val) ;;;
             auto_touch_for (fst (attr_entry a)) (snd (attr_entry a)) (ha p) now) s0 = (s', inl tt) ->
            get_attr (sto s') (ha p) k_updated = Some (AInt now)).
  { intros key val s0 S0 A0 E0. rewrite (wr_then_touch _ _ _ _ _ _ _ _ A0 Ht E0).
    apply get_attr_set_same. rewrite length_set_attr, S0. exact La. }
  destruct a; cbn [attr_entry fst snd aname] in *.
  - apply bind_inv in E. destruct E as [s1 [u [G E]]]. apply guard_inv in G. destruct G as [-> _].
    destruct v; [|discriminate]. eapply Fin; [reflexivity | exact Hauto | exact E].
  - apply bind_inv in E. destruct E as [s1 [u [G E]]]. apply guard_inv in G. destruct G as [-> _].
    eapply Fin; [reflexivity | exact Hauto | exact E].
  - apply bind_inv in E. destruct E as [s1 [u [G E]]]. apply guard_inv in G. destruct G as [-> _].
    eapply Fin; [reflexivity | exact Hauto | exact E].
  - apply bind_inv in E. destruct E as [s1 [u [G E]]]. apply guard_inv in G. destruct G as [-> _].
    eapply Fin; [reflexivity | exact Hauto | exact E].
  - apply bind_inv in E. destruct E as [s1 [u [G E]]]. apply guard_inv in G. destruct G as [-> _].
    eapply Fin; [reflexivity | exact Hauto | exact E].
  - apply bind_inv in E. destruct E as [s1 [u [G E]]]. apply guard_inv in G. destruct G as [-> _].
    eapply Fin; [reflexivity | exact Hauto | exact E].
  - discriminate.
Qed.

(* the attributes the property lists are in the table translated from the current source *)
Definition required_touch : list (str * str) :=
  [ (c_Entity, k_type); (c_Entity, k_definition); (c_DataArray, s_label); (c_DataArray, s_unit);
    (c_Section, s_repository); (c_Section, s_reference); (c_MultiTag, s_positions);
    (c_MultiTag, s_extents); (c_Feature, s_data); (c_Feature, s_link_type); (c_Tag, s_position);
    (c_Tag, [101;120;116;101;110;116]);                                     (* Tag.extent *)
    ([66;97;115;101;84;97;103], [117;110;105;116;115]);                     (* BaseTag.units *)
    (c_DataArray, [112;111;108;121;110;111;109;95;99;111;101;102;102;105;99;105;101;110;116;115]);
    (c_DataArray, [101;120;112;97;110;115;105;111;110;95;111;114;105;103;105;110]);
    (c_DataArray, [97;112;112;101;110;100;95;115;101;116;95;100;105;109;101;110;115;105;111;110]);
    (c_DataArray, [97;112;112;101;110;100;95;115;97;109;112;108;101;100;95;100;105;109;101;110;115;105;111;110]);
    (c_DataArray, [97;112;112;101;110;100;95;114;97;110;103;101;95;100;105;109;101;110;115;105;111;110]);
    (c_DataArray, [97;112;112;101;110;100;95;114;97;110;103;101;95;100;105;109;101;110;115;105;111;110;95;117;115;105;110;103;95;115;101;108;102]) ].
Lemma table_complete : forallb (fun p => touches (fst p) (snd p)) required_touch = true.
Proof. vm_compute. reflexivity. Qed.

(* forcing a timestamp: what is read back is what was forced *)
Theorem force_reads_back ph created t s s' p :
  nth_error (hs s) (N.to_nat ph) = Some p -> (ha p < length (nodes (sto s)))%nat ->
  api_force ph created t s = (s', inl tt) ->
  get_attr (sto s') (ha p) (if created then k_created else k_updated) = Some (AInt t).
Proof.
  intros Hp La E. unfold api_force, bind at 1 in E. unfold the_handle in E. rewrite Hp in E.
  apply bind_inv in E. destruct E as [s1 [u [G E]]]. apply guard_inv in G. destruct G as [-> _].
  apply wr_inv in E. destruct E as [_ ->]. cbn [sto]. apply get_attr_set_same. exact La.
Qed.
