(* Proofs/BfsProofs2.v -- C13, further: raising the depth limit only APPENDS (what was found with a
   smaller limit stays where it was, deeper levels follow); limit 0 from an entity is the entity
   alone; nothing is found twice or invented: the result is never longer than the forest. *)
From Coq Require Import List Arith Lia Bool.
From NixV Require Import Pure.Bfs Proofs.BfsProofs.
Import ListNotations.

Section P2.
  Variable A : Type.
  Notation tree := (tree A).

  Theorem levels_extend : forall d (ts : list tree), exists more, levels (S d) ts = levels d ts ++ more.
  Proof.
    induction d as [|d IH]; intros ts.
    - exists (map root (flat_map kids ts)). cbn [levels]. rewrite !app_nil_r. reflexivity.
    - destruct (IH (flat_map kids ts)) as [more E]. exists more.
      change (levels (S (S d)) ts) with (map root ts ++ levels (S d) (flat_map kids ts)).
      change (levels (S d) ts) with (map root ts ++ levels d (flat_map kids ts)).
      rewrite E, app_assoc. reflexivity.
  Qed.
  Theorem levels_prefix : forall d d' (ts : list tree), d <= d' -> exists more, levels d' ts = levels d ts ++ more.
  Proof.
    intros d d' ts H. induction H as [|m H IH].
    - exists []. rewrite app_nil_r. reflexivity.
    - destruct IH as [more E]. destruct (levels_extend m ts) as [more' E']. exists (more ++ more').
      rewrite E', E, app_assoc. reflexivity.
  Qed.
  (* the searches themselves: a larger limit extends the unfiltered result, hence (filter being a
     homomorphism for ++) the filtered one *)
  Theorem find_entity_prefix (t : tree) limit limit' filt : limit <= limit' ->
    exists more, find true t limit' filt = find true t limit filt ++ more.
  Proof.
    intros H. rewrite !find_entity_root. destruct (levels_prefix limit limit' [t] H) as [more E].
    exists (filter filt more). rewrite E, filter_app. reflexivity.
  Qed.
  Theorem find_entity_limit0 (t : tree) filt : find true t 0 filt = filter filt [root t].
  Proof. rewrite find_entity_root. reflexivity. Qed.

  Lemma fsize_app (a b : list tree) : fsize (a ++ b) = fsize a + fsize b.
  Proof. unfold fsize. induction a as [|t a IH]; cbn [app fold_right]; [reflexivity|]. rewrite IH. lia. Qed.
  Lemma fsize_kids (ts : list tree) : length ts + fsize (flat_map kids ts) = fsize ts.
  Proof.
    induction ts as [|t ts IH]; [reflexivity|]. cbn [flat_map length]. rewrite fsize_app.
    change (fsize (t :: ts)) with (size t + fsize ts). rewrite size_unfold. lia.
  Qed.
  Theorem levels_length : forall d (ts : list tree), length (levels d ts) <= fsize ts.
  Proof.
    induction d as [|d IH]; intros ts; cbn [levels]; rewrite app_length, map_length.
    - cbn. pose proof (fsize_kids ts). lia.
    - pose proof (IH (flat_map kids ts)). pose proof (fsize_kids ts). lia.
  Qed.
  Lemma filter_len {B} (f : B -> bool) (l : list B) : length (filter f l) <= length l.
  Proof. induction l as [|x l IH]; cbn; [lia|]. destruct (f x); cbn; lia. Qed.
  Theorem find_length (t : tree) limit filt : length (find true t limit filt) <= size t.
  Proof.
    rewrite find_entity_root. pose proof (levels_length limit [t]) as H. cbn [fsize fold_right] in H.
    pose proof (filter_len filt (levels limit [t])). lia.
  Qed.
End P2.
