"""C14 -- validation reports every catalogued inconsistency, nothing on consistent files."""
import copy
import os
import random
import sys

sys.path.insert(0, os.path.dirname(os.path.dirname(os.path.abspath(__file__))))
import core  # noqa: E402
from coqlit import cZ, cnat, clist, cstr, cbool  # noqa: E402

ID = "C14"
THEOREMS = ["c14_consistent_silent", "c14_entity_errors", "c14_dimension_errors", "c14_descriptor_count", "c14_tag_errors",
            "c14_mtag_errors"]
HEADER = ("From Coq Require Import ZArith List.\nFrom NixV Require Import Base.Prelude Pure.Validator Pure.ValidatorCheck.\n"
          "Import ListNotations.\nOpen Scope Z_scope.\n")
ATOMIC = ["ms", "s", "mV", "Hz", "kHz", "uA", "m", "K"]
FAMILY = {"ms": ["s", "ms", "us"], "s": ["s", "ms", "ks"], "mV": ["V", "mV", "uV"], "Hz": ["Hz", "kHz", "MHz"], "kHz": ["Hz", "kHz"],
          "uA": ["A", "mA", "uA"], "m": ["m", "mm", "km"], "K": ["K", "mK"]}
BAD_DIM_UNITS = ["mV/s", "abc", "ms*Hz", "furlong"]
OK_ENT = {"name": True, "type": True, "date": True}


def gen_dim(rnd, n):
    k = rnd.random()
    if k < 0.34:
        return ["set", rnd.choice([0, n])]
    if k < 0.67:
        return ["sampled", rnd.choice([1, 250, 1000, 12345]), rnd.choice([None, None] + ATOMIC)]
    t0 = rnd.randint(-5, 5)
    ticks = [t0]
    for _ in range(n - 1):
        ticks.append(ticks[-1] + rnd.randint(1, 4))
    # the fourth field says where the ticks live: in the descriptor (0), in a linked vector (1), in a row of a linked matrix (2)
    return ["range", ticks, rnd.choice([None, None] + ATOMIC), rnd.choice([0, 0, 1, 2])]


def dim_unit(d):
    if d[0] == "set":
        return ""
    return d[2] or ""


def gen_consistent(rnd):
    arrays = []
    for _ in range(rnd.randint(1, 4)):
        if arrays and rnd.random() < 0.3:
            arrays.append(copy.deepcopy(rnd.choice(arrays)))      # a twin: several references of one tag
            continue
        shape = [rnd.randint(1, 4) for _ in range(rnd.randint(1, 3))]
        arrays.append({"ent": dict(OK_ENT), "shape": shape, "dims": [gen_dim(rnd, n) for n in shape]})

    def refs_units():
        if not arrays or rnd.random() < 0.25:
            rank = rnd.randint(1, 3)
            units = rnd.choice([[], [rnd.choice(["", "mV", "s", "mV/s"]) for _ in range(rank)]])
            return [], rank, units
        i = rnd.randrange(len(arrays))
        sig = [dim_unit(d) for d in arrays[i]["dims"]]
        same = [j for j, a in enumerate(arrays) if [dim_unit(d) for d in a["dims"]] == sig and len(a["shape"]) == len(arrays[i]["shape"])]
        refs = sorted(set([i] + [j for j in same if rnd.random() < 0.5]))
        units = [(rnd.choice(FAMILY[u]) if u else "") for u in sig]
        return refs, len(sig), units
    tags = []
    for _ in range(rnd.randint(0, 3)):
        refs, rank, units = refs_units()
        tags.append({"ent": dict(OK_ENT), "npos": rank, "next": rnd.choice([0, rank]), "units": units, "refs": refs})
    mtags = []
    for _ in range(rnd.randint(0, 3)):
        refs, rank, units = refs_units()
        n = rnd.randint(1, 4)
        shape = [n] if (rank == 1 and rnd.random() < 0.5) else [n, rank]
        mtags.append({"ent": dict(OK_ENT), "pos": shape, "ext": rnd.choice([None, list(shape)]), "units": units, "refs": refs})
    others = [dict(OK_ENT) for _ in range(rnd.randint(1, 6))]
    return {"arrays": arrays, "tags": tags, "mtags": mtags, "others": others}


def inject(rnd, r):
    """one catalogue inconsistency at one eligible object; returns (label, (group, index)) or None"""
    kinds = ["ent"] * 2 + ["array"] * 5 + (["tag"] * 3 if r["tags"] else []) + (["mtag"] * 3 if r["mtags"] else [])
    k = rnd.choice(kinds)
    if k == "ent":
        grp = rnd.choice(["arrays", "tags", "mtags", "others"])
        if not r[grp]:
            return None
        i = rnd.randrange(len(r[grp]))
        e = r[grp][i] if grp == "others" else r[grp][i]["ent"]
        what = rnd.choice(["name", "type", "date"])
        e[what] = False
        return ("missing " + what, (grp, i))
    if k == "array":
        i = rnd.randrange(len(r["arrays"]))
        a = r["arrays"][i]
        what = rnd.choice(["missing descriptor", "surplus descriptor", "tick count", "label count", "no ticks", "unsorted ticks",
                           "dimension unit", "no interval", "zero interval", "negative interval"])
        dims = a["dims"]
        if what == "missing descriptor":
            dims.pop()
        elif what == "surplus descriptor":
            dims.append(["set", 0])
        else:
            want = {"tick count": "range", "no ticks": "range", "unsorted ticks": "range", "label count": "set",
                    "no interval": "sampled", "zero interval": "sampled", "negative interval": "sampled"}.get(what)
            # only descriptors that describe an axis (an earlier injection may have added a surplus one)
            cand = [d for j, d in enumerate(dims) if j < len(a["shape"]) and (d[0] == want if want else d[0] != "set")]
            if not cand:
                return None
            d = rnd.choice(cand)
            if what == "tick count":
                if rnd.random() < 0.5 and len(d[1]) > 1:
                    d[1].pop()
                else:
                    d[1].append(d[1][-1] + 1)
            elif what == "no ticks":
                d[1] = []
            elif what == "unsorted ticks":
                if len(d[1]) < 2:
                    return None
                j = rnd.randrange(len(d[1]) - 1)
                d[1][j + 1] = d[1][j] - rnd.choice([0, 1])
            elif what == "label count":
                n = a["shape"][next(j for j, x in enumerate(dims) if x is d)]       # the axis of THIS descriptor (not of an equal one)
                d[1] = n + rnd.choice([-1, 1, 2]) if n > 1 else n + 1
            elif what == "dimension unit":
                d[2] = rnd.choice(BAD_DIM_UNITS)
            elif what == "no interval":
                d[1] = None
            elif what == "zero interval":
                d[1] = 0
            elif what == "negative interval":
                d[1] = -rnd.choice([1, 500])
        return (what, ("arrays", i))
    if k == "tag":
        i = rnd.randrange(len(r["tags"]))
        t = r["tags"][i]
        what = rnd.choice(["no position", "position length", "extent length", "unit count", "tag unit", "unconvertible unit",
                           "reference of another rank"])
        if what == "reference of another rank":
            other = [j for j, a in enumerate(r["arrays"]) if len(a["shape"]) != t["npos"] and j not in t["refs"]]
            if not other or not t["refs"]:
                return None
            t["refs"] = t["refs"] + [rnd.choice(other)]
            return (what, ("tags", i))
        if not t["refs"] and what in ("position length", "extent length", "unit count"):
            return None        # lengths are defined relative to the references (DESIGN: interpretation)
        if what == "no position":
            t["npos"] = 0
        elif what == "position length":
            t["npos"] += rnd.choice([1, -1]) if t["npos"] > 1 else 1
        elif what == "extent length":
            t["next"] = t["npos"] + 1
        elif what == "unit count":
            if t["units"] and rnd.random() < 0.5:
                t["units"] = t["units"][:-1]
            else:
                t["units"] = t["units"] + ["s"]
        elif what == "tag unit":
            if not t["units"]:
                return None
            t["units"][rnd.randrange(len(t["units"]))] = rnd.choice(["abc", "furlong"])
        else:
            if not t["units"] or not t["refs"]:
                return None
            j = rnd.randrange(len(t["units"]))
            u = t["units"][j]
            if u and "^" not in u and rnd.random() < 0.5:
                t["units"][j] = u + rnd.choice(["^2", "^-1", "^3"])      # same base unit, another exponent
            else:
                t["units"][j] = "cd" if u != "cd" else "mol"
        return (what, ("tags", i))
    i = rnd.randrange(len(r["mtags"]))
    t = r["mtags"][i]
    what = rnd.choice(["no positions", "empty positions", "positions width", "extents shape", "extents width", "unit count", "tag unit",
                       "reference of another rank"])
    if what == "reference of another rank":
        width = t["pos"][1] if t["pos"] and len(t["pos"]) > 1 else 1
        other = [j for j, a in enumerate(r["arrays"]) if len(a["shape"]) != width and j not in t["refs"]]
        if not other or not t["refs"] or t["pos"] is None:
            return None
        t["refs"] = t["refs"] + [rnd.choice(other)]
        return (what, ("mtags", i))
    if not t["refs"] and what in ("positions width", "extents shape", "extents width", "unit count"):
        return None
    if t["pos"] is None and what in ("empty positions", "positions width", "extents shape", "extents width"):
        return None          # an earlier injection already removed the positions
    if what == "no positions":
        t["pos"] = None
    elif what == "empty positions":
        t["pos"] = [0] + t["pos"][1:]
    elif what == "positions width":
        t["pos"] = [t["pos"][0], (t["pos"][1] if len(t["pos"]) > 1 else 1) + 1]
    elif what == "extents shape":
        t["ext"] = [t["pos"][0] + 1] + t["pos"][1:]
    elif what == "extents width":
        t["ext"] = [t["pos"][0], (t["pos"][1] if len(t["pos"]) > 1 else 1) + 1]
    elif what == "unit count":
        t["units"] = t["units"] + ["s"]
    else:
        if not t["units"]:
            return None
        t["units"][rnd.randrange(len(t["units"]))] = "abc"
    return (what, ("mtags", i))


def declarative(r):
    """the catalogue read declaratively off the recipe, for every code that does not involve unit classification
    (codes 24-26, 5xx are left to the model): {(group, index): set(codes)} -- used to turn a model/implementation
    disagreement into a named failing input"""
    out = {}
    for i, a in enumerate(r["arrays"]):
        c = set()
        e = a["ent"]
        c |= ({1} if not e["name"] else set()) | ({2} if not e["type"] else set()) | ({3} if not e["date"] else set())
        if len(a["dims"]) != len(a["shape"]):
            c.add(5)
        for k, (d, n) in enumerate(zip(a["dims"], a["shape"]), 1):
            if d[0] == "range":
                if len(d[1]) != n:
                    c.add(100 + k)
                if not d[1]:
                    c.add(300 + k)
                elif any(x >= y for x, y in zip(d[1], d[1][1:])):
                    c.add(400 + k)
            elif d[0] == "set":
                if d[1] and d[1] != n:
                    c.add(200 + k)
            else:
                if d[1] is None or d[1] == 0:
                    c.add(600 + k)
                elif d[1] < 0:
                    c.add(700 + k)
        out[("arrays", i)] = c
    for i, t in enumerate(r["tags"]):
        c = set()
        e = t["ent"]
        c |= ({1} if not e["name"] else set()) | ({2} if not e["type"] else set()) | ({3} if not e["date"] else set())
        ranks = [len(r["arrays"][j]["shape"]) for j in t["refs"]]
        if t["npos"] == 0:
            c.add(20)
        if ranks:
            if any(k != t["npos"] for k in ranks):
                c.add(21)
            if t["next"]:
                if t["next"] != t["npos"]:
                    c.add(23)
                if any(k != t["next"] for k in ranks):
                    c.add(22)
        out[("tags", i)] = c
    for i, t in enumerate(r["mtags"]):
        c = set()
        e = t["ent"]
        c |= ({1} if not e["name"] else set()) | ({2} if not e["type"] else set()) | ({3} if not e["date"] else set())
        ranks = [len(r["arrays"][j]["shape"]) for j in t["refs"]]
        width = lambda sh: 1 if len(sh) == 1 else sh[1]
        if t["pos"] is None or t["pos"][0] == 0:
            c.add(30)
        if ranks:
            if t["pos"] is not None and any(k != width(t["pos"]) for k in ranks):
                c.add(31)
            if t["ext"] is not None and t["ext"][0] != 0:
                if t["pos"] is not None and t["pos"] != t["ext"]:
                    c.add(33)
                if any(k != width(t["ext"]) for k in ranks):
                    c.add(32)
        out[("mtags", i)] = c
    for i, e in enumerate(r["others"]):
        out[("others", i)] = ({1} if not e["name"] else set()) | ({2} if not e["type"] else set()) | ({3} if not e["date"] else set())
    return out


UNIT_CODES = lambda c: c in (24, 25, 26) or 500 <= c < 600


def ostr(s):
    return "(@None str)" if s is None else "(Some %s)" % cstr(s)


def ent_lit(e):
    return "(mkEnt %s %s %s)" % (cbool(e["name"]), cbool(e["type"]), cbool(e["date"]))


def dim_lit(d):
    if d[0] == "set":
        return "(DSet %s)" % cnat(d[1])
    if d[0] == "sampled":
        return "(DSampled %s %s)" % ("(@None Z)" if d[1] is None else "(Some %s)" % cZ(d[1]), ostr(d[2]))
    return "(DRange %s %s)" % (clist([cZ(x) for x in d[1]], "Z"), ostr(d[2]))


def nlist(l):
    return clist([cnat(x) for x in l], "nat")


def file_lit(r):
    arrs = clist(["(mkArr %s %s %s)" % (ent_lit(a["ent"]), nlist(a["shape"]), clist([dim_lit(d) for d in a["dims"]], "dimd"))
                  for a in r["arrays"]], "arr")
    tags = clist(["(mkTag %s %s %s %s %s)" % (ent_lit(t["ent"]), cnat(t["npos"]), cnat(t["next"]),
                                              clist([cstr(u) for u in t["units"]], "str"), nlist(t["refs"])) for t in r["tags"]], "tag")
    mts = clist(["(mkMTag %s %s %s %s %s)" % (ent_lit(t["ent"]),
                                              "(@None (list nat))" if t["pos"] is None else "(Some %s)" % nlist(t["pos"]),
                                              "(@None (list nat))" if t["ext"] is None else "(Some %s)" % nlist(t["ext"]),
                                              clist([cstr(u) for u in t["units"]], "str"), nlist(t["refs"])) for t in r["mtags"]], "mtag")
    oth = clist([ent_lit(e) for e in r["others"]], "ent")
    return "(mkFile %s %s %s %s)" % (arrs, tags, mts, oth)


def run(ctx):
    rnd = random.Random(ctx.seed)
    thorough = ctx.tier == "thorough"
    st = core.proof_stage(ctx, [], ["Pure/ValidatorCheck.vo", "Props/C14.vo"], "Props/C14.v", THEOREMS)
    ctx.trusted_base = [
        "Coq 8.16.1 kernel; no native_compute",
        "hand-written model Pure/Validator.v of nixio/validator.py over an abstract description of the file, tied by correspondence "
        "on files built from recipes (this run); unit classification is Pure/Units.v with tables regenerated from nixio/util/units.py",
        "the file builder harness/impl_validator.py (public API for the consistent part, h5py for what the API refuses to create)",
    ]
    ctx.assumptions = ["every property theorem: Closed under the global context"]
    cases, injected = [], []
    for _ in range(2400 if thorough else 320):
        r = gen_consistent(rnd)
        labels = []
        nin = rnd.choices([0, 1, 2], [0.25, 0.45, 0.30])[0]
        for _ in range(nin):
            # a second injection may not fit what the first one left (no descriptor to drop, no positions to narrow):
            # it is then skipped as a whole
            trial = copy.deepcopy(r)
            try:
                x = inject(rnd, trial)
            except (IndexError, TypeError, KeyError, ValueError):
                x = None
            if x is not None:
                r = trial
                labels.append(x)
        cases.append(r)
        injected.append(labels)
    impl = ctx.run_impl_cases("impl_validator.py", cases, jobs=8, timeout=3000)
    failures, terms, idx = [], [], []
    groups = ["arrays", "tags", "mtags", "others"]
    for k, (r, labels, res) in enumerate(zip(cases, injected, impl)):
        inp = {"recipe": r, "injected": [[a, list(b)] for a, b in labels]}
        if "build_error" in res:
            st["broken"].append("the harness could not build a recipe: %s" % res["build_error"])
            continue
        if "validate_error" in res:
            failures.append(("File.validate() raised instead of reporting", inp, {"error": res["validate_error"]}))
            continue
        if res["extra"]:
            failures.append(("an object outside the recipe (a consistent helper array) was reported", inp, {"extra": res["extra"]}))
            continue
        per = res["errors"]
        flat = []
        for g in groups:
            flat += [(g, i) for i in range(len(r[g]))]
        touched = set(tuple(b) for _, b in labels)
        touched_arrays = set(i for g, i in touched if g == "arrays")
        bad = None
        # two injections can cancel each other (a dropped and an added descriptor; a tag with one unit too few whose
        # reference then loses a descriptor): "every injection is reported" is only demanded of injections that
        # cannot interact - different objects, none of them an array referenced by the other. The declarative catalogue
        # and the model below judge every recipe whatever was injected.
        objs = [tuple(b) for _, b in labels]
        interact = len(objs) == 2 and (objs[0] == objs[1] or any(
            g2 == "arrays" and g1 in ("tags", "mtags") and i2 in r[g1][i1]["refs"]
            for (g1, i1), (g2, i2) in ((objs[0], objs[1]), (objs[1], objs[0]))))
        for (g, i), errs in zip(flat, per):
            dependent = g in ("tags", "mtags") and any(a in touched_arrays for a in r[g][i]["refs"])
            if errs and (g, i) not in touched and not dependent:
                bad = ("errors are reported for an object without any inconsistency", {"object": [g, i], "codes": errs})
            if not errs and (g, i) in touched and not interact:
                bad = ("an injected inconsistency is not reported for its object", {"object": [g, i],
                                                                                    "injected": [a for a, b in labels if tuple(b) == (g, i)]})
            if 999 in errs or 4 in errs:
                bad = ("an error outside the catalogue was reported", {"object": [g, i], "codes": errs})
        if bad:
            failures.append((bad[0], inp, bad[1]))
            continue
        terms.append("(%s, %s)" % (file_lit(r), clist([clist([cZ(c) for c in e], "Z") for e in per], "(list Z)")))
        idx.append(k)
    disagreements = []
    if core.vo_ok("Pure/ValidatorCheck.v"):
        verd, errs = core.eval_verdicts(ctx.workdir, HEADER, "validator_case", "check_validator", terms, tag="val", shard_size=40)
        for e in errs:
            st["broken"].append("model evaluation failed: %s" % e)
        for i, code in verd:
            k = idx[i]
            want = declarative(cases[k])
            flat = [(g, j) for g in groups for j in range(len(cases[k][g]))]
            named = None
            for key, errs in zip(flat, impl[k]["errors"]):
                got = set(c for c in errs if not UNIT_CODES(c))
                if got != want[key]:
                    named = ("the report of an object differs from the catalogue", {"object": list(key), "missing": sorted(want[key] - got),
                                                                                     "surplus": sorted(got - want[key])})
                    break
            inp = {"recipe": cases[k], "injected": [[a, list(b)] for a, b in injected[k]]}
            if named:
                failures.append((named[0], inp, named[1]))
            else:
                disagreements.append(dict(inp, implementation=impl[k]["errors"]))
    else:
        st["broken"].append("model Pure/ValidatorCheck.v does not build")
    if failures:
        failures.sort(key=lambda x: len(repr(x[1])))
        what, inp, obs = failures[0]
        rp = ctx.write_replay("%s-seed%d.json" % (ID, ctx.seed), {"property": ID, "kind": what, "input": inp, "observed": obs,
                                                                  "count": len(failures), "kinds": sorted(set(f[0] for f in failures)),
                                                                  "broken_obligations": st["broken"]})
        ctx.violation("%d recipes violate C14, e.g. %s: %r" % (len(failures), what, obs), rp)
    elif disagreements:
        disagreements.sort(key=lambda x: len(repr(x)))
        st["broken"].append("correspondence: the validator model and the implementation disagree on %d recipes, e.g. %r" % (len(disagreements), disagreements[0]))
    hist = {}
    for labels in injected:
        for a, _ in labels:
            hist[a] = hist.get(a, 0) + 1
    ctx.coverage.update({
        "evaluations": len(cases), "distinct_nontrivial": len(set(repr(c) for c in cases)),
        "rule": "files built from recipes: 1-4 arrays of rank 1-3 (twins included) with every mix of set / sampled / range "
                "descriptors and atomic SI units, 0-3 tags and multi-tags referencing arrays of matching rank and convertible units "
                "(other prefix of the same unit), 1-6 further entities (blocks, groups, nested sources and sections); then 0 (25%), "
                "1 (45%) or 2 (30%) catalogue inconsistencies injected at random eligible objects; the file is closed, reopened "
                "read-only and validated; errors per object compared with the model (exact sets) and with what was injected "
                "(untouched objects silent, touched objects reported).",
        "injections": hist, "consistent_files": sum(1 for l in injected if not l),
        "disagreements": len(disagreements), "spec_failures": len(failures),
        "samples": [{"injected": [[a, list(b)] for a, b in injected[1]], "arrays": len(cases[1]["arrays"])}],
    })
    return st
