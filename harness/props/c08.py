"""C08 -- tagged data is exactly the samples whose coordinates lie in the tagged region."""
import os
import random
import sys
from fractions import Fraction as F

sys.path.insert(0, os.path.dirname(os.path.dirname(os.path.abspath(__file__))))
import core  # noqa: E402
from coqlit import cZ, cnat, clist, cstr, cbool, cQ  # noqa: E402

ID = "C08"
THEOREMS = ["c08_axis_exact", "c08_tag_data_exact", "c08_mtag_data_exact", "c08_no_data_reason", "c08_feature_tagged",
            "c08_feature_indexed_untagged"]
HEADER = ("From Coq Require Import ZArith List QArith.\nFrom NixV Require Import Base.Prelude Pure.Dims Pure.Tagging Pure.TaggingCheck.\n"
          "Import ListNotations.\n")
FAMILIES = [["us", "ms", "s", "ks"], ["uV", "mV", "V", "kV"], ["mHz", "Hz", "kHz", "MHz"], ["mm", "m", "km"]]
EXP = {"u": -6, "m": -3, "": 0, "k": 3, "M": 6}


def prefix_exp(u, base):
    return EXP[u[:len(u) - len(base)]]


def gen_axis(rnd, n, force_units=None):
    """an axis with n stored samples: descriptor (in dim units), the tag unit, the scaling tag->dim"""
    kind = rnd.choice(["sampled", "range", "set"])
    if kind == "set":
        return {"kind": "set", "nlabels": rnd.choice([0, n]), "dunit": None, "tunit": rnd.choice([None, "", "none"]), "s": F(1), "g": F(1)}
    if (rnd.random() < 0.3 and force_units is None) or force_units is False:
        dunit, tunit, s = None, None, F(1)
    else:
        fam = rnd.choice(FAMILIES)
        base = fam[-2] if fam[-2] in ("s", "V", "Hz", "m") else fam[1]
        base = [u for u in fam if u in ("s", "V", "Hz", "m")][0]
        dunit, tunit = rnd.choice(fam), rnd.choice(fam)
        e = prefix_exp(tunit, base) - prefix_exp(dunit, base)
        s = F(10) ** e
    g = max(s, F(1))
    if dunit is None and rnd.random() < 0.3:
        # a unit-less axis on a very fine scale (steps of 2^-30 ~ 1e-9, exact in binary): extents and positions are tiny
        # numbers, far below any absolute tolerance, and still have to be taken for what they are
        g = g * F(1, 2 ** 30)
    if kind == "sampled":
        if s == 1 and rnd.random() < 0.3:
            # decimal intervals: the stored float is not the decimal; the exact value of the float is what the model gets
            itv = F(rnd.choice([0.1, 0.2, 0.05, 0.3, 0.001]))
            off = rnd.choice([None, F(0), F(0.1), F(-0.3)])
            return {"kind": "sampled", "off": off, "itv": itv, "dunit": dunit, "tunit": tunit, "s": s, "g": g, "decimal": True}
        itv = g * rnd.choice([F(1, 4), F(1, 2), F(1), F(3, 2), F(2), F(5)])
        off = rnd.choice([None, F(0), g * F(1, 2), -g, g * 3])
        return {"kind": "sampled", "off": off, "itv": itv, "dunit": dunit, "tunit": tunit, "s": s, "g": g}
    t = g * rnd.choice([F(-2), F(0), F(1, 2), F(3)])
    ticks = [t]
    for _ in range(n - 1):
        # repeated ticks (simultaneous events) are ascending too: every sample with the coordinate belongs to the region
        t += g * rnd.choice([F(0), F(1, 4), F(1, 2), F(1), F(2), F(7, 2)])
        ticks.append(t)
    return {"kind": "range", "ticks": ticks, "dunit": dunit, "tunit": tunit, "s": s, "g": g}


def coords(ax, n):
    if ax["kind"] == "sampled":
        return [(ax["off"] or F(0)) + j * ax["itv"] for j in range(n)]
    if ax["kind"] == "range":
        return list(ax["ticks"])
    return [F(j) for j in range(n)]


def gen_region(rnd, ax, n, nice=False):
    """(start, width) in DIM units, chosen on / between / outside the stored samples"""
    c = coords(ax, n)
    if ax.get("decimal"):
        # positions the way a user writes them: the decimal literal (0.3, not 3 * 0.1), i.e. the float nearest to the
        # exact decimal - a hair above or below the sample as the dimension computes it
        from decimal import Decimal
        di = Decimal(repr(float(ax["itv"])))
        do = Decimal(repr(float(ax["off"] or 0)))

        def lit(j2):
            return F(float(j2 * di + do))
        j = rnd.randrange(n)
        start = lit(j) if rnd.random() < 0.7 else lit(Decimal(j) + Decimal("0.5"))
        k = rnd.random()
        if k < 0.4:
            return start, None
        j2 = rnd.randrange(j, n)
        stop = lit(j2) if rnd.random() < 0.7 else lit(Decimal(j2) + Decimal("0.5"))
        return start, F(float(stop) - float(start)) if stop >= start else F(0)
    step = ax["itv"] if ax["kind"] == "sampled" else (ax["g"] if ax["kind"] == "range" else F(1))
    k = rnd.random()
    j = rnd.randrange(n)
    if nice:
        # mostly valid: start on a sample (or between two, not after the last), a width that stays inside
        j = rnd.randrange(max(n - 1, 1))
        start = c[j] if (rnd.random() < 0.6 or j + 1 >= n) else c[j] + (c[j + 1] - c[j]) / 2
        k = rnd.random()
        if k < 0.3:
            return start, None
        if k < 0.4:
            return start, F(0)
        j2 = rnd.randrange(j, n)
        if k < 0.7:
            return start, max(c[j2] - start, F(0))
        return start, max(c[j2] - start, F(0)) + (c[j2 + 1] - c[j2]) / 2 if j2 + 1 < n else max(c[j2] - start, F(0))
    if k < 0.35:
        start = c[j]
    elif k < 0.65:
        start = c[j] + (c[j + 1] - c[j]) / 2 if j + 1 < n else c[j] + step / 4
    elif k < 0.8:
        start = c[0] - step * rnd.choice([F(1, 4), 1, 3])
    elif k < 0.92:
        start = c[-1] + step * rnd.choice([F(1, 4), 1, 5])
    else:
        start = c[-1]
    k = rnd.random()
    if k < 0.25:
        width = None
    elif k < 0.35:
        width = F(0)
    elif k < 0.6:
        j2 = rnd.randrange(n)
        width = abs(c[j2] - c[j])
    elif k < 0.85:
        width = step * rnd.choice([F(1, 4), F(1, 2), F(3, 4), F(5, 4), F(5, 2)])
    elif k < 0.95:
        width = step * rnd.choice([10, 40])
    else:
        width = -step * rnd.choice([F(1, 2), 1])
    return start, width


PF = {"u": 1.0e-6, "m": 1.0e-3, "k": 1.0e3, "M": 1.0e6}


def float_scale(ax):
    """the factor as nixio.util.units.scaling computes it in floating point"""
    t, d = ax["tunit"], ax["dunit"]
    if ax["kind"] == "set" or t is None or d is None:
        return 1.0
    base = [u for u in ("s", "V", "Hz", "m") if t.endswith(u) and len(t) - len(u) <= 1][0]
    tp, dp = t[:len(t) - len(base)], d[:len(d) - len(base)]
    if tp == dp:
        return 1.0
    if not dp and tp:
        return PF[tp]
    if not tp and dp:
        return 1.0 / PF[dp]
    return PF[tp] / PF[dp]


def exact_float(x):
    return F(float(x)) == x


def gen_case(rnd):
    rank = rnd.randint(1, 3)
    shape = [rnd.randint(1, 5) for _ in range(rank)]
    nice = rnd.random() < 0.55
    fu = rnd.choice([True, True, False]) if nice else None
    axes = [gen_axis(rnd, n, fu) for n in shape]
    npos = rank if rnd.random() < 0.8 else rnd.randint(1, rank)
    regions = [gen_region(rnd, axes[i], shape[i], nice) for i in range(npos)]
    has_ext = any(w is not None for _, w in regions) and rnd.random() < 0.9
    pos, ext = [], []
    for (st, w), ax in zip(regions, axes):
        pos.append(st / ax["s"])
        ext.append((w if w is not None else F(0)) / ax["s"])
    if not has_ext:
        ext = []
    elif rnd.random() < 0.07 and not nice:
        ext = ext[:-1] if len(ext) > 1 else ext + [F(1)]        # length mismatch
    # units of the tag: none at all, or one per axis
    if all(ax["tunit"] is None for ax in axes[:npos]) and rnd.random() < 0.7:
        units = None
    else:
        units = [(ax["tunit"] if ax["tunit"] is not None else ("" if ax["kind"] == "set" else None)) for ax in axes[:npos]]
        if any(u is None for u in units):
            # a unit-less dimension next to dimensions with units: the tag has to give SOME text there
            units = [("" if u is None else u) for u in units]
        if rnd.random() < 0.05 and len(units) > 1 and not nice:
            units = units[:-1]
        if rnd.random() < 0.05 and not nice:
            units[rnd.randrange(len(units))] = rnd.choice(["K", "abc", "mol"])
    mtag = rnd.random() < 0.5
    what = rnd.choices([0, 1, 2, 3], [0.6, 0.2, 0.1, 0.1])[0]
    rows = [[F(rnd.randint(-4, 9), 2) for _ in range(npos)] for _ in range(rnd.randint(0, 3))]
    posidx = rnd.randint(0, len(rows))
    flat = mtag and npos == 1 and len(ext) <= 1 and rnd.random() < 0.5
    c = {"mtag": mtag, "what": what, "posidx": posidx, "rows": rows, "flat_positions": flat, "shape": shape, "axes": axes,
         "pos": pos, "ext": ext, "units": units, "rule": rnd.choice(["Exclusive", "Inclusive"])}
    # float exactness of what the implementation will compute
    for i, p in enumerate(pos):
        s = axes[i]["s"]
        fs = float_scale(axes[i])
        if not exact_float(p) or not exact_float(p * s) or float(p) * fs != float(p * s):
            return None
        if i < len(ext):
            e = ext[i]
            if not exact_float(e) or float(e) * fs + float(p * s) != float(e * s + p * s) or not exact_float(e * s + p * s):
                return None
    return c


def frac(x):
    return [x.numerator, x.denominator]


def to_impl(c):
    dims = []
    for ax in c["axes"]:
        if ax["kind"] == "sampled":
            dims.append(["sampled", None if ax["off"] is None else frac(ax["off"]), frac(ax["itv"]), ax["dunit"]])
        elif ax["kind"] == "range":
            dims.append(["range", [frac(t) for t in ax["ticks"]], ax["dunit"]])
        else:
            dims.append(["set", ax["nlabels"]])
    return {"mtag": c["mtag"], "what": c["what"], "posidx": c["posidx"], "rows": [[frac(x) for x in r] for r in c["rows"]],
            "flat_positions": c["flat_positions"], "shape": c["shape"], "dims": dims, "pos": [frac(x) for x in c["pos"]],
            "ext": [frac(x) for x in c["ext"]], "units": c["units"], "rule": c["rule"]}


def ostr(s):
    return "(@None str)" if s is None else "(Some %s)" % cstr(s)


def dim_lit(ax):
    if ax["kind"] == "sampled":
        return "(DdSampled %s %s %s)" % (cQ(ax["off"] or F(0)), cQ(ax["itv"]), ostr(ax["dunit"]))
    if ax["kind"] == "range":
        return "(DdRange %s %s)" % (clist([cQ(t) for t in ax["ticks"]], "Q"), ostr(ax["dunit"]))
    return "(DdSet %s)" % cnat(ax["nlabels"])


def obs_lit(r):
    if r[0] == "data":
        return "(OData %s %s)" % (clist([cZ(x) for x in r[1]], "Z"), clist([cZ(x) for x in r[2]], "Z"))
    if r[0] == "invalid":
        return "OInvalid"
    return "(OErr %d%%N)" % r[1]


def case_lit(c, r):
    units = "(@None (list str))" if c["units"] is None else "(Some %s)" % clist([cstr(u) for u in c["units"]], "str")
    return "(mkCase %s %s %s %s %s %s %s %s %s %s)" % (
        cbool(c["mtag"]), cnat(c["what"]), cZ(c["posidx"]), clist([dim_lit(a) for a in c["axes"]], "ddesc"),
        clist([cZ(n) for n in c["shape"]], "Z"), clist([cQ(x) for x in c["pos"]], "Q"), clist([cQ(x) for x in c["ext"]], "Q"),
        units, c["rule"], obs_lit(r))


def oracle(c, r):
    """model-free: the exact sample sets with exact rationals.  returns None or (what, detail)"""
    if r[0] == "invalid_but_data":
        return ("an invalid view handed out data", {"data": r[1]})
    if r[0] == "build_error":
        return None
    shape, axes = c["shape"], c["axes"]
    if c["what"] in (2, 3):
        if c["what"] == 2 and c["mtag"]:
            i = c["posidx"]
            if i >= shape[0]:
                return None if r[0] != "data" else ("an indexed feature returned data for an index beyond the feature array", {})
            want_shape = [1] + shape[1:]
            size = 1
            for n in shape[1:]:
                size *= n
            want = list(range(i * size, (i + 1) * size))
        else:
            want_shape = list(shape)
            size = 1
            for n in shape:
                size *= n
            want = list(range(size))
        if r[0] != "data" or r[1] != want_shape or r[2] != want:
            return ("feature data does not follow the link type", {"want_shape": want_shape, "got": r[:2]})
        return None
    # tagged region; boundaries inside the float tolerance band of a sample (but not on it) are C07's known band:
    # there the exact oracle does not apply and only the model (which has the tolerance) decides
    for i, n in enumerate(shape):
        ax = axes[i]
        if ax["kind"] == "sampled" and i < len(c["pos"]):
            start = c["pos"][i] * ax["s"]
            e = c["ext"][i] if i < len(c["ext"]) else None
            for b in (start, start + (e * ax["s"] if e is not None else 0)):
                x = (b - (ax["off"] or 0)) / ax["itv"]
                near = round(x)
                if x != near and abs(x - near) <= F(1, 10 ** 8) + F(1, 10 ** 5) * abs(near):
                    return None
    sets = []
    past = False
    degenerate = False
    for i, n in enumerate(shape):
        if i >= len(c["pos"]):
            sets.append(list(range(n)))
            continue
        ax = axes[i]
        start = c["pos"][i] * ax["s"]
        e = c["ext"][i] if i < len(c["ext"]) else None
        stop = start + (e * ax["s"] if e is not None else 0)
        excl = (c["rule"] == "Exclusive") and e is not None and e > 0
        if stop < start:
            degenerate = True
        cs = coords(ax, n)
        sets.append([j for j in range(n) if start <= cs[j] and (cs[j] < stop if excl else cs[j] <= stop)])
        if stop > cs[-1] or (ax["kind"] == "sampled" and not excl and stop == cs[-1] + 0):
            past = past or stop > cs[-1]
    empty = any(not s for s in sets)
    if r[0] == "data":
        if empty:
            return ("data was returned although no stored sample lies in the region", {"got_shape": r[1]})
        want_shape = [len(s) for s in sets]
        want = [0]
        for s, n in zip(sets, shape):
            want = [w * n + j for w in want for j in s]
        if r[1] != want_shape or r[2] != want:
            return ("the returned samples are not exactly those inside the region", {"want_shape": want_shape, "got_shape": r[1],
                                                                                     "want": want[:12], "got": r[2][:12]})
        return None
    if r[0] == "invalid" or (r[0] == "err" and r[1] == 3):
        if not (empty or past or degenerate):
            return ("an empty / out-of-bounds result although stored samples lie in the region and it does not run past the data",
                    {"result": r, "sets": [len(s) for s in sets]})
    return None


def run(ctx):
    rnd = random.Random(ctx.seed)
    thorough = ctx.tier == "thorough"
    st = core.proof_stage(ctx, [], ["Pure/TaggingCheck.vo", "Props/C08.vo"], "Props/C08.v", THEOREMS)
    ctx.trusted_base = [
        "Coq 8.16.1 kernel; no native_compute",
        "hand-written model Pure/Tagging.v of the slice computation of tags and multi-tags (on top of Pure/Dims.v and Pure/Units.v), "
        "tied by correspondence on generated tagged reads (this run); coordinates are exact rationals, the generator keeps every "
        "float product the implementation performs exact",
    ]
    ctx.assumptions = ["every property theorem: Closed under the global context"]
    cases = []
    want = 6000 if thorough else 700
    while len(cases) < want:
        c = gen_case(rnd)
        if c is not None:
            cases.append(c)
    impl = []
    for k in range(0, len(cases), 400):
        impl += ctx.run_impl("impl_tagging.py", {"cases": [to_impl(c) for c in cases[k:k + 400]]}, timeout=3000)
    failures, terms, idx = [], [], []
    for k, (c, r) in enumerate(zip(cases, impl)):
        if r[0] == "build_error":
            st["broken"].append("the harness could not build a case: %s" % r[1])
            continue
        bad = oracle(c, r)
        if bad:
            failures.append((bad[0], to_impl(c), bad[1]))
            continue
        if r[0] == "err" and r[1] == 9:
            failures.append(("an unexpected exception", to_impl(c), {"error": r[2]}))
            continue
        terms.append(case_lit(c, r))
        idx.append(k)
    disagreements = []
    if core.vo_ok("Pure/TaggingCheck.v"):
        verd, errs = core.eval_verdicts(ctx.workdir, HEADER, "tcase", "check_tagging", terms, tag="tag", shard_size=100)
        for e in errs:
            st["broken"].append("model evaluation failed: %s" % e)
        for i, code in verd:
            disagreements.append({"case": to_impl(cases[idx[i]]), "implementation": impl[idx[i]][:2]})
    else:
        st["broken"].append("model Pure/TaggingCheck.v does not build")
    if failures:
        failures.sort(key=lambda x: len(repr(x[1])))
        what, inp, obs = failures[0]
        rp = ctx.write_replay("%s-seed%d.json" % (ID, ctx.seed), {"property": ID, "kind": what, "input": inp, "observed": obs,
                                                                  "count": len(failures), "kinds": sorted(set(f[0] for f in failures)),
                                                                  "broken_obligations": st["broken"]})
        ctx.violation("%d tagged reads violate C08, e.g. %s: %r" % (len(failures), what, obs), rp)
    elif disagreements:
        disagreements.sort(key=lambda x: len(repr(x)))
        st["broken"].append("correspondence: the tagging model and the implementation disagree on %d cases, e.g. %r" % (len(disagreements), disagreements[0]))
    kinds = {}
    for c, r in zip(cases, impl):
        key = ("mtag" if c["mtag"] else "tag") + ":" + ["tagged", "feat-tagged", "feat-indexed", "feat-untagged"][c["what"]] + ":" + r[0]
        kinds[key] = kinds.get(key, 0) + 1
    ctx.coverage.update({
        "evaluations": len(cases), "distinct_nontrivial": len(set(repr(to_impl(c)) for c in cases)),
        "rule": "arrays of rank 1-3 (1-5 samples per axis) holding their own offsets, unit-less axes also on a 2^-30 scale (tiny "
                "positions and extents), every mix of sampled (offsets, fractional "
                "intervals) / range (irregular ticks, repeated ticks included) / set descriptors; regions starting on, between, before, after the stored "
                "samples, with no / zero / on-sample / fractional / far-too-large / negative extents; positions shorter than the "
                "rank; tags and multi-tags (1-D and 2-D position arrays, the row among others); both stop rules; tag units from "
                "the same SI family with every prefix pair (factors 1e-9..1e9), no units, wrong units, too few units; "
                "feature_data with the three link types. Every float product the implementation performs is exact by "
                "construction (cases where it would not be are dropped). Results compared with the model in Coq and with a "
                "model-free oracle on exact rationals.",
        "outcomes": kinds, "disagreements": len(disagreements), "spec_failures": len(failures),
        "samples": [to_impl(cases[0])],
    })
    return st
