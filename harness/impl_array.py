"""Implementation side of C01: histories on one DataArray; cells travel as integers (bit patterns
for floats, pool indices for text)."""
import gc
import zlib
import json
import os
import struct
import sys

import numpy as np
import nixio

DT = ["int8", "int16", "int32", "int64", "uint8", "uint16", "uint32", "uint64", "float32", "float64", "bool", "text"]
COMP = {"no": nixio.Compression.No, "deflate": nixio.Compression.DeflateNormal, "auto": nixio.Compression.Auto}


def to_np(dt, cells, shape, pool):
    if dt == "text":
        return np.array([pool[c] for c in cells], dtype=object).reshape(shape)
    if dt == "float32":
        return np.array(cells, dtype=np.uint32).view(np.float32).reshape(shape)
    if dt == "float64":
        return np.array(cells, dtype=np.uint64).view(np.float64).reshape(shape)
    if dt == "bool":
        return np.array(cells, dtype=np.bool_).reshape(shape)
    return np.array(cells, dtype=dt).reshape(shape)


def from_np(dt, arr, pool):
    arr = np.asarray(arr)
    if dt == "text":
        # text comes back as text: a bytes object is NOT the value that was written (no decoding on the harness's side)
        return [(pool.index(x) if x in pool else -2) if isinstance(x, str) else -1 for x in arr.ravel()]
    if dt == "float32":
        return [int(x) for x in np.ascontiguousarray(arr, dtype=np.float32).view(np.uint32).ravel()]
    if dt == "float64":
        return [int(x) for x in np.ascontiguousarray(arr, dtype=np.float64).view(np.uint64).ravel()]
    return [int(x) for x in arr.ravel()]


def dtype_code(da, dt):
    d = da.dtype
    want = np.dtype(object) if dt == "text" else np.dtype(dt if dt != "bool" else np.bool_)
    stored = da.data_type
    ok = (d == want) or (dt == "text" and stored == nixio.DataType.String)
    return DT.index(dt) if ok else 99


def mk_index(e):
    out = []
    for it in e:
        out.append(it[1] if it[0] == "int" else (slice(it[1], it[2], it[3]) if it[0] == "slice" else Ellipsis))
    if len(out) == 1:
        return out[0]              # a single item is written the way users write it: da[0], da[1:3], da[...]
    return tuple(out)


def observe(da, dt, pool, refused):
    shape = [int(x) for x in da.shape]
    data = da[:] if all(shape) or True else None
    cells = from_np(dt, data, pool)
    if list(np.shape(data)) != shape:
        return [bool(refused), shape, cells, 95]       # the whole read does not have the shape the array reports
    extra_ok = (len(da) == shape[0]) and (int(da.size) == int(np.prod(shape))) and list(da.data_extent) == shape
    if all(shape):
        buf = np.empty(shape, dtype=object if dt == "text" else (np.bool_ if dt == "bool" else dt))
        try:
            da.read_direct(buf)
            extra_ok = extra_ok and from_np(dt, buf, pool) == cells
        except Exception:
            extra_ok = False
    if all(shape):
        # a single element comes back as a one-element array holding that element
        try:
            one = da[(0,) * len(shape)]
            if list(np.shape(one)) != [1] or from_np(dt, one, pool) != cells[:1]:
                return [bool(refused), shape, cells, 97]
        except Exception:
            return [bool(refused), shape, cells, 97]
    return [bool(refused), shape, cells, dtype_code(da, dt) if extra_ok else 98]


def main():
    req = json.load(sys.stdin)
    wd = os.getcwd()
    out = []
    for k, case in enumerate(req["cases"]):
        dt, shape, cells, pool = case["dtype"], case["shape"], case["cells"], case.get("pool", [""])
        path = os.path.join(wd, "a%d.nix" % k)
        f = nixio.File.open(path, nixio.FileMode.Overwrite, compression=COMP[case["comp"][0]])
        b = f.create_block("b", "t", compression=COMP[case["comp"][1]])
        data = to_np(dt, cells, shape, pool)
        how = case["create"]
        nixdt = nixio.DataType.String if dt == "text" else None
        try:
            if how == "data":
                da = b.create_data_array("a", "t", data=data, dtype=nixdt, compression=COMP[case["comp"][2]])
            elif how == "data+shape":
                da = b.create_data_array("a", "t", data=data, dtype=nixdt, shape=tuple(shape), compression=COMP[case["comp"][2]])
            else:   # dtype + shape, then write
                da = b.create_data_array("a", "t", dtype=nixdt if dt == "text" else (np.bool_ if dt == "bool" else dt),
                                         shape=tuple(shape), compression=COMP[case["comp"][2]])
                da.write_direct(data)
        except Exception as exc:
            out.append({"create_error": type(exc).__name__ + ": " + str(exc)[:80]})
            f.close()
            continue
        # two Python objects of the one array: operations alternate between them, every observation is made through
        # both (shape, length, cells) and must be the same
        hs = [da, b.data_arrays["a"]]
        par = zlib.crc32(json.dumps(case, sort_keys=True).encode())
        len(hs[1]), hs[1].shape

        def observe2(refused):
            o = observe(hs[0], dt, pool, refused)
            o2 = observe(hs[1], dt, pool, refused)
            if o2 != o and o[3] < 90:
                o[3] = 96
            return o
        obs = [observe2(False)]
        comp_stored = None
        for nop, op in enumerate(case["ops"]):
            refused = False
            da = hs[(nop + par) % 2]
            try:
                if op[0] == "write_all":
                    v = to_np(dt, op[1], [int(x) for x in da.shape], pool)
                    if op[2]:
                        da.write_direct(v)
                    else:
                        da[:] = v
                elif op[0] == "write_region":
                    idx = mk_index(op[1])
                    if op[3] is not None:      # scalar
                        da[idx] = to_np(dt, [op[3]], [1], pool)[0]
                    else:
                        da[idx] = to_np(dt, op[2], op[4], pool)
                elif op[0] == "append":
                    da.append(to_np(dt, op[2], op[1], pool), axis=op[3])
                elif op[0] == "resize":
                    da.data_extent = tuple(op[1])
                elif op[0] == "reopen":
                    f.close()
                    gc.collect()
                    f = nixio.File.open(path, nixio.FileMode.ReadOnly if op[1] else nixio.FileMode.ReadWrite)
                    hs = [f.blocks["b"].data_arrays["a"], f.blocks["b"].data_arrays["a"]]
                    len(hs[1]), hs[1].shape
            except Exception as exc:
                refused = True
            obs.append(observe2(refused))
        f.close()
        import h5py
        with h5py.File(path, "r") as h:
            comp_stored = h["data/b/data_arrays/a/data"].compression
        os.remove(path)
        out.append({"obs": obs, "compression": comp_stored})
    json.dump(out, sys.stdout)


main()
