(* Pure/ValuesCheck.v -- operation histories on one section with properties (C10). *)
From Coq Require Import ZArith List Bool.
From NixV Require Import Base.Prelude Pure.Values.
Import ListNotations.
Open Scope Z_scope.

Inductive vop :=
| PCreate (name : Z) (vals : list pyval)        (* create_property(name, [..]) *)
| PCreateTy (name : Z) (t : vty)                (* create_property(name, DataType.X) *)
| PSet (name : Z) (vals : list pyval)           (* prop.values = [..]   ([] and None clear) *)
| PExtend (name : Z) (vals : list pyval)
| DGet (k : Z) | DSet (k : Z) (vals : list pyval) | DDel (k : Z)
| CreateSub (name : Z)
| VReopen.

Definition err_code (e : verr) : Z :=
  match e with ETypeError => 3 | EValueError => 2 | EKeyError => 5 | EDuplicate => 1 | EOverflow => 8 end.
Definition enc_val (v : pyval) : list Z :=
  match v with
  | VBool b => [0; if b then 1 else 0] | VInt z => [1; z] | VFloat b => [2; b] | VStr i => [3; i]
  | VOther => [9; 0]
  end.
Definition ty_code (t : vty) : Z := match t with TBool => 0 | TInt => 1 | TFloat => 2 | TStr => 3 end.
Definition enc_vals (l : list pyval) : list Z := Z.of_nat (length l) :: flat_map enc_val l.
Definition enc_state (s : sect) : list Z :=
  Z.of_nat (length (s_props s))
  :: flat_map (fun x => fst x :: ty_code (p_ty (snd x)) :: enc_vals (p_vals (snd x))) (s_props s)
  ++ Z.of_nat (length (s_subs s)) :: s_subs s.

Definition with_prop (s : sect) (k : Z) (f : prop -> prop + verr) : sect * list Z :=
  match lookup k (s_props s) with
  | None => (s, [2; err_code EKeyError])
  | Some p => match f p with
              | inl p' => (mkS (replace_prop k p' (s_props s)) (s_subs s), [0])
              | inr e => (s, [2; err_code e])
              end
  end.

Definition vstep (s : sect) (o : vop) : sect * list Z :=
  match o with
  | PCreate n vals =>
      if has_prop n s then (s, [2; err_code EDuplicate])
      else match new_property vals with
           | inl p => (mkS (s_props s ++ [(n, p)]) (s_subs s), [0])
           | inr e => (s, [2; err_code e])
           end
  | PCreateTy n t =>
      if has_prop n s then (s, [2; err_code EDuplicate])
      else (mkS (s_props s ++ [(n, mkP t [])]) (s_subs s), [0])
  | PSet n vals => with_prop s n (fun p => set_values p vals)
  | PExtend n vals => with_prop s n (fun p => extend_values p vals)
  | DGet k => match sec_get s k with
              | inl (IValues l) => (s, 1 :: enc_vals l)
              | inl (ISection n) => (s, [4; n])
              | inr e => (s, [2; err_code e])
              end
  | DSet k vals => match sec_set s k vals with
                   | inl s' => (s', [0])
                   | inr e => (s, [2; err_code e])
                   end
  | DDel k => match sec_del s k with
              | inl s' => (s', [0])
              | inr e => (s, [2; err_code e])
              end
  | CreateSub n => if has_sub n s then (s, [2; err_code EDuplicate]) else (mkS (s_props s) (s_subs s ++ [n]), [0])
  | VReopen => (s, [0])
  end.

(* per step: the result, the whole state, and the dict view (len, keys, membership of 0..7) *)
Definition dict_view (s : sect) : list Z :=
  Z.of_nat (sec_len s) :: Z.of_nat (length (sec_keys s)) :: sec_keys s
  ++ map (fun k => if sec_contains s k then 1 else 0) [0; 1; 2; 3; 4; 5; 6; 7].
Fixpoint vrun (s : sect) (ops : list vop) : list (list Z) :=
  match ops with
  | [] => []
  | o :: r => let '(s', res) := vstep s o in (res ++ [-7] ++ enc_state s' ++ [-7] ++ dict_view s') :: vrun s' r
  end.
Definition values_case := (list vop * list (list Z))%type.
Definition zll_eqb := list_eqb (list_eqb Z.eqb).
Definition check_values (c : values_case) : N :=
  let ok := zll_eqb (vrun (mkS [] []) (fst c)) (snd c) in vcode ok ok.
