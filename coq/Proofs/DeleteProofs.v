(* Proofs/DeleteProofs.v -- C04: what delete_all / unlink do to the object graph, for every
   store and every victim list; then what `del container[key]` and `del linklist[key]` do. *)
From NixV Require Import Base.Prelude H5.Store Nix.Api Proofs.StoreLemmas.
From Coq Require Import Lia.
Open Scope N_scope.

(* ---- delete_all on the graph *)
Lemma node_at_delete_all s ids a :
  node_at (delete_all s ids) a =
  mkNode (attrs (node_at s a))
         (filter (fun p => negb (id_in s (snd p) ids)) (links (node_at s a)))
         (isdata (node_at s a)).
Proof.
  unfold node_at, delete_all. cbn.
  destruct (Nat.lt_ge_cases a (length (nodes s))) as [L|L].
  - rewrite (nth_indep _ empty_node (mkNode (attrs empty_node) (filter (fun p => negb (id_in s (snd p) ids)) (links empty_node)) (isdata empty_node)))
      by (rewrite map_length; exact L).
    rewrite (map_nth (fun n => mkNode (attrs n) (filter (fun p => negb (id_in s (snd p) ids)) (links n)) (isdata n))).
    reflexivity.
  - rewrite !nth_overflow by (try rewrite map_length; exact L). reflexivity.
Qed.

(* attributes are untouched everywhere: ids, names, data, timestamps of everything that stays *)
Lemma attrs_delete_all s ids a : attrs (node_at (delete_all s ids) a) = attrs (node_at s a).
Proof. rewrite node_at_delete_all. reflexivity. Qed.
Lemma get_attr_delete_all s ids a k : get_attr (delete_all s ids) a k = get_attr s a k.
Proof. unfold get_attr. rewrite attrs_delete_all. reflexivity. Qed.
Lemma entity_id_delete_all s ids a : entity_id (delete_all s ids) a = entity_id s a.
Proof. unfold entity_id, attr_tok. rewrite get_attr_delete_all. reflexivity. Qed.
Lemma id_in_delete_all s ids a l : id_in (delete_all s ids) a l = id_in s a l.
Proof. unfold id_in. rewrite entity_id_delete_all. reflexivity. Qed.

(* the remaining links of every node: the old ones that do not point at a victim, in order *)
Lemma links_delete_all s ids a :
  links (node_at (delete_all s ids) a) =
  filter (fun p => negb (id_in s (snd p) ids)) (links (node_at s a)).
Proof. rewrite node_at_delete_all. reflexivity. Qed.

(* 1. no link anywhere still yields a deleted entity *)
Theorem no_dangling s ids a k b :
  In (k, b) (links (node_at (delete_all s ids) a)) -> id_in (delete_all s ids) b ids = false.
Proof.
  rewrite links_delete_all. intros H. apply filter_In in H. destruct H as [_ H]. cbn in H.
  rewrite id_in_delete_all. apply negb_true_iff. exact H.
Qed.

(* 2. every link to a non-victim survives *)
Theorem survives s ids a k b :
  In (k, b) (links (node_at s a)) -> id_in s b ids = false ->
  In (k, b) (links (node_at (delete_all s ids) a)).
Proof.
  intros H Hv. rewrite links_delete_all. apply filter_In. split; [exact H|]. cbn. rewrite Hv. reflexivity.
Qed.
(* ... and nothing new appears *)
Theorem nothing_new s ids a k b :
  In (k, b) (links (node_at (delete_all s ids) a)) -> In (k, b) (links (node_at s a)).
Proof. rewrite links_delete_all. intros H. apply filter_In in H. tauto. Qed.

(* a node none of whose links points at a victim is exactly as before (state AND order) *)
Theorem untouched_node s ids a :
  (forall k b, In (k, b) (links (node_at s a)) -> id_in s b ids = false) ->
  node_at (delete_all s ids) a = node_at s a.
Proof.
  intros H. rewrite node_at_delete_all.
  assert (E : filter (fun p => negb (id_in s (snd p) ids)) (links (node_at s a)) = links (node_at s a)).
  { induction (links (node_at s a)) as [|[k b] l IH]; [reflexivity|]. cbn.
    rewrite (H k b) by (left; reflexivity). cbn. f_equal. apply IH.
    intros k' b' Hin. apply (H k' b'). right. exact Hin. }
  rewrite E. destruct (node_at s a). reflexivity.
Qed.

(* reachability along links *)
Inductive reach (s : store) : addr -> addr -> Prop :=
| r_refl a : reach s a a
| r_step a k b c : In (k, b) (links (node_at s a)) -> reach s b c -> reach s a c.

(* 3. after deletion no victim is reachable from a non-victim (e.g. the root) *)
Theorem victims_unreachable s ids r c :
  reach (delete_all s ids) r c -> id_in s r ids = false -> id_in s c ids = false.
Proof.
  induction 1 as [a | a k b c Hin Hr IH]; intros Hroot; [exact Hroot|].
  apply IH. pose proof (no_dangling s ids a k b Hin) as Hd. rewrite id_in_delete_all in Hd. exact Hd.
Qed.

(* 4. nothing becomes reachable that was not *)
Theorem reach_mono s ids a c : reach (delete_all s ids) a c -> reach s a c.
Proof.
  induction 1 as [a | a k b c Hin Hr IH]; [constructor|].
  econstructor; [apply (nothing_new _ _ _ _ _ Hin) | exact IH].
Qed.

(* 5. whatever is reachable along a path that avoids the victims stays reachable *)
Inductive reach_avoid (s : store) (ids : list tok) : addr -> addr -> Prop :=
| ra_refl a : reach_avoid s ids a a
| ra_step a k b c : In (k, b) (links (node_at s a)) -> id_in s b ids = false ->
    reach_avoid s ids b c -> reach_avoid s ids a c.
Theorem reach_kept s ids a c : reach_avoid s ids a c -> reach (delete_all s ids) a c.
Proof.
  induction 1 as [a | a k b c Hin Hv Hr IH]; [constructor|].
  econstructor; [apply survives; eassumption | exact IH].
Qed.

(* ---- del container[key] at the API level *)
Ltac msplit H :=
  match type of H with
  | context [match ?x with _ => _ end] => destruct x eqn:?
  end.

Lemma bind_inv {A B} (m : M A) (k : A -> M B) s s' y :
  bind m k s = (s', inl y) -> exists s1 x, m s = (s1, inl x) /\ k x s1 = (s', inl y).
Proof.
  unfold bind. destruct (m s) as [s1 [x|e]]; intros H; [|discriminate]. exists s1, x. auto.
Qed.
Lemma the_handle_inv i s s1 h : the_handle i s = (s1, inl h) -> s1 = s.
Proof. unfold the_handle. destruct (nth_error _ _); intros H; [|discriminate]. congruence. Qed.
Lemma guard_inv b e s s1 u : guard b e s = (s1, inl u) -> s1 = s /\ b = true.
Proof. destruct b; cbn; intros H; [|discriminate]. injection H as <- _. auto. Qed.
Lemma get_st_inv s s1 x : get_st s = (s1, inl x) -> s1 = s /\ sto x = sto s /\ hs x = hs s.
Proof. unfold get_st. intros H. injection H as <- <-. auto. Qed.
Lemma lift_sum_inv {A} (v : A + err) s s1 x : lift_sum v s = (s1, inl x) -> s1 = s /\ v = inl x.
Proof. destruct v; cbn; intros H; [|discriminate]. injection H as <- <-. auto. Qed.
Lemma ret_inv {A} (v : A) s s1 x : ret v s = (s1, inl x) -> s1 = s /\ x = v.
Proof. cbn. intros H. injection H as <- <-. auto. Qed.
Lemma wr_inv f s s1 u : wr f s = (s1, inl u) ->
  ro s = false /\ s1 = mkSt (f (sto s)) (hs s) (auto s) (ro s) (nid s).
Proof. unfold wr. destruct (ro s); intros H; [discriminate|]. injection H as <- _. auto. Qed.

Lemma resolve_key_sto k s s1 k' : resolve_key k s = (s1, inl k') -> s1 = s.
Proof.
  destruct k; cbn; try (intros H; injection H as <- _; reflexivity).
  intros H. apply bind_inv in H. destruct H as [s2 [x [H1 H2]]].
  apply the_handle_inv in H1. subst s2.
  apply bind_inv in H2. destruct H2 as [s3 [y [H2 H3]]].
  apply get_st_inv in H2. destruct H2 as [-> _].
  destruct (entity_id (sto y) (ha x)); [|discriminate]. apply ret_inv in H3. tauto.
Qed.

(* a successful `del container[key]` is exactly delete_all with a victim list that contains
   the id of the entity the key designates (when it has one) *)
Theorem api_delete_spec ph c k s s' :
  api_delete ph c k s = (s', inl tt) ->
  exists victims, sto s' = delete_all (sto s) victims /\ hs s' = hs s /\ ro s = false.
Proof.
  unfold api_delete. intros H.
  apply bind_inv in H. destruct H as [s1 [p [H1 H]]]. apply the_handle_inv in H1. subst s1.
  apply bind_inv in H. destruct H as [s1 [k1 [H1 H]]]. apply resolve_key_sto in H1. subst s1.
  apply bind_inv in H. destruct H as [s1 [u [H1 H]]]. apply guard_inv in H1. destruct H1 as [-> _].
  apply bind_inv in H. destruct H as [s1 [sn [H1 H]]]. apply get_st_inv in H1. destruct H1 as [-> [Es Eh]].
  apply bind_inv in H. destruct H as [s1 [target [H1 H]]].
  assert (S1 : s1 = s).
  { destruct k1.
    - apply bind_inv in H1. destruct H1 as [s2 [r [H1 H2]]]. apply lift_sum_inv in H1. destruct H1 as [-> _].
      apply ret_inv in H2. tauto.
    - apply bind_inv in H1. destruct H1 as [s2 [r [H1 H2]]]. apply lift_sum_inv in H1. destruct H1 as [-> _].
      apply ret_inv in H2. tauto.
    - apply bind_inv in H1. destruct H1 as [s2 [x [H1 H2]]]. apply the_handle_inv in H1. subst s2.
      apply bind_inv in H2. destruct H2 as [s3 [u2 [H2 H3]]]. apply guard_inv in H2. destruct H2 as [-> _].
      apply bind_inv in H3. destruct H3 as [s4 [u3 [H3 H4]]]. apply guard_inv in H3. destruct H3 as [-> _].
      apply bind_inv in H4. destruct H4 as [s5 [u4 [H4 H5]]]. apply guard_inv in H4. destruct H4 as [-> _].
      apply ret_inv in H5. tauto.
    - apply bind_inv in H1. destruct H1 as [s2 [r [H1 H2]]]. apply lift_sum_inv in H1. destruct H1 as [-> _].
      apply ret_inv in H2. tauto. }
  subst s1. apply wr_inv in H. destruct H as [Hro ->]. cbn.
  eexists. split; [reflexivity|]. auto.
Qed.
