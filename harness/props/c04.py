"""C04 -- deleting an entity removes it, what it owns and every link to it - nothing else."""
import os
import sys

sys.path.insert(0, os.path.dirname(os.path.dirname(os.path.abspath(__file__))))
import storeprop  # noqa: E402
import core  # noqa: E402

ID = "C04"
THEOREMS = ["c04_delete_is_delete_all", "c04_no_dangling", "c04_victims_unreachable", "c04_attrs_kept",
            "c04_links_kept_in_order", "c04_untouched_node", "c04_reach_kept", "c04_nothing_new",
            "c04_key_resolves_to_member"]
# scripted beginnings that build the link topologies deletion has to cope with: several sources of
# ONE subtree linked from the same entity; an array referenced from groups and tags of its block
PRELUDES = [
    # a data frame that is a member of two groups and the data of two features: deleting it from the block takes every
    # one of those links along (and nothing else)
    [["create", 0, "CBlocks", "B", "t", []], ["create", 1, "CDataFrames", "df", "t", [1, 2]], ["create", 1, "CDataFrames", "other", "t", [3]],
     ["create", 1, "CGroups", "g", "t", []], ["create", 1, "CGroups", "h", "t", []], ["create", 1, "CTags", "t", "t", [1]],
     ["create", 1, "CDataArrays", "p", "t", [1]], ["create_mtag", 1, "m", "t", 7],
     ["append", 4, "LDataFrames", 2], ["append", 4, "LDataFrames", 3], ["append", 5, "LDataFrames", 2],
     ["create_feature", 6, 2, "untagged"], ["create_feature", 6, 3, "indexed"], ["create_feature", 8, 2, "indexed"],
     ["delete", 1, "CDataFrames", ["name", "df"]], ["probe", 1, "CDataFrames"]],
    # features addressed by the id / the name of their data: the FEATURE goes, the array, its group membership and the tag's
    # reference to it stay
    [["create", 0, "CBlocks", "B", "t", []], ["create", 1, "CDataArrays", "a", "t", [1]], ["create", 1, "CDataArrays", "b", "t", [2]],
     ["create", 1, "CGroups", "g", "t", []], ["create", 1, "CTags", "t", "t", [1]], ["append", 4, "LDataArrays", 2],
     ["append", 5, "LReferences", 2], ["create_feature", 5, 2, "untagged"], ["create_feature", 5, 3, "indexed"],
     ["delete", 5, "CFeatures", ["idof", 2]], ["lookup", 5, "CFeatures", ["name", "b"]], ["delete", 5, "CFeatures", ["name", "b"]],
     ["create_feature", 5, 2, "tagged"], ["delete", 5, "CFeatures", ["name", "a"]]],
    # a metadata link set and cleared again on every kind that can carry one (a leaf source, a source with a child,
    # a group / array / tag / multi-tag / data frame without other children, a block): clearing never deletes the owner
    [["create", 0, "CSections", "m", "t", []], ["create", 0, "CBlocks", "B", "t", []], ["create", 2, "CSources", "leaf", "t", []],
     ["create", 2, "CSources", "par", "t", []], ["create", 4, "CSources", "kid", "t", []], ["create", 2, "CGroups", "g", "t", []],
     ["create", 2, "CDataArrays", "a", "t", [1]], ["create", 2, "CTags", "t", "t", [1]], ["create_mtag", 2, "mt", "t", 7],
     ["create", 2, "CDataFrames", "df", "t", [1, 2]],
     ["set_link", 3, "RMetadata", 1], ["set_link", 3, "RMetadata", None], ["set_link", 4, "RMetadata", 1], ["set_link", 4, "RMetadata", None],
     ["set_link", 5, "RMetadata", 1], ["set_link", 5, "RMetadata", None], ["set_link", 6, "RMetadata", 1], ["set_link", 6, "RMetadata", None],
     ["set_link", 7, "RMetadata", 1], ["set_link", 7, "RMetadata", None], ["set_link", 8, "RMetadata", 1], ["set_link", 8, "RMetadata", None],
     ["set_link", 9, "RMetadata", 1], ["set_link", 9, "RMetadata", None], ["set_link", 10, "RMetadata", 1], ["set_link", 10, "RMetadata", None],
     ["set_link", 2, "RMetadata", 1], ["set_link", 2, "RMetadata", None]],
    # nested sources that are linked ONLY from a group's source list (and one also from an array)
    [["create", 0, "CBlocks", "B", "t", []], ["create", 1, "CSources", "s", "t", []], ["create", 2, "CSources", "c", "t", []],
     ["create", 3, "CSources", "cc", "t", []], ["create", 2, "CSources", "d", "t", []], ["create", 1, "CGroups", "g", "t", []],
     ["create", 1, "CGroups", "h", "t", []], ["create", 1, "CDataArrays", "a", "t", [1]],
     ["append", 6, "LSources", 3], ["append", 6, "LSources", 4], ["append", 7, "LSources", 4], ["append", 7, "LSources", 5],
     ["append", 8, "LSources", 5], ["append", 6, "LSources", 2]],
    [["create", 0, "CBlocks", "B", "t", []], ["create", 1, "CSources", "s", "t", []], ["create", 2, "CSources", "c", "t", []],
     ["create", 2, "CSources", "d", "t", []], ["create", 1, "CDataArrays", "a", "t", [1, 2]], ["create", 1, "CTags", "t", "t", [1]],
     ["append", 5, "LSources", 3], ["append", 5, "LSources", 4], ["append", 5, "LSources", 2], ["append", 6, "LSources", 3],
     ["append", 6, "LSources", 2]],
    [["create", 0, "CBlocks", "B", "t", []], ["create", 1, "CDataArrays", "a", "t", [1]], ["create", 1, "CDataArrays", "b", "t", [2]],
     ["create", 1, "CGroups", "g", "t", []], ["create", 1, "CGroups", "h", "t", []], ["create", 1, "CTags", "t", "t", [1]],
     ["append", 4, "LDataArrays", 2], ["append", 4, "LDataArrays", 3], ["append", 5, "LDataArrays", 2], ["append", 6, "LReferences", 2],
     ["append", 6, "LReferences", 3], ["create_feature", 6, 2, "tagged"], ["create_mtag", 1, "m", "t", 3]],
    [["create", 0, "CSections", "s", "t", []], ["create", 1, "CSections", "c", "t", []], ["create", 2, "CSections", "cc", "t", []],
     ["create", 0, "CBlocks", "B", "t", []], ["create", 4, "CDataArrays", "a", "t", [1]], ["create", 4, "CGroups", "g", "t", []],
     ["set_link", 4, "RMetadata", 2], ["set_link", 5, "RMetadata", 3], ["set_link", 6, "RMetadata", 1]],
]
PROFILE = {"preludes": PRELUDES, "prelude_prob": 0.6, "weights": {"create": 10, "mtag": 3, "feature": 3, "append": 9, "set_link": 6, "delete": 8, "remove": 4,
                       "lookup": 1, "probe": 0.5, "reopen": 0.5, "bad": 0.3, "set_attr": 1}}
RULE = ("link-rich topologies: several blocks, arrays linked from many groups / tag and multi-tag references / positions / "
        "extents / features, nested sources and sections with repeated names, metadata links and source lists from every kind; "
        "then deletions by name, id, index or object chosen over everything that exists, and removals of link-list entries and "
        "metadata links; the full canonical walk is compared with the model after every operation and checked for dangling links.")
UNLINKS = ("remove",)


def predicate(h):
    out = []
    for i, (op, res) in enumerate(zip(h["ops"], h["results"])):
        info = h["infos"][i]
        prev = set(h["infos"][i - 1]["dangling"]) if i > 0 else set()
        new = [x for x in info["dangling"] if x not in prev]
        if new:
            out.append(("a link still yields a deleted entity", i, {"op": op, "dangling_ids": len(new)}))
        unlink = op[0] == "remove" or (op[0] == "set_link" and op[3] is None)
        if unlink and res[0] == "ok" and i > 0 and info["defined"] != h["infos"][i - 1]["defined"]:
            out.append(("removing a link deleted an entity", i, {"op": op, "entities_before": h["infos"][i - 1]["defined"],
                                                                 "entities_after": info["defined"]}))
    return out


def block_content(v, h):
    """known finding: deleting a BLOCK removes the links to the block, not the links that other blocks
    hold to the block's content (multi-tag positions/extents may point into another block)"""
    what, step, detail = v
    op = h["ops"][step]
    return what.startswith("a link still yields") and op[0] == "delete" and op[2] == "CBlocks"


def run(ctx):
    st = storeprop.run(ctx, ID, THEOREMS, "Props/C04.v", PROFILE, (30, 45), 100, 900, predicate, RULE,
                       known_matchers={"block_content": block_content})
    # the known finding block_content on the one kind of link that may still cross blocks: dimension links
    bc = ctx.run_impl("impl_blockcontent.py", {})
    yields = [d for d in bc["dimensions"] if d.get("still_yields")]
    ctx.coverage["block_content_witness"] = bc
    if yields:
        kfe = [e for e in core.load_known(ID) if e.get("match") == "block_content"]
        if kfe:
            ctx.known_hits.append("%s (%d of 3 linked dimensions in this run)" % (kfe[0]["what"], len(yields)))
        elif not ctx.violations:
            rp = ctx.write_replay("%s-blockcontent-seed%d.json" % (ID, ctx.seed), {
                "property": ID, "kind": "a dimension link still yields data of a deleted block", "input": {"runner": "impl_blockcontent.py"},
                "observed": bc})
            ctx.violation("a dimension link still yields data of a deleted block: %r" % (yields[0],), rp)
    # entities that are merely NAMED like the id of the victim (the model cannot express a name that is an id: ids are
    # numbers there) - implementation only: 11 kinds of victim x 4 ways of addressing it x 5 kinds of namesake
    recs = ctx.run_impl("impl_idnames.py", {})
    bad = [r for r in recs if r["problems"]]
    ctx.coverage["id_namesake_deletions"] = len(recs)
    ctx.coverage["id_namesake_failures"] = len(bad)
    ctx.coverage["evaluations"] += len(recs)
    ctx.coverage["rule"] += (" Plus, implementation only: for every kind of entity and every way of addressing it (name, id, "
                             "position, object) a data array, a group and a source of another block, a section and a property "
                             "are NAMED like the victim's id before it is deleted; each of them must survive unchanged.")
    if bad and not ctx.violations:
        rp = ctx.write_replay("%s-idnames-seed%d.json" % (ID, ctx.seed), {
            "property": ID, "kind": bad[0]["problems"][0], "input": {"victim": bad[0]["victim"], "addressed_by": bad[0]["addressed_by"]},
            "observed": bad[0]["problems"], "count": len(bad)})
        ctx.violation("%d deletions touched entities merely named like the victim's id, e.g. deleting a %s by %s: %s" % (
            len(bad), bad[0]["victim"], bad[0]["addressed_by"], bad[0]["problems"][0]), rp)
    return st


def replay(ctx):
    return storeprop.replay(ctx, ID, predicate)
