"""subprocess probe: constants of nixio/file.py by value + the id-requirement literal by ast"""
import ast
import inspect
import json
import sys

import nixio.file as nf

out = {
    "HDF_FF_VERSION": [int(x) for x in nf.HDF_FF_VERSION],
    "FILE_FORMAT": nf.FILE_FORMAT,
    "modes": {"ReadOnly": nf.FileMode.ReadOnly, "ReadWrite": nf.FileMode.ReadWrite,
              "Overwrite": nf.FileMode.Overwrite},
}
src = inspect.getsource(nf.File._check_header)
import textwrap
tree = ast.parse(textwrap.dedent(src))
lits = []
for node in ast.walk(tree):
    if isinstance(node, ast.Compare) and len(node.ops) == 1 and isinstance(node.comparators[0], ast.Tuple):
        tup = node.comparators[0]
        if all(isinstance(e, ast.Constant) and isinstance(e.value, int) for e in tup.elts):
            left = ast.unparse(node.left)
            lits.append({"left": left, "op": type(node.ops[0]).__name__, "tuple": [e.value for e in tup.elts]})
out["check_header_tuple_compares"] = lits
json.dump(out, sys.stdout)
