(* Proofs/ContainerProofs.v -- C03: for a container whose members have distinct names (equal to
   their link names; ANY legal name, also one that looks like an id, as long as it is not the
   id of a member) and distinct ids, positional indexing (negative included), lookup by name
   and lookup by id all designate the same member of the same sequence. *)
From NixV Require Import Base.Prelude H5.Store Nix.Api Proofs.StoreLemmas.
From Coq Require Import Lia.
Open Scope N_scope.

(* the invariant of one Container *)
Record cont_inv (s : store) (ls : list (tok * addr)) : Prop := {
  ci_names : forall k a, In (k, a) ls ->
      entity_name s a = Some k /\ (forall k' a', In (k', a') ls -> entity_id s a' <> Some k) /\
      tok_empty k = false /\ tok_has_slash k = false;
  ci_ids : forall k a, In (k, a) ls -> exists i, entity_id s a = Some i /\ is_uuid i = true;
  ci_nodup_names : NoDup (map fst ls);
  ci_nodup_ids : forall n1 n2 p1 p2 i, nth_error ls n1 = Some p1 -> nth_error ls n2 = Some p2 ->
      entity_id s (snd p1) = Some i -> entity_id s (snd p2) = Some i -> n1 = n2;
}.

Lemma link_get_nth ls n k a : NoDup (map fst ls) -> nth_error ls n = Some (k, a) -> link_get k ls = Some a.
Proof.
  revert n; induction ls as [|[k' a'] ls IH]; intros n Hnd Hn; [destruct n; discriminate|].
  cbn. destruct n as [|n]; cbn in Hn.
  - injection Hn as -> ->. rewrite tok_eqb_refl. reflexivity.
  - inversion Hnd as [|x l Hnot Hnd']; subst.
    destruct (tok_eqb k' k) eqn:E.
    + apply tok_eqb_eq in E. subst k'. exfalso. apply Hnot.
      apply nth_error_In in Hn. apply (in_map fst) in Hn. exact Hn.
    + eapply IH; eassumption.
Qed.

Lemma find_by_id_nth s ls : forall n k a i,
  (forall n1 n2 p1 p2 j, nth_error ls n1 = Some p1 -> nth_error ls n2 = Some p2 ->
      entity_id s (snd p1) = Some j -> entity_id s (snd p2) = Some j -> n1 = n2) ->
  nth_error ls n = Some (k, a) -> entity_id s a = Some i -> find_by_id s i ls = Some (k, a).
Proof.
  induction ls as [|[k' a'] ls IH]; intros n k a i Hu Hn Hi; [destruct n; discriminate|].
  cbn. destruct n as [|n]; cbn in Hn.
  - injection Hn as -> ->. rewrite Hi, tok_eqb_refl. reflexivity.
  - destruct (entity_id s a') as [j|] eqn:Ej.
    + destruct (tok_eqb j i) eqn:E.
      * apply tok_eqb_eq in E. subst j. exfalso.
        assert (X : 0%nat = S n) by (eapply (Hu 0%nat (S n) (k', a') (k, a) i); cbn; eauto).
        discriminate.
      * eapply IH; [|exact Hn|exact Hi].
        intros n1 n2 p1 p2 j' H1 H2 J1 J2.
        assert (X : S n1 = S n2) by (eapply (Hu (S n1) (S n2)); cbn; eauto). lia.
    + eapply IH; [|exact Hn|exact Hi].
      intros n1 n2 p1 p2 j' H1 H2 J1 J2.
      assert (X : S n1 = S n2) by (eapply (Hu (S n1) (S n2)); cbn; eauto). lia.
Qed.

Lemma find_by_id_none s i ls : (forall k a, In (k, a) ls -> entity_id s a <> Some i) -> find_by_id s i ls = None.
Proof.
  induction ls as [|[k a] ls IH]; intros H; [reflexivity|]. cbn.
  destruct (entity_id s a) as [j|] eqn:Ej.
  - destruct (tok_eqb j i) eqn:E.
    + apply tok_eqb_eq in E. subst j. exfalso. apply (H k a); [left; reflexivity | exact Ej].
    + apply IH. intros k' a' Hin. apply (H k' a'). right. exact Hin.
  - apply IH. intros k' a' Hin. apply (H k' a'). right. exact Hin.
Qed.

Section SixPaths.
  Variable s : store.
  Variable ca : addr.
  Variable hsl : list handle.
  Let ls := links (node_at s ca).
  Hypothesis Inv : cont_inv s ls.

  Lemma cont_links_some : cont_links s (Some ca) = ls.
  Proof. reflexivity. Qed.

  (* c[i] for 0 <= i < len, and c[i - len]: the i-th member *)
  Theorem get_by_pos n p : nth_error ls n = Some p ->
    container_get s (Some ca) (KeyPos (Z.of_nat n)) hsl = inl p /\
    container_get s (Some ca) (KeyPos (Z.of_nat n - Z.of_nat (length ls))) hsl = inl p.
  Proof.
    intros Hn. assert (L : (n < length ls)%nat) by (apply nth_error_Some; congruence).
    unfold container_get. rewrite cont_links_some. unfold py_index. split.
    - assert (E1 : (Z.of_nat n <? 0)%Z = false) by (apply Z.ltb_ge; lia). rewrite E1.
      assert (E2 : (Z.of_nat (length ls) <=? Z.of_nat n)%Z = false) by (apply Z.leb_gt; lia).
      rewrite E1, E2. cbn [orb]. rewrite Nat2Z.id, Hn. reflexivity.
    - assert (E1 : (Z.of_nat n - Z.of_nat (length ls) <? 0)%Z = true) by (apply Z.ltb_lt; lia). rewrite E1.
      replace (Z.of_nat (length ls) + (Z.of_nat n - Z.of_nat (length ls)))%Z with (Z.of_nat n) by lia.
      assert (E0 : (Z.of_nat n <? 0)%Z = false) by (apply Z.ltb_ge; lia).
      assert (E2 : (Z.of_nat (length ls) <=? Z.of_nat n)%Z = false) by (apply Z.leb_gt; lia).
      rewrite E0, E2. cbn [orb]. rewrite Nat2Z.id, Hn. reflexivity.
  Qed.

  (* an index outside [-len, len) is refused with an index error *)
  Theorem get_by_pos_oob z : (z < - Z.of_nat (length ls) \/ Z.of_nat (length ls) <= z)%Z ->
    container_get s (Some ca) (KeyPos z) hsl = inr EIndex.
  Proof.
    intros H. unfold container_get. rewrite cont_links_some. unfold py_index.
    destruct (z <? 0)%Z eqn:E0.
    - apply Z.ltb_lt in E0.
      assert (E1 : (Z.of_nat (length ls) + z <? 0)%Z = true) by (apply Z.ltb_lt; lia).
      rewrite E1. reflexivity.
    - apply Z.ltb_ge in E0. rewrite (proj2 (Z.ltb_ge z 0) E0).
      assert (E2 : (Z.of_nat (length ls) <=? z)%Z = true) by (apply Z.leb_le; lia).
      rewrite E2. reflexivity.
  Qed.

  (* c[name] and c[id] of the i-th member: the i-th member *)
  Theorem get_by_name n k a : nth_error ls n = Some (k, a) ->
    container_get s (Some ca) (KeyName k) hsl = inl (k, a).
  Proof.
    intros Hn. pose proof (nth_error_In _ _ Hn) as Hin.
    destruct (ci_names _ _ Inv k a Hin) as [_ [Hu [He Hs]]].
    unfold container_get. rewrite cont_links_some.
    assert (F : (if is_uuid k then find_by_id s k ls else None) = None).
    { destruct (is_uuid k); [apply find_by_id_none; exact Hu | reflexivity]. }
    rewrite F, He, Hs. cbn [orb].
    rewrite (link_get_nth ls n k a (ci_nodup_names _ _ Inv) Hn). reflexivity.
  Qed.
  Theorem get_by_id n k a i : nth_error ls n = Some (k, a) -> entity_id s a = Some i ->
    container_get s (Some ca) (KeyName i) hsl = inl (k, a).
  Proof.
    intros Hn Hi. pose proof (nth_error_In _ _ Hn) as Hin.
    destruct (ci_ids _ _ Inv k a Hin) as [i' [Hi' Hu]].
    assert (i' = i) by congruence. subst i'.
    unfold container_get. rewrite cont_links_some, Hu.
    rewrite (find_by_id_nth s ls n k a i (ci_nodup_ids _ _ Inv) Hn Hi). reflexivity.
  Qed.
End SixPaths.

(* creation order: a new member is appended last, the others keep their order; deleting other
   entities keeps the order of what remains (links_delete_all: a filter) *)
Theorem add_link_appends s a k x : (a < length (nodes s))%nat -> link_get k (links (node_at s a)) = None ->
  links (node_at (add_link s a k x) a) = links (node_at s a) ++ [(k, x)].
Proof.
  intros H Hn. unfold add_link. rewrite links_set_links_same by exact H. f_equal.
  induction (links (node_at s a)) as [|[k' a'] l IH]; [reflexivity|].
  cbn in Hn |- *. destruct (tok_eqb k' k); [discriminate|]. cbn. f_equal. apply IH. exact Hn.
Qed.
