#!/bin/bash
# seedtest2.sh <property id> <seed worktree> <name> [check ids...]
# like seedtest.sh but leaves /repo and /verif alone: the change is applied to a scratch worktree of
# /repo's HEAD and the checks run from a scratch copy of /verif with VERIF_REPO pointing at it.
# (equivalent to: git -C /repo apply patch.diff; ./check <id>; git -C /repo checkout -- .)
set -u
PID=$1; WT=$2; NAME=$3; shift 3; CHECKS="${@:-$PID}"
OUT=/verif/seeded/$NAME
mkdir -p $OUT
cp $WT/SEED/patch.diff $OUT/patch.diff
cp $WT/SEED/demo.py $OUT/demo.py
cp $WT/SEED/notes.txt $OUT/notes.txt 2>/dev/null
R=/tmp/st_repo_$NAME; V=/tmp/st_verif_$NAME
git -C /repo worktree add -f --detach $R HEAD -q || exit 2
git -C $R apply $OUT/patch.diff || { echo "patch does not apply"; git -C /repo worktree remove --force $R; exit 2; }
rsync -a --exclude work --exclude .git --exclude "replay/*.json" /verif/ $V/; mkdir -p $V/replay
PYTHONPATH=$R /venv/bin/python $OUT/demo.py > $OUT/demo_with.txt 2>&1; DW=$?
TESTS=$(cd $R && PYTHONPATH=$R /venv/bin/python -m pytest -q -p no:cacheprovider -n 4 nixio 2>&1 | tail -1)
RES=""
for c in $CHECKS; do
  (cd $V && VERIF_REPO=$R ./check $c > $OUT/check_$c.txt 2>&1); RC=$?
  RES="$RES $c:exit$RC"
  grep -h "VIOLATION" $OUT/check_$c.txt | head -2
  cp $V/replay/$c-*.json $OUT/ 2>/dev/null
done
PYTHONPATH=/repo /venv/bin/python $OUT/demo.py > $OUT/demo_without.txt 2>&1; DO=$?
git -C /repo worktree remove --force $R; rm -rf $V
echo "seed=$NAME demo_with=$DW demo_without=$DO tests='$TESTS' checks:$RES"
cat > $OUT/meta.json <<EOT
{"property": "$PID", "name": "$NAME", "demo_exit_with_change": $DW, "demo_exit_without_change": $DO,
 "tests_with_change": "$TESTS", "checks_run": "$RES",
 "how": "git -C /repo apply patch.diff; PYTHONPATH=/repo /venv/bin/python demo.py; ./check <id>; git -C /repo checkout -- ."}
EOT
