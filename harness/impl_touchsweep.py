"""C19 setter sweep (implementation only): with automatic timestamps ON and the clock replaced by a
counter, every attribute the property lists is set to several kinds of value (incl. None / empty
where the setter accepts it) on a fresh entity; the entity's updated_at must then be the clock and
nobody else's may move.  With the switch OFF nothing may move."""
import json
import os
import sys

import numpy as np
import nixio

CLOCK = [5000]
nixio.util.now_int = lambda: CLOCK[0]
nixio.util.util.now_int = lambda: CLOCK[0]


def build(path, auto):
    f = nixio.File.open(path, nixio.FileMode.Overwrite, auto_update_timestamps=auto)
    b = f.create_block("b", "t")
    da = b.create_data_array("da", "t", data=np.arange(6.0).reshape(2, 3))
    da2 = b.create_data_array("da2", "t", data=np.arange(4.0))
    tag = b.create_tag("tag", "t", [1.0])
    mt = b.create_multi_tag("mt", "t", da2)
    ft = tag.create_feature(da2, "untagged")
    g = b.create_group("g", "t")
    src = b.create_source("src", "t")
    sec = f.create_section("sec", "t")
    sec2 = f.create_section("sec2", "t")
    # a range dimension linked to an array, one linked to a data-frame column: what is set THROUGH the dimension lands on
    # the linked object
    lda = b.create_data_array("lda", "t", data=np.arange(3.0))
    ldf = b.create_data_frame("ldf", "t", col_dict={"x": float}, data=[(1.0,), (2.0,), (3.0,)])
    ldf.units = ["s"]
    host = b.create_data_array("host", "t", data=np.zeros((3, 3)))
    rd1 = host.append_range_dimension()
    rd1.link_data_array(lda, [-1])
    rd2 = host.append_range_dimension()
    rd2.link_data_frame(ldf, 0)
    return f, dict(block=b, da=da, da2=da2, tag=tag, mt=mt, ft=ft, g=g, src=src, sec=sec, sec2=sec2, lda=lda, ldf=ldf, host=host,
                   _rd1=rd1, _rd2=rd2)


def cases(e):
    """(label, entity-key, callable)"""
    da, da2, tag, mt, ft, sec, sec2 = e["da"], e["da2"], e["tag"], e["mt"], e["ft"], e["sec"], e["sec2"]
    out = []
    for key in ("block", "da", "tag", "mt", "g", "src", "sec"):
        ent = e[key]
        out.append(("Entity.type='x' on %s" % key, key, lambda ent=ent: setattr(ent, "type", "x")))
        out.append(("Entity.definition='d' on %s" % key, key, lambda ent=ent: setattr(ent, "definition", "d")))
        out.append(("Entity.definition=None on %s" % key, key, lambda ent=ent: setattr(ent, "definition", None)))
    for val in ("l", None):
        out.append(("DataArray.label=%r" % (val,), "da", lambda val=val: setattr(da, "label", val)))
    for val in ("mV", None):
        out.append(("DataArray.unit=%r" % (val,), "da", lambda val=val: setattr(da, "unit", val)))
    for val in ([1.0, 2.0], [0.0], None):
        out.append(("DataArray.polynom_coefficients=%r" % (val,), "da", lambda val=val: setattr(da, "polynom_coefficients", val)))
    for val in (1.5, 0.0, None):
        out.append(("DataArray.expansion_origin=%r" % (val,), "da", lambda val=val: setattr(da, "expansion_origin", val)))
    out.append(("DataArray.append_set_dimension()", "da", lambda: da.append_set_dimension()))
    out.append(("DataArray.append_set_dimension(labels)", "da", lambda: da.append_set_dimension(["a", "b"])))
    out.append(("DataArray.append_sampled_dimension(1.0)", "da", lambda: da.append_sampled_dimension(1.0)))
    out.append(("DataArray.append_range_dimension([1,2])", "da", lambda: da.append_range_dimension([1.0, 2.0])))
    out.append(("DataArray.append_range_dimension()", "da", lambda: da.append_range_dimension()))
    out.append(("DataArray.append_range_dimension_using_self()", "da2", lambda: da2.append_range_dimension_using_self()))
    for val in ("x", None):
        out.append(("Section.repository=%r" % (val,), "sec", lambda val=val: setattr(sec, "repository", val)))
        out.append(("Section.reference=%r" % (val,), "sec", lambda val=val: setattr(sec, "reference", val)))
    out.append(("Section.link=<section>", "sec", lambda: setattr(sec, "link", sec2)))
    out.append(("MultiTag.positions=<array>", "mt", lambda: setattr(mt, "positions", da)))
    out.append(("MultiTag.extents=<array>", "mt", lambda: setattr(mt, "extents", da)))
    out.append(("MultiTag.extents=None", "mt", lambda: setattr(mt, "extents", None)))
    out.append(("Feature.data=<array>", "ft", lambda: setattr(ft, "data", da)))
    out.append(("Feature.link_type='indexed'", "ft", lambda: setattr(ft, "link_type", "indexed")))
    for val in ([2.0], [1.0, 2.0], None, []):
        out.append(("Tag.position=%r" % (val,), "tag", lambda val=val: setattr(tag, "position", val)))
    for val in ([2.0], None, []):
        out.append(("Tag.extent=%r" % (val,), "tag", lambda val=val: setattr(tag, "extent", val)))
    for key in ("tag", "mt"):
        ent = e[key]
        for val in (["mV"], ["mV", "s"], None, []):
            out.append(("%s.units=%r" % (key, val), key, lambda ent=ent, val=val: setattr(ent, "units", val)))
    # calls the property does not list: with the switch OFF they must not move any timestamp either; with it ON they may
    # stamp the entity they act on and nothing else
    g, src = e["g"], e["src"]
    out.append(("~DataArray.delete_dimensions()", "da", lambda: da.delete_dimensions()))
    out.append(("~DataArray.append(data)", "da2", lambda: da2.append(np.array([9.0]))))
    out.append(("~DataArray.data_extent = (5,)", "da2", lambda: setattr(da2, "data_extent", (5,))))
    out.append(("~DataArray[0] = 1.0", "da2", lambda: da2.__setitem__(0, 1.0)))
    out.append(("~Tag.references.append(<array>)", "tag", lambda: tag.references.append(da)))
    out.append(("~DataArray.sources.append(<source>)", "da", lambda: da.sources.append(src)))
    out.append(("~Group.data_arrays.append(<array>)", "g", lambda: g.data_arrays.append(da)))
    out.append(("~Tag.create_feature(<array>)", "tag", lambda: tag.create_feature(da, "untagged")))
    out.append(("~DataArray.metadata = <section>", "da", lambda: setattr(da, "metadata", sec)))
    out.append(("~del DataArray.metadata", "da", lambda: delattr(da, "metadata")))
    out.append(("~Section.create_property()", "sec", lambda: sec.create_property("np", [1])))
    rd1, rd2 = e["_rd1"], e["_rd2"]
    out.append(("~linked RangeDimension.unit = 'ms' (array)", "lda", lambda: setattr(rd1, "unit", "ms")))
    out.append(("~linked RangeDimension.label = 'x' (array)", "lda", lambda: setattr(rd1, "label", "x")))
    out.append(("~linked RangeDimension.dimension_link.unit = 's' (array)", "lda", lambda: setattr(rd1.dimension_link, "unit", "s")))
    out.append(("~linked RangeDimension.unit = 'ms' (frame column)", "ldf", lambda: setattr(rd2, "unit", "ms")))
    return out


def stamps(e):
    return {k: (int(v.created_at), int(v.updated_at)) for k, v in e.items() if not k.startswith("_")}


def main():
    wd = os.getcwd()
    res = []
    # the clock runs forwards, and - the property quantifies over arbitrary clock values - backwards
    for auto, tick, refusals_first in ((True, 7, False), (True, 7, True), (True, -7, True), (False, 7, True)):
        CLOCK[0] = 5000
        f, e = build(os.path.join(wd, "sweep_%s_%d_%s.nix" % (auto, tick, refusals_first)), auto)
        if refusals_first:
            # calls that are REFUSED earlier in the session must leave stamping as it was switched
            b = e["block"]
            for bad in (lambda: b.create_data_array("bad1", "t", data=[1.0], label=5),
                        lambda: b.create_data_array("bad2", "t", data=[1.0], unit="m\0V"),
                        lambda: b.create_data_array("da", "t", data=[1.0]),
                        lambda: b.create_tag("badtag", "t", "x"),
                        lambda: b.create_multi_tag("badmt", "t", e["sec"]),
                        lambda: b.create_data_frame("baddf", "t", col_dict={"a": int}, data=[("x",)]),
                        lambda: b.create_group(5, "t"), lambda: b.create_source("src", "t"),
                        lambda: f.create_block("b", "t"), lambda: f.create_section(5, "t"),
                        lambda: setattr(e["da"], "unit", 5), lambda: e["da"].append("zz"),
                        lambda: e["sec"].create_property("p", [3, "a"]), lambda: e["tag"].create_feature(e["sec"], "untagged"),
                        lambda: e["g"].data_arrays.append(e["sec"]), lambda: e["host"].append_sampled_dimension(-1.0),
                        lambda: e["da"].append_set_dimension(labels=5), lambda: e["da"].append_range_dimension(ticks=[3, 1])):
                try:
                    bad()
                except Exception:
                    pass
        for label, key, fn in cases(e):
            before = stamps(e)
            CLOCK[0] += tick
            try:
                fn()
                err = None
            except Exception as exc:
                err = type(exc).__name__
            after = stamps(e)
            moved = sorted(k for k in after if after[k] != before[k])
            entry = {"setter": label + (" (clock running backwards)" if tick < 0 else ""), "auto": auto, "clock": CLOCK[0], "raised": err, "moved": moved,
                     "updated_at": after[key][1], "created_changed": sorted(k for k in after if after[k][0] != before[k][0])}
            if err is None:
                if label.startswith("~"):
                    entry["ok"] = (moved in ([], [key]) if auto else moved == []) and not entry["created_changed"]
                elif auto:
                    entry["ok"] = after[key][1] == CLOCK[0] and moved == [key] and not entry["created_changed"]
                else:
                    entry["ok"] = moved == []
            else:
                entry["ok"] = True     # a refused call is C12's business
            res.append(entry)
        f.close()
    json.dump(res, sys.stdout)


main()
