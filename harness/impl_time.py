"""Implementation side of C19 (calendar): util.time_to_str / str_to_time under the TZ of the env."""
import json
import sys
from nixio import util

req = json.load(sys.stdin)
out = []
for t in req["seconds"]:
    s = util.time_to_str(t)
    if isinstance(s, bytes):
        s = s.decode()
    out.append([s, int(util.str_to_time(s))])
json.dump(out, sys.stdout)
