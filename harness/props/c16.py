"""C16 -- a data frame is a faithful table of named, typed columns."""
import os
import random
import struct
import sys

sys.path.insert(0, os.path.dirname(os.path.dirname(os.path.abspath(__file__))))
import core  # noqa: E402
from coqlit import cZ, cnat, clist  # noqa: E402

ID = "C16"
THEOREMS = ["c16_write_cell", "c16_write_rows_frame", "c16_write_rows_ordered", "c16_append_rows", "c16_append_column", "c16_write_column",
            "c16_refused_unchanged", "c16_reachable_wf", "c16_by_name"]
HEADER = "From Coq Require Import ZArith List.\nFrom NixV Require Import Base.Prelude Pure.Table Pure.TableCheck.\nImport ListNotations.\nOpen Scope Z_scope.\n"
TYPES = ["int64", "float64", "bool", "str", "int8", "uint16"]


def f64(x):
    return struct.unpack("<Q", struct.pack("<d", x))[0]


def cell(rnd, ty):
    if ty == "str":
        return rnd.randrange(14)
    if ty == "float64":
        return f64(rnd.choice([0.0, -0.0, 1.5, -2.25, 1e300, float("inf"), 5e-324, rnd.uniform(-9, 9)]))
    if ty == "bool":
        return rnd.randint(0, 1)
    if ty == "int8":
        return rnd.choice([0, 127, -128, rnd.randint(-128, 127)])
    if ty == "uint16":
        return rnd.choice([0, 65535, rnd.randint(0, 65535)])
    return rnd.choice([0, -1, 2 ** 63 - 1, -2 ** 63, rnd.randint(-1000, 1000)])


def gen_case(rnd, thorough):
    ncol = rnd.randint(1, 6)
    names = rnd.sample(range(10), ncol)
    cols = [(n, rnd.choice(TYPES)) for n in names]
    nrow = rnd.randint(0, 8)
    rows = [[cell(rnd, t) for _, t in cols] for _ in range(nrow)]
    create = rnd.choice(["col_dict", "names+dtypes"] + (["structured"] if nrow else []) + (["names+data"] if nrow and all(t in ("int64", "float64", "bool", "str") for _, t in cols) else []))
    ops = []
    cur_cols = list(cols)
    cur_n = nrow
    for _ in range(rnd.randint(2, 30 if thorough else 12)):
        r = rnd.random()
        if r < 0.22:
            k = rnd.randint(0, 3)
            new = [[cell(rnd, t) for _, t in cur_cols] for _ in range(k)]
            if rnd.random() < 0.1 and new:
                new[-1] = new[-1][:-1] if len(new[-1]) > 1 else new[-1] + [1]
            else:
                cur_n += k
            ops.append(["append_rows", new])
        elif r < 0.32 and len(cur_cols) < 9:
            ty = rnd.choice(TYPES)
            dupname = rnd.random() < 0.12
            name = rnd.choice([n for n, _ in cur_cols]) if dupname else rnd.choice([n for n in range(10) if n not in [c for c, _ in cur_cols]])
            ln = cur_n if rnd.random() < 0.88 else cur_n + rnd.choice([-1, 1])
            ln = max(ln, 0)
            ops.append(["append_column", [cell(rnd, ty) for _ in range(ln)], name, ty])
            if not dupname and ln == cur_n:
                cur_cols.append((name, ty))
        elif r < 0.5:
            k = rnd.randint(1, 3)
            idx = sorted(rnd.sample(range(max(cur_n, 1) + 1), min(k, max(cur_n, 1) + 1))) if rnd.random() < 0.85 else [cur_n + 2]
            if len(idx) > 1 and rnd.random() < 0.25:
                # an index list that is not strictly increasing (reversed, shuffled, a row twice): refused by h5py, nothing written
                idx = rnd.choice([idx[::-1], rnd.sample(idx, len(idx)), idx[:1] + idx[:-1]])
            new = [[cell(rnd, t) for _, t in cur_cols] for _ in idx]
            if rnd.random() < 0.1:
                new = new[:-1] if len(new) > 1 else new + new
            elif len(new) > 1 and rnd.random() < 0.12:
                # valid rows first, a LATER row with one cell too many / too few: nothing may be written
                j = rnd.randint(1, len(new) - 1)
                new[j] = new[j] + [new[j][-1]] if rnd.random() < 0.5 or len(new[j]) == 1 else new[j][:-1]
            ops.append(["write_rows", new, idx])
        elif r < 0.68:
            rr = rnd.randint(0, cur_n) if rnd.random() < 0.9 else cur_n + 3
            if rnd.random() < 0.5:
                cc = rnd.randint(0, len(cur_cols) - 1) if rnd.random() < 0.9 else len(cur_cols)
                ty = cur_cols[cc][1] if cc < len(cur_cols) else "int64"
                ops.append(["write_cell", rr, cc, cell(rnd, ty)])
            else:
                if rnd.random() < 0.9:
                    n, ty = rnd.choice(cur_cols)
                else:
                    n, ty = rnd.choice([x for x in range(10) if x not in [c for c, _ in cur_cols]] or [0]), "int64"
                ops.append(["write_cell_name", n, rr, cell(rnd, ty)])
        elif r < 0.88:
            ln = cur_n if rnd.random() < 0.88 else cur_n + 1
            if rnd.random() < 0.5:
                cc = rnd.randint(0, len(cur_cols) - 1) if rnd.random() < 0.9 else len(cur_cols) + 1
                ty = cur_cols[cc][1] if cc < len(cur_cols) else "int64"
                ops.append(["write_column", [cell(rnd, ty) for _ in range(ln)], cc])
            else:
                if rnd.random() < 0.9:
                    n, ty = rnd.choice(cur_cols)
                else:
                    n, ty = rnd.choice([x for x in range(10) if x not in [c for c, _ in cur_cols]] or [0]), "int64"
                ops.append(["write_column_name", [cell(rnd, ty) for _ in range(ln)], n])
        elif r < 0.94:
            ops.append(["reopen"])
        else:
            ops.append(["recreate"])
    # several Python objects for the frame: each op goes through one of them (last field of the op), is observed
    # through another, and all must agree
    for o in ops:
        o.append(rnd.randrange(4))
    return {"cols": cols, "rows": rows, "create": create, "ops": ops, "multi": True}


def parse_obs(o):
    ref, nc = o[0], o[1]
    names = o[2:2 + nc]
    tys = o[2 + nc:2 + 2 * nc]
    n = o[2 + 2 * nc]
    cells = o[3 + 2 * nc:]
    rows = [cells[i * nc:(i + 1) * nc] for i in range(n)]
    return ref % 25, names, tys, rows


def spec_failure(obs, ops):
    """the property's clauses read directly off the implementation's trace (no model):
    returns (step, what) for the first step that breaks one, else None"""
    for i, op in enumerate(ops):
        _, n0, t0, r0 = parse_obs(obs[i])
        ref, n1, t1, r1 = parse_obs(obs[i + 1])
        k = op[0]
        if ref:
            if (n0, t0, r0) != (n1, t1, r1):
                return i, "a refused %s changed the table" % k
            valid = None
            if k == "append_rows":
                valid = all(len(r) == len(n0) for r in op[1])
            elif k == "append_column":
                valid = len(op[1]) == len(r0) and op[2] not in n0
            elif k == "write_cell":
                valid = op[1] < len(r0) and op[2] < len(n0)
            elif k == "write_column":
                valid = len(op[1]) == len(r0) and op[2] < len(n0)
            elif k == "write_cell_name":
                valid = op[1] in n0 and op[2] < len(r0)
            elif k == "write_column_name":
                valid = op[2] in n0 and len(op[1]) == len(r0)
            elif k == "write_rows":
                valid = len(op[1]) == len(op[2]) and all(j < len(r0) for j in op[2]) and all(len(r) == len(n0) for r in op[1]) and \
                    all(a < b for a, b in zip(op[2], op[2][1:]))
            if valid:
                return i, "a valid %s was refused" % k
            continue
        if k == "recreate":
            return i, "creating a second data frame under the same name was accepted"
        if k == "reopen":
            exp = (n0, t0, r0)
        elif k == "append_rows":
            exp = (n0, t0, r0 + [list(r) for r in op[1]])
            if not all(len(r) == len(n0) for r in op[1]):
                return i, "append_rows with a row of the wrong length was accepted"
        elif k == "append_column":
            if len(op[1]) != len(r0) or op[2] in n0:
                return i, "append_column with a wrong length or an existing name was accepted"
            exp = (n0 + [op[2]], t0 + [TYPES.index(op[3])], [r + [v] for r, v in zip(r0, op[1])])
        elif k in ("write_cell", "write_cell_name"):
            if k == "write_cell":
                rr, cc, v = op[1], op[2], op[3]
            else:
                if op[1] not in n0:
                    return i, "write_cell on an unknown column was accepted"
                rr, cc, v = op[2], n0.index(op[1]), op[3]
            if rr >= len(r0) or cc >= len(n0):
                return i, "write_cell outside the table was accepted"
            rows = [list(r) for r in r0]
            rows[rr][cc] = v
            exp = (n0, t0, rows)
        elif k in ("write_column", "write_column_name"):
            if k == "write_column":
                cc = op[2]
            elif op[2] in n0:
                cc = n0.index(op[2])
            elif not r0 and not op[1]:
                cc = None
            else:
                return i, "write_column on an unknown column was accepted"
            if cc is not None and (cc >= len(n0) or len(op[1]) != len(r0)):
                return i, "write_column with a wrong index or length was accepted"
            rows = [list(r) for r in r0]
            if cc is not None:
                for r, v in zip(rows, op[1]):
                    r[cc] = v
            exp = (n0, t0, rows)
        elif k == "write_rows":
            if len(op[1]) != len(op[2]) or any(j >= len(r0) for j in op[2]) or any(len(r) != len(n0) for r in op[1]):
                return i, "write_rows with wrong counts or indices was accepted"
            rows = [list(r) for r in r0]
            for r, j in zip(op[1], op[2]):
                rows[j] = list(r)
            exp = (n0, t0, rows)
        if exp != (n1, t1, r1):
            return i, "%s did not change exactly the addressed cells" % k
    return None


def zl(l):
    return clist([cZ(x) for x in l], "Z")


def zll(l):
    return clist([zl(r) for r in l], "(list Z)")


def nl(l):
    return clist([cnat(x) for x in l], "nat")


def top(o):
    t = o[0]
    if t == "append_rows":
        return "(TAppendRows %s)" % zll(o[1])
    if t == "append_column":
        return "(TAppendColumn %s %s %s)" % (zl(o[1]), cZ(o[2]), cZ(TYPES.index(o[3])))
    if t == "write_rows":
        return "(TWriteRows %s %s)" % (zll(o[1]), nl(o[2]))
    if t == "write_cell":
        return "(TWriteCell %s %s %s)" % (cnat(o[1]), cnat(o[2]), cZ(o[3]))
    if t == "write_cell_name":
        return "(TWriteCellByName %s %s %s)" % (cZ(o[1]), cnat(o[2]), cZ(o[3]))
    if t == "write_column":
        return "(TWriteColumn %s %s)" % (zl(o[1]), cnat(o[2]))
    if t == "write_column_name":
        return "(TWriteColumnByName %s %s)" % (zl(o[1]), cZ(o[2]))
    return "TRecreate" if t == "recreate" else "TReopen"


def table_eval(ctx, st, cases):
    """runs the cases on the implementation, compares with the model; returns (failures, disagreements)"""
    impl = ctx.run_impl_cases("impl_table.py", cases, jobs=8, timeout=3000)
    terms, inputs, failures, all_obs = [], [], [], []
    for c, r in zip(cases, impl):
        inp = {"columns": c["cols"], "rows": len(c["rows"]), "create": c["create"], "ops": c["ops"]}
        if "create_error" in r:
            failures.append(("creating a data frame was refused", inp, r))
            continue
        obs = r["obs"]
        first = obs[0]
        want = [0, len(c["cols"])] + [n for n, _ in c["cols"]] + [TYPES.index(t) for _, t in c["cols"]] + [len(c["rows"])] + \
            [x for row in c["rows"] for x in row]
        if first != want:
            failures.append(("the table read right after creation differs from what was given", inp, {"read": first[:12], "want": want[:12]}))
            continue
        bad = [(i, o[0]) for i, o in enumerate(obs) if o[0] >= 25]
        if bad:
            i, code = bad[0]
            failures.append((("a change made through one object of the frame is not what another object of the same frame shows" if code >= 400 else
                              "a read path (read_rows / read_columns / read_cell) disagrees with the table or raises" if code >= 100 else
                              "row/column counts or names do not describe the stored table" if code >= 50 else
                              "the data frame's id, name or type changed"),
                             dict(inp, ops=c["ops"][:i]), {"code": code}))
            continue
        t0 = "(mkT %s %s)" % (clist(["(%s, %s)" % (cZ(n), cZ(TYPES.index(t))) for n, t in c["cols"]], "(Z * Z)"), zll(c["rows"]))
        terms.append("(%s, %s, %s)" % (t0, clist([top(o) for o in c["ops"]], "top"), zll(obs[1:])))
        inputs.append(inp)
        all_obs.append(obs)
    disagreements = []
    if core.vo_ok("Pure/TableCheck.v"):
        verd, errs = core.eval_verdicts(ctx.workdir, HEADER, "table_case", "check_table", terms, tag="tab", shard_size=60)
        for e in errs:
            st["broken"].append("model evaluation failed: %s" % e)
        for i, code in verd:
            inp = inputs[i]
            sf = spec_failure(all_obs[i], inp["ops"])
            if sf is not None:
                step, what = sf
                failures.append((what, dict(inp, ops=inp["ops"][:step + 1]), {"step": step, "before": all_obs[i][step][:40], "after": all_obs[i][step + 1][:40]}))
            else:
                disagreements.append(inp)
    else:
        st["broken"].append("model Pure/TableCheck.v does not build")
    return failures, disagreements


def frame_stage(ctx, st, n, what):
    """data-frame histories through several Python objects of one frame, for the properties about aliases (C05) and
    about reopening (C02): any failure or disagreement is reported under the calling property"""
    rnd = random.Random(ctx.seed + 4242)
    cases = [gen_case(rnd, False) for _ in range(n)]
    failures, disagreements = table_eval(ctx, st, cases)
    if failures and not ctx.violations:
        failures.sort(key=lambda x: len(repr(x[1])))
        kind, inp, r = failures[0]
        rp = ctx.write_replay("%s-frames-seed%d.json" % (ctx.prop, ctx.seed), {"property": ctx.prop, "kind": kind, "input": inp, "observed": r,
                                                                                "count": len(failures)})
        ctx.violation("%d data-frame histories through several objects of one frame violate %s (%s), e.g. %s" % (len(failures), ctx.prop, what, kind), rp)
    elif disagreements:
        st["broken"].append("correspondence: the table model and the implementation disagree on %d multi-object data-frame histories" % len(disagreements))
    return {"frame_histories": n, "frame_failures": len(failures), "frame_disagreements": len(disagreements)}


def run(ctx):
    rnd = random.Random(ctx.seed)
    thorough = ctx.tier == "thorough"
    st = core.proof_stage(ctx, [], ["Pure/TableCheck.vo", "Props/C16.vo"], "Props/C16.v", THEOREMS)
    ctx.trusted_base = [
        "Coq 8.16.1 kernel; no native_compute",
        "hand-written table model Pure/Table.v of nixio/data_frame.py, tied by correspondence on histories (this run); cells are "
        "opaque integers (bit patterns / pool indices); only values of the column's own type are written (numpy casting not modelled)",
    ]
    ctx.assumptions = ["every property theorem: Closed under the global context"]
    cases = [gen_case(rnd, thorough) for _ in range(3000 if thorough else 300)]
    failures, disagreements = table_eval(ctx, st, cases)
    if failures:
        failures.sort(key=lambda x: len(repr(x[1])))
        what, inp, r = failures[0]
        rp = ctx.write_replay("%s-seed%d.json" % (ID, ctx.seed), {"property": ID, "kind": what, "input": inp, "observed": r,
                                                                  "count": len(failures), "broken_obligations": st["broken"]})
        ctx.violation("%d data-frame histories violate C16, e.g. %s" % (len(failures), what), rp)
    elif disagreements:
        disagreements.sort(key=lambda x: len(repr(x)))
        st["broken"].append("correspondence: the table model and the implementation disagree on %d histories, e.g. %r" % (len(disagreements), disagreements[0]))
    ctx.coverage.update({
        "evaluations": sum(len(c["ops"]) + 1 for c in cases), "distinct_nontrivial": len(set(repr(c) for c in cases)),
        "rule": "schemas of 1-6 columns over int64/float64/bool/text/int8/uint16 with names from a 10-name pool (non-ASCII, blank), "
                "0-8 initial rows, four creation variants (col_dict, names+dtypes, names+data, structured array); ops: append_rows "
                "(incl. wrong length), append_column (incl. duplicate name, wrong length), write_rows (sorted indices, out of range, "
                "count mismatch, a later row of another length), re-creation under the same name (must be refused, identity kept), write_cell by position and by name (first/last/out of range/unknown), write_column by index (0 "
                "included) and by name, reopen; after every op the whole table, names, types, counts and four read paths are "
                "compared with the model.",
        "disagreements": len(disagreements), "spec_failures": len(failures),
        "samples": [{"columns": cases[0]["cols"], "create": cases[0]["create"], "ops": [o[0] for o in cases[0]["ops"]]}],
    })
    return st
