(* Pure/DimsCheck.v -- executable specification ("holds") and correspondence ("agree")
   functions evaluated on generated cases for C07.  The specification is order-based and
   independent of the code's rounding/tolerance logic: an answer is checked against the
   coordinates of its neighbours. *)
From Coq Require Import QArith Qround Qabs ZArith List Bool.
From NixV Require Import Base.Prelude Pure.Dims.
Import ListNotations.
Open Scope Q_scope.

Definition vcode3 (agree holds band : bool) : N :=
  ((if agree then 0 else 1) + (if holds then 0 else if band then 4 else 2))%N.

Definition optZ_eqb (a b : option Z) : bool := opt_eqb Z.eqb a b.
Definition rres_eqb (a b : rres) : bool :=
  match a, b with
  | RSome a1 b1, RSome a2 b2 => Z.eqb a1 a2 && Z.eqb b1 b2
  | RNone, RNone => true
  | RRaise, RRaise => true
  | _, _ => false
  end.

(* index set: 0 <= i, and i < n when n is given *)
Definition in_idx (n : option Z) (i : Z) : bool :=
  (0 <=? i)%Z && match n with Some k => (i <? k)%Z | None => true end.

(* is [r] the order-based answer for position p in mode m, for a non-decreasing coordinate
   function c on the index set n ? *)
Definition holds_index (c : Z -> Q) (n : option Z) (p : Q) (m : imode) (r : option Z) : bool :=
  let empty := match n with Some k => (k <=? 0)%Z | None => false end in
  match m, r with
  | Leq, Some i => in_idx n i && Qleb (c i) p && (negb (in_idx n (i + 1)) || Qltb p (c (i + 1)%Z))
  | Leq, None => empty || Qltb p (c 0%Z)
  | Less, Some i => in_idx n i && Qltb (c i) p && (negb (in_idx n (i + 1)) || Qleb p (c (i + 1)%Z))
  | Less, None => empty || Qleb p (c 0%Z)
  | Geq, Some i => in_idx n i && Qleb p (c i) && ((i =? 0)%Z || Qltb (c (i - 1)%Z) p)
  | Geq, None => match n with
                 | Some k => (k <=? 0)%Z || Qltb (c (k - 1)%Z) p
                 | None => false
                 end
  end.

Definition in_interval (m : smode) (p q x : Q) : bool :=
  Qleb p x && match m with Inclusive => Qleb x q | Exclusive => Qltb x q end.

(* is [r] the exact index range of the samples in the interval?  [first_ge] = an index such
   that every sample before it is < p and (if in range) its own coordinate is >= p *)
Definition holds_range (c : Z -> Q) (n : option Z) (p q : Q) (m : smode) (first_ge : Z) (r : rres) : bool :=
  match r with
  | RSome a b =>
      in_idx n a && in_idx n b && (a <=? b)%Z &&
      Qleb p (c a) && ((a =? 0)%Z || Qltb (c (a - 1)%Z) p) &&
      in_interval m p q (c b) && (negb (in_idx n (b + 1)) || negb (in_interval m p q (c (b + 1)%Z)))
  | RNone => negb (in_idx n first_ge) || negb (in_interval m p q (c first_ge))
  | RRaise => Qltb q p
  end.

(* ---- sampled *)
Definition first_ge_sampled (off itv p : Q) : Z := Z.max 0 (Qceiling ((p - off) / itv)).
Definition band_at (x : Q) (idx : Z) : bool := negb (Qeqb x (inject_Z idx)) && isclose x (inject_Z idx).
Definition band_sampled (off itv p : Q) : bool :=
  let x := (p - off) / itv in band_at x (qround x).
Definition band_set (p : Q) : bool := band_at p (Qfloor p).

Definition sampled_case := (Q * Q * Q * imode * option Z)%type.
Definition check_sampled (c : sampled_case) : N :=
  let '(off, itv, p, m, r) := c in
  vcode3 (optZ_eqb (sampled_index_of off itv p m) r)
         (holds_index (position_at off itv) None p m r)
         (band_sampled off itv p).

Definition sampled_range_case := (Q * Q * Q * Q * smode * rres)%type.
Definition check_sampled_range (c : sampled_range_case) : N :=
  let '(off, itv, p, q, m, r) := c in
  vcode3 (rres_eqb (rres_of (sampled_range_indices off itv p q m)) r)
         (match r with RRaise => false | _ =>
            holds_range (position_at off itv) None p q m (first_ge_sampled off itv p) r end)
         (band_sampled off itv p || band_sampled off itv q).

(* round trip: position_at i, then index_of in the three modes *)
Definition roundtrip_case := (Q * Q * Z * (Q * option Z * option Z * option Z))%type.
Definition check_roundtrip (c : roundtrip_case) : N :=
  let '(off, itv, i, (ipos, ileq, igeq, iless)) := c in
  vcode (Qeqb (position_at off itv i) ipos &&
         optZ_eqb (sampled_index_of off itv ipos Leq) ileq &&
         optZ_eqb (sampled_index_of off itv ipos Geq) igeq &&
         optZ_eqb (sampled_index_of off itv ipos Less) iless)
        (optZ_eqb ileq (Some i) && optZ_eqb igeq (Some i) &&
         optZ_eqb iless (if (i =? 0)%Z then None else Some (i - 1)%Z)).

(* axis started by position / by the index 0 (impl: None = ValueError) *)
Fixpoint Qlist_eqb (a b : list Q) : bool :=
  match a, b with
  | [], [] => true
  | x :: a', y :: b' => Qeqb x y && Qlist_eqb a' b'
  | _, _ => false
  end.
Definition axis_at_case := (Q * Q * option Q * option (list Q))%type.
Definition check_axis_at (c : axis_at_case) : N :=
  let '(off, itv, p, r) := c in
  let m := match p with Some p => sampled_axis_at off itv 3 p | None => Some (sampled_axis off itv 3 0) end in
  let ok := match m, r with
            | None, None => true
            | Some a, Some b => Qlist_eqb a b
            | _, _ => false
            end in
  vcode ok ok.

(* ---- range (ticks) *)
Definition tick_fn (ticks : list Q) (i : Z) : Q := nth (Z.to_nat i) ticks 0.
Definition nticks (ticks : list Q) : option Z := Some (Z.of_nat (length ticks)).
Definition first_ge_ticks (ticks : list Q) (p : Q) : Z :=
  match first_index (fun t => Qleb p t) ticks with Some i => i | None => Z.of_nat (length ticks) end.

Definition ticks_case := (list Q * Q * imode * option Z)%type.
Definition check_ticks (c : ticks_case) : N :=
  let '(ticks, p, m, r) := c in
  vcode (optZ_eqb (range_index_of ticks p m) r)
        (holds_index (tick_fn ticks) (nticks ticks) p m r).

Definition ticks_range_case := (list Q * Q * Q * smode * rres)%type.
Definition check_ticks_range (c : ticks_range_case) : N :=
  let '(ticks, p, q, m, r) := c in
  vcode (rres_eqb (range_range_indices ticks p q m) r)
        (holds_range (tick_fn ticks) (nticks ticks) p q m (first_ge_ticks ticks p) r).

(* ---- set *)
Definition set_n (nlabels : nat) : option Z :=
  match nlabels with O => None | _ => Some (Z.of_nat nlabels) end.
Definition set_case := (nat * Q * imode * option Z)%type.
Definition check_set (c : set_case) : N :=
  let '(n, p, m, r) := c in
  vcode3 (optZ_eqb (set_index_of n p m) r)
         (holds_index inject_Z (set_n n) p m r)
         (band_set p).

Definition set_range_case := (nat * Q * Q * smode * rres)%type.
Definition check_set_range (c : set_range_case) : N :=
  let '(n, p, q, m, r) := c in
  vcode3 (rres_eqb (set_range_indices n p q m) r)
         (holds_range inject_Z (set_n n) p q m (Z.max 0 (Qceiling p)) r)
         (band_set p || band_set q).
