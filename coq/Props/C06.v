(* Props/C06.v -- index expressions on arrays and views mean what they mean in NumPy.
   ONLY property theorems.  np_norm: NumPy's basic indexing (ints with wrap-around, slices with
   positive step through slice.indices, one ellipsis, padding) = what DataArray[...] hands to
   h5py; view_norm: DataView._transform_coordinates.  `corr a np view`: both refuse, or the
   view's selection is NumPy's selection in window coordinates shifted by the window start a. *)
From Coq Require Import ZArith List.
From NixV Require Import Base.Prelude Pure.Slices Pure.SlicesCheck Proofs.SlicesProofs Proofs.SlicesProofs2.
Import ListNotations.
Open Scope Z_scope.

Theorem c06_int_axis : forall a n u, 0 <= n ->
  corr a (np_axis n (IInt u)) (view_axis (a, a + n) (IInt u)).
Proof. exact int_axis. Qed.
Print Assumptions c06_int_axis.

Theorem c06_slice_axis : forall a n sa sb st, 0 <= n ->
  corr a (np_axis n (ISlice sa sb st)) (view_axis (a, a + n) (ISlice sa sb st)).
Proof. exact slice_axis. Qed.
Print Assumptions c06_slice_axis.

Theorem c06_neg_step_refused : forall w sa sb k, k < 0 ->
  exists e, view_axis w (ISlice sa sb (Some k)) = inr e.
Proof. exact neg_step_refused. Qed.
Print Assumptions c06_neg_step_refused.

(* every rank, every window inside the array, every index tuple not longer than the rank *)
Theorem c06_view_is_numpy_on_window : forall w e ex,
  wf_window w -> expand (length w) e = Some ex -> (length ex <= length w)%nat ->
  match np_norm (widths w) e, view_norm w e with
  | inl l, inl l' => l' = shift_all w l
  | inr _, inr _ => True
  | _, _ => False
  end.
Proof. exact view_is_numpy_on_window. Qed.
Print Assumptions c06_view_is_numpy_on_window.

(* the safety clause by itself, with NO hypothesis on the index expression (any length, any
   ellipses, any integers): whatever a view accepts, every element addressed on every axis lies
   inside the window of that axis - a read returns and an assignment changes no other element *)
Theorem c06_axis_inside_window : forall a z i s, 0 <= a <= z ->
  view_axis (a, z) i = inl s -> forall x, In x (sel_indices s) -> a <= x < z.
Proof. exact view_axis_inside. Qed.
Print Assumptions c06_axis_inside_window.

Theorem c06_never_outside_window : forall w e sels, wf_window w -> view_norm w e = inl sels ->
  Forall2 inside (firstn (length sels) w) sels.
Proof. exact view_never_outside_window. Qed.
Print Assumptions c06_never_outside_window.

(* not vacuous: a window 2..5 of an axis accepts [:-1] and addresses 2, 3 (and nothing below 2,
   which is where a stop that is not clamped would wrap to) *)
Example c06_inside_example :
  view_norm [(2, 5)] [ISlice None (Some (-1)) None] = inl [ARange 2 4 1] /\
  sel_indices (ARange 2 4 1) = [2; 3] /\
  view_norm [(2, 5)] [ISlice None (Some (-7)) None] = inl [ARange 2 2 1] /\ sel_indices (ARange 2 2 1) = [].
Proof. repeat split; vm_compute; reflexivity. Qed.
