(* Nix/Observe.v -- the canonical walk of a file: what the public API lets a user see, as a
   flat token stream (harness/walk.py produces the same stream through the real API), and a
   digest of it.  Links are reported as (role, target id), never by descending through them. *)
From NixV Require Import Base.Prelude H5.Store Nix.Api.
Open Scope N_scope.


(* structure markers *)
Definition m_open : wtok := WN (-1).
Definition m_close : wtok := WN (-2).
Definition m_err : wtok := WN (-3).

Definition w_attr (s : store) (a : addr) (k : str) : list wtok :=
  match get_attr s a k with
  | Some (AText t) => [WT t]
  | Some (AInt z) => [WN z]
  | Some (AData d) => WN (Z.of_nat (length d)) :: map WN d
  | None => [WNone]
  end.
Definition w_kind (k : ekind) : wtok :=
  WN (match k with KFile => 100 | KBlock => 101 | KGroup => 102 | KDataArray => 103 | KTag => 104
              | KMultiTag => 105 | KFeature => 106 | KSource => 107 | KSection => 108
              | KProperty => 109 | KDataFrame => 110 end).

(* The walk reads the store only through these five leaf observations; two stores on which
   they agree have the same walk (Proofs/WalkProofs.v). *)
Record view := mkView {
  v_attr : addr -> str -> list wtok;              (* an attribute *)
  v_link : addr -> str -> list wtok;              (* optional single link: target id / None *)
  v_link_req : addr -> str -> list wtok;          (* required single link: target id / error *)
  v_payload : addr -> str -> list wtok;           (* content of a child dataset *)
  v_list : addr -> str -> list (tok * addr);      (* the links of a child group, in order *)
}.

Definition view_of (s : store) : view :=
  mkView
    (fun a k => w_attr s a k)
    (fun a role => match child s a (TS role) with
                   | Some x => [w_opt_tok (entity_id s x)]
                   | None => [WNone]
                   end)
    (fun a role => match child s a (TS role) with
                   | Some x => [w_opt_tok (entity_id s x)]
                   | None => [m_err]
                   end)
    (fun a dname => match child s a (TS dname) with
                    | Some c => w_attr s c s_value
                    | None => [WNone]
                    end)
    (fun a cn => cont_links s (child s a (TS cn))).

(* nesting depth of sources / sections the walk follows (deeper trees end in an error token;
   the generators stay far below) *)
Definition walk_fuel : nat := 48.

Section Walk.
  Variable with_times : bool.
  Variable v : view.

  (* reading a missing timestamp raises *)
  Definition w_time1 (a : addr) (k : str) : list wtok :=
    match v_attr v a k with [WNone] => [m_err] | x => x end.
  Definition w_times (a : addr) : list wtok :=
    if with_times then w_time1 a k_created ++ w_time1 a k_updated else [].

  (* kind, name, id, type, definition [, created_at, updated_at] *)
  Definition w_header (k : ekind) (a : addr) : list wtok :=
    [m_open; w_kind k] ++ v_attr v a k_name ++ v_attr v a k_id ++ v_attr v a k_type
    ++ v_attr v a k_definition ++ w_times a.

  (* a list of links: ids of the targets, in order *)
  Definition w_linklist (a : addr) (role : str) : list wtok :=
    m_open :: flat_map (fun p => v_attr v (snd p) k_id) (v_list v a role) ++ [m_close].
  Definition w_children (a : addr) (cn : str) (f : addr -> list wtok) : list wtok :=
    m_open :: flat_map (fun p => f (snd p)) (v_list v a cn) ++ [m_close].

  Definition w_feature (a : addr) : list wtok :=
    [m_open; w_kind KFeature] ++ v_attr v a k_id ++ v_attr v a s_link_type
    ++ v_link_req v a s_data ++ v_attr v a s_target_type ++ w_times a ++ [m_close].
  Definition w_group (a : addr) : list wtok :=
    w_header KGroup a ++ v_link v a s_metadata ++ w_linklist a s_data_arrays ++ w_linklist a s_tags
    ++ w_linklist a s_multi_tags ++ w_linklist a s_sources ++ w_linklist a s_data_frames ++ [m_close].
  Definition w_data_frame (a : addr) : list wtok :=
    w_header KDataFrame a ++ v_payload v a s_data ++ v_link v a s_metadata ++ [m_close].
  Definition w_data_array (a : addr) : list wtok :=
    w_header KDataArray a ++ v_attr v a s_label ++ v_attr v a s_unit ++ v_payload v a s_data
    ++ v_link v a s_metadata ++ w_linklist a s_sources ++ [m_close].
  Definition w_tag (a : addr) : list wtok :=
    w_header KTag a ++ v_payload v a s_position ++ v_link v a s_metadata ++ w_linklist a s_references
    ++ w_linklist a s_sources ++ w_children a s_features w_feature ++ [m_close].
  Definition w_multi_tag (a : addr) : list wtok :=
    w_header KMultiTag a ++ v_link_req v a s_positions ++ v_link v a s_extents ++ v_link v a s_metadata
    ++ w_linklist a s_references ++ w_linklist a s_sources
    ++ w_children a s_features w_feature ++ [m_close].
  Definition w_property (a : addr) : list wtok :=
    [m_open; w_kind KProperty] ++ v_attr v a k_name ++ v_attr v a k_id ++ v_attr v a s_value
    ++ w_times a ++ [m_close].

  Fixpoint w_source (fuel : nat) (a : addr) : list wtok :=
    match fuel with
    | O => [m_err]
    | S f => w_header KSource a ++ v_link v a s_metadata ++ w_children a s_sources (w_source f) ++ [m_close]
    end.
  Fixpoint w_section (fuel : nat) (a : addr) : list wtok :=
    match fuel with
    | O => [m_err]
    | S f => w_header KSection a ++ v_attr v a s_repository ++ v_attr v a s_reference
             ++ v_link v a s_link ++ w_children a s_properties w_property
             ++ w_children a s_sections (w_section f) ++ [m_close]
    end.
  Definition w_block (a : addr) : list wtok :=
    w_header KBlock a ++ v_link v a s_metadata ++ w_children a s_groups w_group
    ++ w_children a s_data_arrays w_data_array ++ w_children a s_tags w_tag
    ++ w_children a s_multi_tags w_multi_tag ++ w_children a s_sources (w_source walk_fuel)
    ++ w_children a s_data_frames w_data_frame ++ [m_close].
  Definition walk_v : list wtok :=
    [m_open; w_kind KFile] ++ w_times 0%nat ++ w_children 0%nat s_data w_block
    ++ w_children 0%nat s_metadata (w_section walk_fuel) ++ [m_close].
End Walk.

Definition walk (with_times : bool) (s : store) : list wtok := walk_v with_times (view_of s).

(* ---- digest: polynomial hash mod 2^61-1; generated ids are renamed by first appearance over
   the whole trace (the renaming table is threaded through) *)
Definition hP : Z := 2305843009213693951.
Definition hB : Z := 1000003.
Definition hstep (h v : Z) : Z := ((h * hB + v + 7) mod hP)%Z.
Definition hstr (h : Z) (l : str) : Z :=
  fold_left (fun h c => hstep h (Z.of_N c)) l (hstep h (-11)).

Definition idmap := list (N * Z).
Fixpoint idmap_get (i : N) (m : idmap) : option Z :=
  match m with [] => None | (j, v) :: t => if N.eqb i j then Some v else idmap_get i t end.
Definition canon_id (i : N) (m : idmap) : idmap * Z :=
  match idmap_get i m with
  | Some v => (m, v)
  | None => let v := Z.of_nat (length m) in (m ++ [(i, v)], v)
  end.

Definition hash_tok (st : idmap * Z) (w : wtok) : idmap * Z :=
  let '(m, h) := st in
  match w with
  | WN n => (m, hstep (hstep h (-12)) n)
  | WNone => (m, hstep h (-13))
  | WT (TS l) => (m, hstr h l)
  | WT (TI i) => let '(m', v) := canon_id i m in (m', hstep (hstep h (-14)) v)
  end.
Definition hash_stream (m : idmap) (l : list wtok) : idmap * Z :=
  let '(m', h) := fold_left hash_tok l (m, 0%Z) in (m', h).

(* result of an op as tokens *)
Definition w_result (hsl : list handle) (s : store) (r : ores) : list wtok :=
  match r with
  | ROk None => [WN 0]
  | ROk (Some h) =>
      (* a new handle: report the id of the entity it designates *)
      match nth_error hsl (N.to_nat h) with
      | Some hd => [WN 1; w_opt_tok (entity_id s (ha hd))]
      | None => [WN 1; WNone]
      end
  | RToks l => WN 3 :: l
  | RErr e => [WN 2; WN (Z.of_N (err_code e))]
  end.

(* the trace of a history: after every op, (digest of the result, digest of the walk) *)
(* the clock of the histories is NOT monotone (the property quantifies over arbitrary clock values): op number n runs
   at second [clock_of n]; the harness patches the library's clock with the same function *)
Definition clock_of (n : Z) : Z := (900 + (n * 37) mod 211)%Z.
Fixpoint trace_from (with_times : bool) (ops : list op) (now : Z) (s : st) (m : idmap)
  : list (Z * Z) :=
  match ops with
  | [] => []
  | o :: rest =>
      let '(s1, r) := exec o (clock_of now) s in
      let '(m1, hr) := hash_stream m (w_result (hs s1) (sto s1) r) in
      let '(m2, hw) := hash_stream m1 (walk with_times (sto s1)) in
      (hr, hw) :: trace_from with_times rest (now + 1)%Z s1 m2
  end.
Definition trace (with_times : bool) (t0 : Z) (ops : list op) : list (Z * Z) :=
  trace_from with_times ops t0 init_st [].
