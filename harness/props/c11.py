"""C11 -- open modes and format-version gating protect existing files."""
import os
import random
import sys

sys.path.insert(0, os.path.dirname(os.path.dirname(os.path.abspath(__file__))))
import core  # noqa: E402
import translate as T  # noqa: E402
import nixcases  # noqa: E402
from coqlit import cstr, cZ, clist  # noqa: E402

ID = "C11"
THEOREMS = ["c11_gate_rw", "c11_gate_ro", "c11_gate_format", "c11_gate_malformed", "c11_ro_missing",
            "c11_overwrite", "c11_rw_keeps", "c11_ro_keeps", "c11_rw_creates_missing",
            "c11_ro_immutable", "c11_ro_mutators_fail", "c11_ro_reads_equal"]
HEADER = "From NixV Require Import Base.Prelude Gen.FileConsts Pure.Version Pure.VersionCheck.\n"
MODE = {"r": "RO", "a": "RW", "w": "OW"}
OUT = {"opened": "Opened", "invalidfile": "EInvalidFile", "runtime": "ERuntime", "type": "EType"}
IDS = {"valid": "IdValid", "invalid": "IdInvalid", "missing": "IdMissing"}


def header_lit(fmt, ver, idst):
    f = "(@None str)" if fmt is None else "(Some %s)" % cstr(fmt)
    v = "(@None (list Z))" if ver is None else "(Some %s)" % clist([cZ(x) for x in ver], "Z")
    return "{| h_format := %s; h_version := %s; h_id := %s |}" % (f, v, IDS[idst])


def gate(mode, fmt, ver, idst, lib):
    """the gating clause of the property, read off its text (no model, no translated constant): None = not decided here
    (malformed version), True = must open, False = must be refused"""
    if mode == "w":
        return None
    if fmt != "nix":
        return False
    if not isinstance(ver, list) or len(ver) != 3:
        return None
    needs_id = tuple(ver) >= (1, 2, 0)
    if mode == "a":
        ok = ver == list(lib)
    else:
        ok = ver[0] == lib[0] and ver[1] <= lib[1]
    return ok and (idst == "valid" or not needs_id)


def run(ctx):
    rnd = random.Random(ctx.seed)
    thorough = ctx.tier == "thorough"
    st = core.proof_stage(ctx, ["FileConsts"], ["Pure/VersionCheck.vo", "Nix/Check.vo", "Props/C11.vo"], "Props/C11.v", THEOREMS)
    ctx.trusted_base = [
        "Coq 8.16.1 kernel; no native_compute",
        "harness/translate.py section FileConsts: HDF_FF_VERSION, FILE_FORMAT, FileMode letters by import; the literal of "
        "the `self.version >= (...)` test of File._check_header by ast (fails closed on any other shape)",
        "hand-written model Pure/Version.v of _check_header/can_read/can_write and of the mode handling of File.__init__, "
        "tied by an exhaustive grid of crafted headers (this run)",
        "Python tuple comparison = lexicographic order; util.is_uuid abstracted to valid/invalid/missing",
        "byte identity of the file after a refused or read-only open is exercised (sha256), not proven: libhdf5 is not modelled",
    ]
    ctx.assumptions = ["every property theorem: Closed under the global context"]
    try:
        d = T.run_probe("probe_file.py", ctx.repo)
        lib = d["HDF_FF_VERSION"]
    except Exception as exc:
        st["broken"].append("cannot read file constants: %s" % exc)
        lib = [1, 2, 1]
    vers = set()
    rng = range(0, 4)
    for x in rng:
        for y in rng:
            for z in rng:
                vers.add((x, y, z))
    for dx in (-1, 0, 1):
        for dy in (-1, 0, 1):
            for dz in (-1, 0, 1):
                vers.add((lib[0] + dx, lib[1] + dy, lib[2] + dz))
    vers = sorted(v for v in vers if min(v) >= 0)
    cases = []
    for v in vers:
        for mode in ("r", "a", "w"):
            for idst in ("valid", "invalid", "missing"):
                cases.append((mode, "nix", list(v), idst))
    for v in rnd.sample(vers, 12 if not thorough else len(vers)):
        for mode in ("r", "a", "w"):
            for fmt in ("hdf", None, "NIX", "nix "):
                cases.append((mode, fmt, list(v), rnd.choice(["valid", "invalid", "missing"])))
    for ver in ([1, 2], [1, 2, 1, 0], [], [1], None):
        for mode in ("r", "a", "w"):
            cases.append((mode, "nix", ver, "valid"))
    if not thorough:
        keep = [c for c in cases if tuple(c[2] or ()) in ((1, 1, 0), (1, 2, 0), tuple(lib))] + rnd.sample(cases, 500)
        seen, cases2 = set(), []
        for c in keep:
            if repr(c) not in seen:
                seen.add(repr(c))
                cases2.append(c)
        cases = cases2
    impl = ctx.run_impl("impl_filemode.py", {"cases": cases})
    failures, terms, inputs, results = [], [], [], []
    for c, r in zip(cases, impl["cases"]):
        mode, fmt, ver, idst = c
        inp = {"mode": mode, "format": fmt, "version": ver, "id": idst}
        o = r["outcome"]
        if o not in OUT:
            failures.append(("open", inp, r))
            continue
        g = gate(mode, fmt, ver, idst, lib)
        if g is not None and g != (o == "opened"):
            failures.append(("a file that must be refused was opened" if not g else "a file that must open was refused", inp, r))
            continue
        terms.append("(%s, %s, %s)" % (MODE[mode], header_lit(fmt, ver, idst), OUT[o]))
        inputs.append(inp)
        results.append(r)
        # python-side trace predicates about content (the property's "protect existing files")
        if o != "opened" and not r["unchanged"]:
            failures.append(("refused open changed the bytes on disk", inp, r))
        if o == "opened" and mode == "r":
            if not r["unchanged"]:
                failures.append(("read-only open changed the bytes on disk", inp, r))
            if r["blocks"] != ["blk"] or r["sections"] != ["sec"] or r["data"] != [0.0, 1.0, 2.0, 3.0, 4.0]:
                failures.append(("read-only open does not show the existing content", inp, r))
        if o == "opened" and mode == "a":
            if r["blocks"] != ["blk"] or r["sections"] != ["sec"]:
                failures.append(("read-write open lost existing content", inp, r))
        if o == "opened" and mode == "w":
            if r["blocks"] or r["sections"] or r["version"] != lib or r["format"] != "nix" or not r["id_valid"] or r["same_id"]:
                failures.append(("overwrite did not yield an empty file with a fresh header", inp, r))
    m = impl["missing"]
    if not (m["r"]["outcome"] == "runtime" and not m["r"]["exists_after"]):
        failures.append(("read-only open of a missing path", {"mode": "r", "path": "missing"}, m["r"]))
    for mode in ("a", "w"):
        r = m[mode]
        if not (r["outcome"] == "opened" and r["exists_after"] and r["blocks"] == 0 and r["sections"] == 0
                and r["version"] == lib and r["id_valid"]):
            failures.append(("open of a missing path must create an empty file", {"mode": mode, "path": "missing"}, r))
    # files that exist but are not NIX files (zero bytes, text, plain HDF5): only overwrite may touch them
    for r in impl.get("foreign", []):
        inp = {"mode": r["mode"], "existing_file": r["kind"]}
        if r["mode"] in ("r", "a"):
            if r["outcome"] == "opened":
                failures.append(("a file that is not a NIX file was opened", inp, dict(r, outcome="opened")))
            elif not r["unchanged"] and not (r["kind"] == "empty" and r["mode"] == "a"):
                # (libhdf5 itself turns a ZERO-LENGTH file into an empty HDF5 container when asked to open it
                # read-write; nixio then refuses it. There was no content to keep, and the property does not ask for
                # byte identity of a refused read-write open - so only the refusal is demanded in that one corner.)
                failures.append(("a refused open changed the bytes on disk", inp, dict(r, outcome="changed")))
        elif r["outcome"] != "opened" or not r.get("write_accepted") or r.get("version") != lib:
            failures.append(("overwrite did not yield a fresh writable file", inp, dict(r, outcome=r["outcome"])))
    disagreements = []
    if core.vo_ok("Pure/VersionCheck.v"):
        verd, errs = core.eval_verdicts(ctx.workdir, HEADER, "open_case", "check_open", terms, tag="open", shard_size=600)
        for e in errs:
            st["broken"].append("model evaluation failed: %s" % e)
        for i, code in verd:
            if code & 2:
                failures.append(("open outcome violates the gating specification", inputs[i], results[i]))
            elif code & 1:
                disagreements.append((inputs[i], results[i]))
    else:
        st["broken"].append("model Pure/VersionCheck.v does not build against the regenerated constants")
    # ---- read-only sessions on files built by random histories: every op of the alphabet is
    # attempted through the real API; results and walks must be the model's; the bytes on disk
    # must not change during a read-only session
    nh = 400 if thorough else 60
    hists = ctx.run_impl("nixrun.py", {"seed": ctx.seed, "n": nh, "len": 30 if thorough else 24,
                                       "profile": {"readonly_reopen": True, "accessor_sweep": True, "weights": {"reopen": 2.5}}})
    ro_ops = 0
    ro_refused = 0
    swept = 0
    mutators = 0
    for k, h in enumerate(hists):
        for sw in h.get("ro_sweep") or []:
            swept += sw["accessors"]
            if sw["ndiffs"]:
                failures.append(("a read accessor answers differently in a read-only session than in a writable session on the same bytes",
                                 {"history": h["ops"][:sw["step"]], "accessor": sw["diffs"][0][0]},
                                 {"outcome": "differs", "writable": sw["diffs"][0][1], "read_only": sw["diffs"][0][2], "count": sw["ndiffs"]}))
            mutators += sw.get("mutators", 0)
            dc = sw.get("decorated_copy")
            if dc:
                mutators += dc["mutators"]
                if dc["nsilent"] or not dc["bytes_unchanged"]:
                    failures.append(("a mutating call returned normally in a read-only session (copy with every optional attribute set)"
                                     if dc["nsilent"] else "a read-only session changed the bytes on disk",
                                     {"history": h["ops"][:sw["step"]], "call": ("%s = %s" % tuple(dc["silent"][0])) if dc["silent"] else None},
                                     {"outcome": "accepted", "count": dc["nsilent"]}))
            if sw.get("nsilent"):
                failures.append(("a mutating call returned normally in a read-only session",
                                 {"history": h["ops"][:sw["step"]], "call": "%s = %s" % tuple(sw["silent"][0])},
                                 {"outcome": "accepted", "count": sw["nsilent"]}))
        readonly = False
        for op, res in zip(h["ops"], h["results"]):
            if op[0] == "reopen":
                readonly = bool(op[1])
            elif readonly:
                ro_ops += 1
                if res[0] == "err":
                    ro_refused += 1
        if h["ro_violations"]:
            failures.append(("bytes on disk changed during a read-only session", {"history": h["ops"]}, {"outcome": "changed", "at_steps": h["ro_violations"]}))
    if core.vo_ok("Nix/Check.v"):
        bad, errs = nixcases.check_histories(ctx, hists, False, tag="ro")
        for e in errs:
            st["broken"].append("model evaluation failed: %s" % e)
        for i, step, what in bad:
            disagreements.append(({"history": hists[i]["ops"][:step + 1], "differs": what, "step": step},
                                  {"outcome": hists[i]["results"][step]}))
    else:
        st["broken"].append("model Nix/Check.v does not build")
    if failures:
        failures.sort(key=lambda x: len(repr(x[1])))
        what, inp, r = failures[0]
        rp = ctx.write_replay("%s-seed%d.json" % (ID, ctx.seed), {
            "property": ID, "kind": what, "input": inp, "implementation_returned": r,
            "more": failures[1:20], "count": len(failures), "broken_obligations": st["broken"]})
        ctx.violation("%d cases violate C11, e.g. %s: %r -> %r" % (len(failures), what, inp, r.get("outcome")), rp)
    elif disagreements:
        st["broken"].append("correspondence: model and implementation disagree on %d headers, e.g. %r -> %r"
                            % (len(disagreements), disagreements[0][0], disagreements[0][1].get("outcome")))
    ctx.coverage.update({
        "evaluations": len(cases) + 3 + len(hists),
        "readonly_histories": len(hists), "ops_in_readonly_sessions": ro_ops, "of_which_refused": ro_refused,
        "accessors_compared_ro_vs_rw": swept, "setters_attempted_read_only": mutators,
        "distinct_nontrivial": len(set(repr(c) for c in cases)),
        "rule": "crafted files (a real NIX file with a block, an array and a section whose header attributes are rewritten "
                "with h5py): version triples {0..3}^3 and the 27 neighbours of the library version x 3 modes x id "
                "(valid/invalid/missing), other/missing format tags, malformed/missing version attributes; plus the three modes on "
                "a missing path, and on existing files that are not NIX files (zero bytes, text, plain HDF5). quick = all cases at versions 1.1.0, 1.2.0 and the library's + 500 sampled; thorough = the "
                "whole grid. Every case is distinct and non-trivial (a header plus a mode). Read-only sessions: random histories with "
                "read-only reopens; at each of them every public property and argument-free reader method (reflection over the "
                "classes) of every entity, dimension, feature and property is evaluated in the read-only session and in a writable "
                "session on a byte-identical copy, and the answers must be equal (test-level extension of the op alphabet).",
        "exhaustive": bool(thorough),
        "disagreements": len(disagreements), "spec_failures": len(failures),
        "samples": [inputs[0], inputs[len(inputs) // 2], inputs[-1]],
        "outcome_histogram": {k: sum(1 for r in impl["cases"] if r["outcome"] == k) for k in set(r["outcome"] for r in impl["cases"])},
    })
    return st
