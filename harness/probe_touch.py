"""subprocess probe: (class, method) pairs whose body contains, at top level of the function, the
guarded update   if self.file.auto_update_timestamps: <set updated_at>   -- by ast.
Also the format strings of util.time_to_str / str_to_time."""
import ast
import glob
import json
import os
import sys

import nixio

root = os.path.dirname(nixio.__file__)
out = []
skipped = []


def is_guard(node):
    if not isinstance(node, ast.If):
        return False
    t = ast.unparse(node.test)
    if t != "self.file.auto_update_timestamps":
        return False
    body = " ".join(ast.unparse(b) for b in node.body)
    return "force_updated_at" in body or "updated_at" in body


for path in sorted(glob.glob(os.path.join(root, "*.py"))):
    tree = ast.parse(open(path).read())
    for cls in [n for n in tree.body if isinstance(n, ast.ClassDef)]:
        for fn in [n for n in cls.body if isinstance(n, ast.FunctionDef)]:
            kind = "method"
            for dec in fn.decorator_list:
                d = ast.unparse(dec)
                if d.endswith(".setter"):
                    kind = "setter"
                elif d == "property":
                    kind = "getter"
            if kind == "getter":
                continue
            # the guarded update must be a statement of the function body itself: one that sits
            # inside a branch is performed only on some paths and does not count
            guards = [n for n in fn.body if is_guard(n)]
            nested = [n for n in ast.walk(fn) if is_guard(n) and n not in guards]
            if guards:
                last = fn.body[-1]
                pos = "last" if (guards[-1] is last) else "inner"
                out.append({"file": os.path.basename(path), "class": cls.name, "name": fn.name, "kind": kind, "where": pos})
            elif nested:
                skipped.append({"class": cls.name, "name": fn.name, "why": "guarded update only inside a branch"})

util_src = open(os.path.join(root, "util", "util.py")).read()
tree = ast.parse(util_src)
fmts = {}
for fn in [n for n in tree.body if isinstance(n, ast.FunctionDef) and n.name in ("time_to_str", "str_to_time")]:
    for node in ast.walk(fn):
        if isinstance(node, ast.Call) and isinstance(node.func, ast.Attribute) and node.func.attr in ("strftime", "strptime"):
            for a in node.args:
                if isinstance(a, ast.Constant) and isinstance(a.value, str) and "%" in a.value:
                    fmts[fn.name] = {"call": node.func.attr, "format": a.value}
json.dump({"touch": out, "formats": fmts, "conditional": skipped}, sys.stdout)
