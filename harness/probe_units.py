"""Run inside a subprocess with PYTHONPATH=<repo>.  Imports the CURRENT nixio.util.units with
`re` instrumented, and prints a JSON description of what the code uses:
tables (by value) and, per function, the regex patterns it applies and through which entry
point (match/search/fullmatch), in call order."""
import json
import re
import sys

_calls = []
_recording = [False]
_orig_compile = re.compile


class _Proxy(object):
    def __init__(self, pat):
        self._pat = pat

    def _rec(self, how, s):
        if _recording[0]:
            _calls.append({"pattern": self._pat.pattern, "flags": int(self._pat.flags),
                           "entry": how,
                           "groupindex": dict(self._pat.groupindex), "groups": self._pat.groups})

    def match(self, s, *a):
        self._rec("match", s)
        return self._pat.match(s, *a)

    def search(self, s, *a):
        self._rec("search", s)
        return self._pat.search(s, *a)

    def fullmatch(self, s, *a):
        self._rec("fullmatch", s)
        return self._pat.fullmatch(s, *a)

    def __getattr__(self, name):
        return getattr(self._pat, name)


def _compile(p, flags=0):
    if isinstance(p, _Proxy):
        return p
    return _Proxy(_orig_compile(p, flags))


re.compile = _compile
for _name in ("match", "search", "fullmatch"):
    def _mk(how):
        def f(pattern, string, flags=0):
            return getattr(_compile(pattern, flags), how)(string)
        return f
    setattr(re, _name, _mk(_name))

from nixio.util import units  # noqa: E402


def record(fn, *args):
    del _calls[:]
    _recording[0] = True
    try:
        try:
            fn(*args)
        except Exception as exc:  # the probe input is chosen so that no call raises
            return {"error": repr(exc), "calls": list(_calls)}
    finally:
        _recording[0] = False
    return {"calls": list(_calls)}


out = {
    "PREFIXES": units.PREFIXES,
    "UNITS": units.UNITS,
    "POWER": units.POWER,
    "PREFIX_FACTORS": {k: repr(float(v)) for k, v in units.PREFIX_FACTORS.items()},
    # inputs chosen so that every attempt of the function is reached
    "is_atomic": record(units.is_atomic, "??"),
    "is_compound": record(units.is_compound, "??"),
    "split": record(units.split, "??"),
    "split_compound": record(units.split_compound, "mV"),
}
json.dump(out, sys.stdout)
