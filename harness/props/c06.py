"""C06 -- index expressions on arrays and views mean what they mean in NumPy."""
import os
import random
import sys

sys.path.insert(0, os.path.dirname(os.path.dirname(os.path.abspath(__file__))))
import core  # noqa: E402
from coqlit import cZ, clist  # noqa: E402

ID = "C06"
THEOREMS = ["c06_int_axis", "c06_slice_axis", "c06_neg_step_refused", "c06_view_is_numpy_on_window", "c06_axis_inside_window",
            "c06_never_outside_window"]
HEADER = ("From Coq Require Import ZArith List.\nFrom NixV Require Import Base.Prelude Pure.Slices Pure.SlicesCheck.\n"
          "Import ListNotations.\nOpen Scope Z_scope.\n")


def oz(x):
    return "(@None Z)" if x is None else "(Some %s)" % cZ(x)


def ix(it):
    if it[0] == "int":
        return "(IInt %s)" % cZ(it[1])
    if it[0] == "slice":
        return "(ISlice %s %s %s)" % (oz(it[1]), oz(it[2]), oz(it[3]))
    return "IEll"


def zl(l):
    return clist([cZ(x) for x in l], "Z")


def rres(r):
    if r[0] == "refused":
        return "RRefused"
    if r[0] == "invalid":
        return "RInvalid"
    return "(RData %s %s)" % (zl(r[1]), zl(r[2]))


def gen_expr(rnd, shape, allow_long=False):
    rank = len(shape)
    n = rnd.randint(1, rank + (1 if allow_long else 0))
    e = []
    used_ell = False
    for k in range(n):
        ext = shape[min(k, rank - 1)]
        r = rnd.random()
        if r < 0.3:
            e.append(("int", rnd.randint(-ext - 2, ext + 1)))
        elif r < 0.88 or used_ell:
            def b():
                return None if rnd.random() < 0.3 else rnd.randint(-ext - 2, ext + 2)
            step = rnd.choice([None, None, 1, 1, 2, 3, -1, 0]) if rnd.random() < 0.5 else None
            e.append(("slice", b(), b(), step))
        else:
            e.append(("ell",))
            used_ell = True
    return e


def run(ctx):
    rnd = random.Random(ctx.seed)
    thorough = ctx.tier == "thorough"
    st = core.proof_stage(ctx, [], ["Pure/SlicesCheck.vo", "Props/C06.vo"], "Props/C06.v", THEOREMS)
    ctx.trusted_base = [
        "Coq 8.16.1 kernel; no native_compute",
        "hand-written model Pure/Slices.v: Python slice.indices, NumPy/h5py basic indexing for ints, positive-step slices, one "
        "ellipsis, padding (np_norm), DataView.__init__ / _expand_user_slices / _transform_coordinates (view_norm); tied by "
        "correspondence on arrays whose cells are their own flat offsets (this run)",
        "h5py selection semantics for the normalised tuples the view hands down = np_norm (exercised, not proven)",
    ]
    ctx.assumptions = ["every property theorem: Closed under the global context",
                       "window starts >= 0 (negative starts are interpreted NumPy-style by the code: outside the domain)"]
    shapes = [[5], [1], [0], [7], [3, 4], [4, 1], [2, 0], [2, 3, 2], [3, 2, 2, 2]]
    n_read = 40000 if thorough else 3000
    reads, views, writes = [], [], []
    for _ in range(n_read):
        shape = rnd.choice(shapes)
        reads.append((shape, gen_expr(rnd, shape)))
    for _ in range(n_read):
        shape = rnd.choice(shapes)
        pe = []
        inside = all(shape) and rnd.random() < 0.5       # half of the windows lie inside the array (a valid view of full rank)
        for ext in shape:
            if inside:
                p = rnd.randint(0, ext - 1)
                pe.append((p, rnd.randint(1, ext - p)))
                continue
            p = rnd.randint(0, ext + 1)
            pe.append((p, rnd.randint(0, ext + 2 - p) if rnd.random() < 0.8 else rnd.randint(0, ext + 2)))
        views.append((shape, pe, gen_expr(rnd, shape, allow_long=(rnd.random() < 0.15))))
    for _ in range(n_read // 4):
        shape = rnd.choice([s for s in shapes if all(s)])
        if rnd.random() < 0.5:
            writes.append((shape, None, gen_expr(rnd, shape)))
        else:
            pe = []
            for ext in shape:
                p = rnd.randint(0, ext)
                pe.append((p, rnd.randint(1, ext - p) if p < ext and rnd.random() < 0.8 else rnd.randint(0, ext - p)))
            writes.append((shape, pe, gen_expr(rnd, shape)))
    impl = ctx.run_impl("impl_slices.py", {"read": reads, "view": views, "write": writes}, timeout=3000)
    failures, disagreements = [], []
    # direct reads: oracle = NumPy itself on an in-memory copy (the property's own words)
    t_read, in_read = [], []
    for (shape, e), r, npr in zip(reads, impl["read"], impl["numpy"]):
        inp = {"shape": shape, "index": e}
        neg_step = any(it[0] == "slice" and it[3] is not None and it[3] < 0 for it in e)
        if not neg_step:
            if (r[0] == "refused") != (npr[0] == "refused") or (r[0] == "data" and r != npr):
                failures.append(("array[expr] differs from NumPy on an in-memory copy", inp, {"nixio": r[:2] + [r[2][:8]] if r[0] == "data" else r, "numpy": npr[:2] + [npr[2][:8]] if npr[0] == "data" else npr}))
        elif r[0] != "refused":
            failures.append(("a negative step was not refused", inp, r[:2]))
        t_read.append("(%s, %s, %s)" % (zl(shape), clist([ix(i) for i in e], "ix"), rres(r)))
        in_read.append(inp)
    t_view, in_view = [], []
    for (shape, pe, e), r in zip(views, impl["view"]):
        inp = {"shape": shape, "window": pe, "index": e}
        if r[0] == "invalid":
            if r[1][0] == "data" and r[1][2]:
                failures.append(("an invalid view returned data", inp, r))
        if r[0] == "refused" and r[1].startswith("get_slice"):
            continue
        t_view.append("(%s, %s, %s, %s)" % (zl(shape), clist(["(%s, %s)" % (cZ(p), cZ(x)) for p, x in pe], "(Z * Z)"),
                                            clist([ix(i) for i in e], "ix"), rres(r)))
        in_view.append(inp)
    model_ok = core.vo_ok("Pure/SlicesCheck.v")
    if model_ok:
        for name, ty, fn, terms, inputs in (("read", "read_case", "check_read", t_read, in_read),
                                            ("view", "view_case", "check_view", t_view, in_view)):
            verd, errs = core.eval_verdicts(ctx.workdir, HEADER, ty, fn, terms, tag=name, shard_size=700)
            for er in errs:
                st["broken"].append("model evaluation failed (%s): %s" % (name, er))
            for i, code in verd:
                if code & 2 and name == "view":
                    failures.append(("view[expr] differs from NumPy applied to the window", inputs[i], None))
                elif code & 1 or code & 2:
                    disagreements.append((name, inputs[i]))
    else:
        st["broken"].append("model Pure/SlicesCheck.v does not build")
    # writes: exactly the addressed cells change (python-side, against the NumPy oracle)
    import numpy as np
    for k, ((shape, pe, e), r) in enumerate(zip(writes, impl["write"])):
        inp = {"shape": shape, "window": pe, "index": e, "bare_index": k % 2 == 0 and len(e) == 1}
        idx = tuple(i[1] if i[0] == "int" else (slice(i[1], i[2], i[3]) if i[0] == "slice" else Ellipsis) for i in e)
        mem = np.arange(int(np.prod(shape)), dtype=np.int64).reshape(shape)
        try:
            if pe is None:
                mem[idx] = -1
            else:
                sub = mem[tuple(slice(p, p + x) for p, x in pe)]
                sub[idx] = -1
            want = [int(i) for i in np.nonzero(mem.ravel() == -1)[0]]
            ok = True
        except Exception:
            ok = False
            want = None
        neg_step = any(it[0] == "slice" and it[3] is not None and it[3] < 0 for it in e)
        if r[0] == "data":
            if r[2]:
                failures.append(("a write changed cells to something else", inp, r))
            elif neg_step:
                failures.append(("a negative step was not refused on write", inp, r[:1]))
            elif not ok or r[1] != want:
                failures.append(("assignment changed other cells than NumPy would", inp, {"changed": r[1][:12], "numpy": (want or [])[:12]}))
        elif r[0] == "refused":
            if r[2]:
                failures.append(("a refused assignment changed cells", inp, r))
            elif ok and not neg_step:
                failures.append(("an assignment NumPy accepts was refused", inp, r[:2]))
        elif r[0] == "invalid-but-written":
            failures.append(("write through an invalid view", inp, r))
    kf = core.load_known(ID)
    kf_m = set(e.get("match") for e in kf)
    new = []
    surplus = 0
    for f in failures:
        inp = f[1]
        rank = len(inp["shape"])
        nidx = len([i for i in inp["index"] if i[0] != "ell"])
        if "view_surplus_index" in kf_m and inp.get("window") and nidx > rank:
            surplus += 1
            continue
        new.append(f)
    for e in kf:
        if e.get("match") == "view_surplus_index":
            wv = e["witness"]
            r = ctx.run_impl("impl_slices.py", {"view": [[wv["shape"], wv["window"], [tuple(i) for i in wv["index"]]]] * 2})["view"][1]
            if r[0] == "data":
                ctx.known_hits.append("%s (%d further instances in this run)" % (e["what"], surplus))
    if new:
        new.sort(key=lambda x: len(repr(x[1])))
        what, inp, r = new[0]
        rp = ctx.write_replay("%s-seed%d.json" % (ID, ctx.seed), {"property": ID, "kind": what, "input": inp, "observed": r,
                                                                  "more": new[1:10], "count": len(new), "broken_obligations": st["broken"]})
        ctx.violation("%d index expressions violate C06, e.g. %s: %r" % (len(new), what, inp), rp)
    elif disagreements:
        st["broken"].append("correspondence: model and implementation disagree on %d expressions, e.g. %r" % (len(disagreements), disagreements[0]))
    ctx.coverage.update({
        "evaluations": len(reads) + len(views) + len(writes),
        "distinct_nontrivial": len(set(repr(x) for x in reads + views + writes)),
        "rule": "shapes of rank 1-4 incl. zero-length axes; index tuples of ints in [-extent-2, extent+1], slices with start/stop in "
                "that range or None and step in {None,1,2,3,-1,0}, one ellipsis anywhere, tuple length <= rank; views from "
                "get_slice(positions, extents) with windows inside and beyond the array; arrays hold their own flat offsets so a "
                "read returns the addresses of the cells it selected; reads are compared with NumPy on an in-memory copy, with the "
                "model, and (views) with NumPy-on-the-window in Gallina; assignments of -1 are read back from the whole array and "
                "compared with NumPy's effect. Every case is distinct-counted by (shape, window, expression).",
        "disagreements": len(disagreements), "spec_failures": len(new), "known_surplus_index": surplus,
        "samples": [reads[0], views[0], writes[0]],
    })
    return st
