(* Proofs/VersionProofs.v -- C11: version gating and open modes. *)
From NixV Require Import Base.Prelude Gen.FileConsts Pure.Version.
From Coq Require Import Lia.
Open Scope Z_scope.

(* the translated constants have the shape the model assumes (re-checked at every build) *)
Definition lx := nth 0 lib_version 0.
Definition ly := nth 1 lib_version 0.
Definition lz := nth 2 lib_version 0.
Lemma lib_shape : lib_version = [lx; ly; lz].
Proof. reflexivity. Qed.

Lemma zlist_eqb_eq a b : zlist_eqb a b = true <-> a = b.
Proof.
  unfold zlist_eqb. revert b; induction a as [|x a IH]; intros [|y b]; cbn; split; intro H;
    try reflexivity; try discriminate.
  - apply andb_prop in H. destruct H as [H1 H2]. apply Z.eqb_eq in H1. apply IH in H2. congruence.
  - injection H as -> ->. rewrite Z.eqb_refl. cbn. apply IH. reflexivity.
Qed.


Lemma fmt_ok : negb (opt_eqb streq (Some file_format) (Some file_format)) = false.
Proof. cbn [opt_eqb]. rewrite streq_refl. reflexivity. Qed.

(* read-write: exactly the library's own version (and a valid id from the id-requiring version on) *)
Lemma gate_rw x y z i :
  check_header RW (nix_header [x; y; z] i) = Opened <->
  [x; y; z] = lib_version /\ (tuple_ge [x; y; z] id_required_from = true -> i = IdValid).
Proof.
  unfold check_header, nix_header. cbn [h_format h_version h_id]. rewrite fmt_ok.
  unfold can_write. cbn [length Nat.eqb negb].
  destruct (zlist_eqb lib_version [x; y; z]) eqn:E.
  - apply zlist_eqb_eq in E. rewrite <- E.
    destruct (tuple_ge lib_version id_required_from) eqn:T.
    + destruct i; cbn [id_ok].
      * split; auto.
      * split; [discriminate | intros [_ H]; specialize (H eq_refl); discriminate].
      * split; [discriminate | intros [_ H]; specialize (H eq_refl); discriminate].
    + split; intro H; [split; [reflexivity | intro; discriminate] | reflexivity].
  - split; intro H; [discriminate|]. destruct H as [H _]. symmetry in H.
    apply zlist_eqb_eq in H. congruence.
Qed.

(* read-only: same major version, minor not newer than the library's *)
Lemma gate_ro x y z i :
  check_header RO (nix_header [x; y; z] i) = Opened <->
  x = lx /\ y <= ly /\ (tuple_ge [x; y; z] id_required_from = true -> i = IdValid).
Proof.
  unfold check_header, nix_header. cbn [h_format h_version h_id]. rewrite fmt_ok.
  unfold can_read. rewrite lib_shape.
  destruct (lx =? x) eqn:Ex; destruct (y <=? ly) eqn:Ey; cbn [andb].
  - apply Z.eqb_eq in Ex. apply Z.leb_le in Ey.
    destruct (tuple_ge [x; y; z] id_required_from) eqn:T.
    + destruct i; cbn [id_ok].
      * split; intro H; [split; [lia | split; [lia | auto]] | reflexivity].
      * split; [discriminate | intros [_ [_ H]]; specialize (H eq_refl); discriminate].
      * split; [discriminate | intros [_ [_ H]]; specialize (H eq_refl); discriminate].
    + split; intro H; [split; [lia | split; [lia | intro; discriminate]] | reflexivity].
  - apply Z.leb_gt in Ey. split; intro H; [discriminate | lia].
  - apply Z.eqb_neq in Ex. split; intro H; [discriminate | lia].
  - apply Z.eqb_neq in Ex. split; intro H; [discriminate | lia].
Qed.

Lemma gate_format m h : h_format h <> Some file_format -> check_header m h = EInvalidFile.
Proof.
  intros H. unfold check_header.
  destruct (opt_eqb streq (h_format h) (Some file_format)) eqn:E; [|reflexivity].
  exfalso. apply H. destruct (h_format h) as [f|]; cbn in E; [|discriminate].
  apply streq_eq in E. congruence.
Qed.

Lemma gate_malformed m v i : m <> OW -> length v <> 3%nat ->
  check_header m (nix_header v i) <> Opened.
Proof.
  intros Hm Hl. unfold check_header, nix_header. cbn [h_format h_version h_id]. rewrite fmt_ok.
  destruct m; try congruence.
  - unfold can_read. rewrite lib_shape.
    destruct v as [|a [|b [|c [|d v]]]]; cbn in Hl; try congruence; discriminate.
  - unfold can_write. apply Nat.eqb_neq in Hl. rewrite Hl. cbn. discriminate.
Qed.

Lemma gate_noversion m f i : check_header m {| h_format := f; h_version := None; h_id := i |} <> Opened.
Proof.
  unfold check_header. cbn [h_format h_version]. destruct (negb _); discriminate.
Qed.

(* ---- open modes *)
Section Modes.
  Variable content : Type.
  Variable empty : content.
  Notation fs := (fs content).
  Notation open_file := (open_file content empty).

  Lemma fresh_opens : check_header OW fresh_header = Opened.
  Proof. vm_compute. reflexivity. Qed.

  (* read-only on a missing path: an error, and nothing is created *)
  Lemma open_ro_missing (f : fs) p : f p = None -> open_file f p RO = (f, ENoFile).
  Proof. intros H. unfold open_file. rewrite H. reflexivity. Qed.

  (* overwrite: an empty file with a fresh header, whatever was there; other paths untouched *)
  Lemma open_overwrite (f : fs) p :
    exists f', open_file f p OW = (f', OOk OW) /\
      f' p = Some {| hdr := fresh_header; body := empty |} /\
      forall q, q <> p -> f' q = f q.
  Proof.
    unfold open_file. rewrite fresh_opens.
    destruct (f p); eexists; (split; [reflexivity|]); (split;
      [unfold upd; rewrite Nat.eqb_refl; reflexivity
      | intros q Hq; unfold upd; apply Nat.eqb_neq in Hq; rewrite Hq; reflexivity]).
  Qed.

  (* read-write: an existing file is never changed by opening (whatever the outcome); a
     missing one is created empty with a fresh header *)
  Lemma open_rw_existing (f : fs) p x : f p = Some x ->
    exists r, open_file f p RW = (f, r) /\
      (r = OOk RW <-> check_header RW (hdr content x) = Opened).
  Proof.
    intros H. unfold open_file. rewrite H. eexists. split; [reflexivity|].
    destruct (check_header RW (hdr content x)); split; intro E; try reflexivity; try discriminate.
  Qed.
  Lemma open_ro_existing (f : fs) p x : f p = Some x ->
    exists r, open_file f p RO = (f, r) /\
      (r = OOk RO <-> check_header RO (hdr content x) = Opened).
  Proof.
    intros H. unfold open_file. rewrite H. eexists. split; [reflexivity|].
    destruct (check_header RO (hdr content x)); split; intro E; try reflexivity; try discriminate.
  Qed.
  Lemma open_rw_missing (f : fs) p : f p = None ->
    exists f', open_file f p RW = (f', OOk OW) /\
      f' p = Some {| hdr := fresh_header; body := empty |} /\ forall q, q <> p -> f' q = f q.
  Proof.
    intros H. unfold open_file. rewrite H, fresh_opens. eexists. split; [reflexivity|]. split.
    - unfold upd. rewrite Nat.eqb_refl. reflexivity.
    - intros q Hq. unfold upd. apply Nat.eqb_neq in Hq. rewrite Hq. reflexivity.
  Qed.
End Modes.

Example gate_nonvacuous :
  check_header RO (nix_header [1; 1; 0] IdMissing) = Opened /\
  check_header RW (nix_header [1; 1; 0] IdMissing) = ERuntime /\
  check_header RO (nix_header [1; 2; 0] IdMissing) = ERuntime /\
  check_header RW (nix_header lib_version IdValid) = Opened.
Proof. vm_compute. repeat split. Qed.
