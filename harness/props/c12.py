"""C12 -- a refused operation leaves the file exactly as it was."""
import os
import sys

sys.path.insert(0, os.path.dirname(os.path.dirname(os.path.abspath(__file__))))
import core  # noqa: E402
import nixcases  # noqa: E402

ID = "C12"
THEOREMS = ["c12_creators", "c12_nested_creators", "c12_create_multi_tag", "c12_append", "c12_remove",
            "c12_delete", "c12_set_attr", "c12_set_link", "c12_lookup", "c12_create_feature",
            "c12_dimension_calls", "c12_dimension_refusals_exact"]


def run(ctx):
    thorough = ctx.tier == "thorough"
    st = core.proof_stage(ctx, [], ["Nix/Check.vo", "Props/C12.vo", "Pure/DimLinkCheck.vo"], "Props/C12.v", THEOREMS)
    ctx.trusted_base = [
        "Coq 8.16.1 kernel; no native_compute",
        "hand-written model of the API calls as programs over the store (coq/Nix/Api.v, coq/H5/Store.v), tied to nixio by "
        "correspondence of results and canonical walks on operation histories (this run)",
        "the canonical walk through the public API (harness/nixwalk.py) = coq/Nix/Observe.v",
        "modelled call sites: create_block/section/group/data_array/tag/source/property/multi_tag/feature, link-list "
        "append/remove, metadata/positions/extents/feature-data/section-link setters, type/definition/label/unit/repository/"
        "reference setters, container deletion and lookup; NOT yet modelled: dimension descriptors, data writes, data frames",
    ]
    ctx.assumptions = ["every property theorem: Closed under the global context"]
    nh = 700 if thorough else 90
    hists = ctx.run_impl("nixrun.py", {"seed": ctx.seed, "n": nh, "len": 30 if thorough else 26,
                                       "profile": {"weights": {"bad": 7, "append": 6, "lookup": 2, "delete": 2,
                                                               "remove": 3, "feature": 3, "reopen": 0.4},
                                                   "uuid_names": False}})
    failures, known, disagreements = [], [], []
    refused = 0
    classes = {}
    kf = core.load_known(ID)
    kf_sites = set(e.get("match") for e in kf)
    for k, h in enumerate(hists):
        tr = h["trace"]
        for i, (op, res) in enumerate(zip(h["ops"], h["results"])):
            if res[0] != "err" or op[0] == "reopen":
                continue
            refused += 1
            classes[res[2].split(":")[0]] = classes.get(res[2].split(":")[0], 0) + 1
            before = tr[i - 1][1] if i > 0 else None
            if i == 0:
                continue
            if tr[i][1] != before:
                item = ({"history": h["ops"][:i + 1], "refused_op": op, "exception": res[2]}, {"walk_changed": True})
                if op[0] == "create_feature" and "create_feature" in kf_sites:
                    known.append(item)
                else:
                    failures.append(("refused call changed the observable state", item[0], item[1]))
    if core.vo_ok("Nix/Check.v"):
        bad, errs = nixcases.check_histories(ctx, hists, False, tag="c12")
        for e in errs:
            st["broken"].append("model evaluation failed: %s" % e)
        for i, step, what in bad:
            disagreements.append(({"history": hists[i]["ops"][:step + 1], "differs": what, "step": step},
                                  {"outcome": hists[i]["results"][step]}))
    else:
        st["broken"].append("model Nix/Check.v does not build")
    for e in kf:
        if e.get("match") == "create_feature":
            r = ctx.run_impl("nixrun.py", {"replay": [e["witness"]]})[0]
            i = len(r["ops"]) - 1
            if r["results"][i][0] == "err" and r["trace"][i][1] != r["trace"][i - 1][1]:
                ctx.known_hits.append("%s (%d further instances in this run)" % (e["what"], len(known)))
    if failures:
        failures.sort(key=lambda x: len(repr(x[1])))
        what, inp, r = failures[0]
        rp = ctx.write_replay("%s-seed%d.json" % (ID, ctx.seed), {
            "property": ID, "kind": what, "input": inp, "observed": r, "more": failures[1:10],
            "count": len(failures), "broken_obligations": st["broken"],
            "how_to_replay": "./check C12 --replay <this file> (re-executes input.history on the real nixio)"})
        ctx.violation("%d refused calls changed the file, e.g. %r (%s)" % (len(failures), inp["refused_op"], inp["exception"]), rp)
    elif disagreements:
        st["broken"].append("correspondence: model and implementation disagree on %d histories, e.g. %r"
                            % (len(disagreements), disagreements[0]))
    ctx.coverage.update({
        "evaluations": sum(len(h["ops"]) for h in hists),
        "distinct_nontrivial": len(set(repr(h["ops"][:i + 1][-3:]) for h in hists for i, r in enumerate(h["results"]) if r[0] == "err")),
        "rule": "random valid histories over blocks/groups/arrays/tags/multi-tags/features/sources/sections/properties with a "
                "malformed stream injected at random points (empty / slashed / duplicate name, empty type, wrong-kind or "
                "foreign-block object, out-of-range index, unknown key), each followed with probability 0.7 by the same call "
                "with a valid argument; a case is non-trivial when it is a refused call; distinct = distinct (two preceding ops, "
                "refused op) triples",
        "histories": len(hists), "refused_calls": refused, "refusal_classes": classes,
        "known_finding_instances": len(known), "disagreements": len(disagreements), "spec_failures": len(failures),
        "samples": [hists[0]["ops"][:6]],
    })
    # call sites that are exercised, not modelled: every public creating / mutating call x every class of invalid
    # argument, complete HDF5 content compared before / after, rejected names retried with a valid argument
    sweep = ctx.run_impl("impl_refusals.py", {})
    sweep_bad = []
    for r in sweep:
        if "build_error" in r:
            st["broken"].append("refusal sweep could not build its file: %s" % r["build_error"])
            continue
        what = None
        if r["outcome"] == "accepted":
            what = "an invalid argument (%s) was accepted" % r["class"]
        elif r["changed"]:
            what = "a refused call changed the file"
        elif r.get("retry") not in (None, "ok"):
            what = "the rejected name is not available to a later valid call"
        if what:
            sweep_bad.append((what, {"call": r["label"], "auto_timestamps": r["auto_timestamps"]},
                              {"exception": r.get("exception"), "changed": r["changed"][:6], "retry": r.get("retry")}))
    ctx.coverage["refusal_sweep"] = {"trials": len(sweep), "call_sites": len(set(r["label"] for r in sweep)),
                                     "classes": sorted(set(r["class"] for r in sweep)), "failures": len(sweep_bad)}
    if sweep_bad and not ctx.violations:
        what, inp, obs = sweep_bad[0]
        rp = ctx.write_replay("%s-sweep-seed%d.json" % (ID, ctx.seed), {"property": ID, "kind": what, "input": inp, "observed": obs,
                                                                          "count": len(sweep_bad), "all": [b[1]["call"] for b in sweep_bad],
                                                                          "how_to_replay": "harness/impl_refusals.py (the trial with this label)"})
        ctx.violation("%d refusal trials violate C12, e.g. %s: %r %r" % (len(sweep_bad), what, inp, obs), rp)
    # generic refusal fuzzer: reflection over every settable attribute and every creating / appending / linking / writing
    # method of every kind of object x a pool of ill-typed, ill-shaped, out-of-range and wrong-kind arguments; a call that
    # raises must leave the complete HDF5 content as it was
    from concurrent.futures import ThreadPoolExecutor
    parts = 8
    nfz = None if ctx.tier == "thorough" else 640

    def fz(i):
        return ctx.run_impl_in("impl_refusalfuzz.py", {"seed": ctx.seed, "n": nfz, "part": i, "parts": parts}, "fz%d" % i, timeout=3000)
    with ThreadPoolExecutor(max_workers=parts) as ex:
        res = list(ex.map(fz, range(parts)))
    fz_bad = [v for r in res for v in r["violations"]]
    ctx.coverage["refusal_fuzz"] = {"enumerated": res[0]["enumerated"], "run": sum(r["run"] for r in res),
                                    "refused": sum(r["refused"] for r in res), "accepted": sum(r["accepted"] for r in res),
                                    "no_valid_template": sum(r["skipped"] for r in res), "failures": len(fz_bad)}
    ctx.coverage["evaluations"] += sum(r["refused"] for r in res)
    if fz_bad and not ctx.violations:
        fz_bad.sort(key=lambda v: len(v["call"]))
        rp = ctx.write_replay("%s-fuzz-seed%d.json" % (ID, ctx.seed), {
            "property": ID, "kind": "a refused call changed the file", "input": {"call": fz_bad[0]["call"]},
            "observed": {"exception": fz_bad[0]["exception"], "changed": fz_bad[0]["changed"]}, "count": len(fz_bad),
            "all": sorted(set(v["call"] for v in fz_bad))[:60],
            "how_to_replay": "harness/impl_refusalfuzz.py on the file built by impl_refusals.base(); the call is named in input.call"})
        ctx.violation("%d refused calls of the refusal fuzzer changed the file, e.g. %s (%s): %r" % (
            len(fz_bad), fz_bad[0]["call"], fz_bad[0]["exception"], fz_bad[0]["changed"][:3]), rp)
    # dimension calls: every refusal class, on linked and unlinked dimensions
    import dimlink
    cov = dimlink.stage(ctx, st, 1200 if ctx.tier == "thorough" else 150, 18 if ctx.tier == "thorough" else 14,
                        [dimlink.refusal_predicate])
    ctx.coverage.update(cov)
    ctx.coverage["evaluations"] += sum(cov["dimension_ops"].values())
    return st


def replay(ctx):
    d = ctx.replay
    r = ctx.run_impl("nixrun.py", {"replay": [d["input"]["history"]]})[0]
    i = len(r["ops"]) - 1
    bad = r["results"][i][0] == "err" and r["trace"][i][1] != r["trace"][i - 1][1]
    print("replay: last op %r -> %r; walk changed: %s" % (r["ops"][i], r["results"][i], bad))
    if bad:
        print("VIOLATION property=C12 replay=%s" % os.path.abspath(sys.argv[-1]))
        return 1
    return 0
