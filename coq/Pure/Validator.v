(* Pure/Validator.v -- nixio/validator.py on an abstract description of a file's content: what
   check_file reports for arrays (with their dimension descriptors), tags and multi-tags, and for
   every other entity (check_entity).  Unit classification is Pure/Units.v (regenerated tables).
   Errors are numbers:  1 NoName 2 NoType 3 NoDate 5 DimensionMismatch
     100+i ticks count  200+i labels count  300+i no ticks  400+i unsorted ticks
     500+i dimension unit not atomic SI  600+i no sampling interval  700+i negative interval
     20 NoPosition 21 PositionDimensionMismatch 22 ExtentDimensionMismatch 23 PositionExtentMismatch
     24 ReferenceUnitsMismatch 25 ReferenceUnitsIncompatible 26 InvalidUnit
     30 NoPositions 31 PositionsDimensionMismatch 32 ExtentsDimensionMismatch 33 PositionsExtentsMismatch
   An entity without id cannot be loaded at all (Entity.__init__), so "no ID set" is not modelled. *)
From Coq Require Import ZArith List Bool.
From NixV Require Import Base.Prelude Pure.Regex Pure.Units.
Import ListNotations.
Open Scope Z_scope.

Record ent := mkEnt { has_name : bool; has_type : bool; has_date : bool }.
Inductive dimd :=
| DSet (nlabels : nat)
| DSampled (interval : option Z) (unit : option str)      (* interval in 1/1000; None = attribute missing *)
| DRange (ticks : list Z) (unit : option str).             (* [] = no ticks stored *)
Record arr := mkArr { ar_ent : ent; ar_shape : list nat; ar_dims : list dimd }.
Record tag := mkTag { tg_ent : ent; tg_npos : nat; tg_next : nat; tg_units : list str; tg_refs : list nat }.
Record mtag := mkMTag { mt_ent : ent; mt_pos : option (list nat); mt_ext : option (list nat);
                        mt_units : list str; mt_refs : list nat }.
Record nfile := mkFile { f_arrays : list arr; f_tags : list tag; f_mtags : list mtag; f_others : list ent }.

Inductive verr :=
| ENoName | ENoType | ENoDate | EDimMismatch
| ETicksCount (i : Z) | ELabelsCount (i : Z) | ENoTicks (i : Z) | EUnsortedTicks (i : Z)
| EDimUnit (i : Z) | ENoInterval (i : Z) | ENegInterval (i : Z)
| ENoPosition | EPosDim | EExtDim | EPosExt | EUnitsCount | EUnitsIncompatible | EUnitNotSI
| ENoPositions | EPositionsDim | EExtentsDim | EPositionsExtents.
Definition code (e : verr) : Z :=
  match e with
  | ENoName => 1 | ENoType => 2 | ENoDate => 3 | EDimMismatch => 5
  | ETicksCount i => 100 + i | ELabelsCount i => 200 + i | ENoTicks i => 300 + i | EUnsortedTicks i => 400 + i
  | EDimUnit i => 500 + i | ENoInterval i => 600 + i | ENegInterval i => 700 + i
  | ENoPosition => 20 | EPosDim => 21 | EExtDim => 22 | EPosExt => 23
  | EUnitsCount => 24 | EUnitsIncompatible => 25 | EUnitNotSI => 26
  | ENoPositions => 30 | EPositionsDim => 31 | EExtentsDim => 32 | EPositionsExtents => 33
  end.

Definition check_entity (e : ent) : list verr :=
  (if has_type e then [] else [ENoType]) ++ (if has_name e then [] else [ENoName]) ++ (if has_date e then [] else [ENoDate]).

Definition truthy (u : option str) : option str :=
  match u with Some [] => None | x => x end.                  (* `if dim.unit` *)

Fixpoint strictly_sorted (l : list Z) : bool :=
  match l with
  | a :: ((b :: _) as r) => (a <? b) && strictly_sorted r
  | _ => true
  end.

Definition check_dim (idx : Z) (d : dimd) (datalen : nat) : list verr :=
  match d with
  | DRange ticks u =>
      (if negb (Nat.eqb (length ticks) datalen) then [ETicksCount idx] else []) ++
      (match ticks with
       | [] => [ENoTicks idx]
       | _ => if strictly_sorted ticks then [] else [EUnsortedTicks idx]
       end) ++
      (match truthy u with Some x => if is_atomic x then [] else [EDimUnit idx] | None => [] end)
  | DSampled iv u =>
      (match iv with
       | None => [ENoInterval idx]
       | Some z => if z =? 0 then [ENoInterval idx] else if z <? 0 then [ENegInterval idx] else []
       end) ++
      (match truthy u with Some x => if is_atomic x then [] else [EDimUnit idx] | None => [] end)
  | DSet nl =>
      if negb (Nat.eqb nl 0) && negb (Nat.eqb nl datalen) then [ELabelsCount idx] else []
  end.

Fixpoint check_dims (idx : Z) (ds : list dimd) (shape : list nat) : list verr :=
  match ds, shape with
  | d :: dr, n :: sr => check_dim idx d n ++ check_dims (idx + 1) dr sr
  | _, _ => []
  end.

Definition check_array (a : arr) : list verr :=
  check_entity (ar_ent a) ++
  (if Nat.eqb (length (ar_dims a)) (length (ar_shape a)) then [] else [EDimMismatch]) ++
  check_dims 1 (ar_dims a) (ar_shape a).

(* get_dim_units *)
Definition dim_unit (d : dimd) : str :=
  match d with
  | DSet _ => []
  | DSampled _ u | DRange _ u => match truthy u with Some x => x | None => [] end
  end.
Definition dim_units (a : arr) : list str := map dim_unit (ar_dims a).

Fixpoint units_match1 (tu ru : list str) : bool :=
  match tu, ru with
  | t :: tr, r :: rr =>
      (match t, r with [], [] => true | _, _ => scalable t r end) && units_match1 tr rr
  | _, _ => true
  end.
Definition units_match (tu : list str) (refs : list (list str)) : bool := forallb (units_match1 tu) refs.

Definition ref_arrays (f : nfile) (refs : list nat) : list arr :=
  flat_map (fun i => match nth_error (f_arrays f) i with Some a => [a] | None => [] end) refs.
Definition rank (a : arr) : nat := length (ar_shape a).

Definition check_units (units : list str) (refs : list arr) : list verr :=
  match refs with
  | [] => []
  | _ => (if existsb (fun a => negb (Nat.eqb (length (dim_units a)) (length units))) refs then [EUnitsCount] else []) ++
         (if units_match units (map dim_units refs) then [] else [EUnitsIncompatible])
  end.
Definition check_unit_si (units : list str) : list verr :=
  if existsb (fun u => match u with [] => false | _ => negb (is_si u) end) units then [EUnitNotSI] else [].

Definition check_tag (f : nfile) (t : tag) : list verr :=
  let refs := ref_arrays f (tg_refs t) in
  check_entity (tg_ent t) ++
  (if Nat.eqb (tg_npos t) 0 then [ENoPosition] else []) ++
  (match refs with
   | [] => []
   | _ => (if existsb (fun a => negb (Nat.eqb (tg_npos t) (rank a))) refs then [EPosDim] else []) ++
          (if Nat.eqb (tg_next t) 0 then []
           else (if Nat.eqb (tg_next t) (tg_npos t) then [] else [EPosExt]) ++
                (if existsb (fun a => negb (Nat.eqb (tg_next t) (rank a))) refs then [EExtDim] else []))
   end) ++
  check_units (tg_units t) refs ++ check_unit_si (tg_units t).

Definition second_dim (shape : list nat) : nat :=
  match shape with [_] => 1%nat | _ :: n :: _ => n | [] => 0%nat end.
Definition shape_eqb (a b : list nat) : bool := list_eqb Nat.eqb a b.
Definition nonempty_arr (shape : list nat) : bool := match shape with n :: _ => negb (Nat.eqb n 0) | [] => false end.

Definition check_mtag (f : nfile) (t : mtag) : list verr :=
  let refs := ref_arrays f (mt_refs t) in
  check_entity (mt_ent t) ++
  (match mt_pos t with Some sh => if nonempty_arr sh then [] else [ENoPositions] | None => [ENoPositions] end) ++
  (match refs with
   | [] => []
   | _ => (match mt_pos t with
           | Some sh => if existsb (fun a => negb (Nat.eqb (second_dim sh) (rank a))) refs then [EPositionsDim] else []
           | None => []
           end) ++
          (match mt_ext t with
           | Some esh =>
               if nonempty_arr esh then
                 (match mt_pos t with
                  | Some sh => if shape_eqb sh esh then [] else [EPositionsExtents]
                  | None => []
                  end) ++
                 (if existsb (fun a => negb (Nat.eqb (second_dim esh) (rank a))) refs then [EExtentsDim] else [])
               else []
           | None => []
           end)
   end) ++
  check_units (mt_units t) refs ++ check_unit_si (mt_units t).

(* what check_file reports: one list of errors per object, in the order arrays, tags, multi-tags,
   other entities (objects without errors do not appear in the implementation's dictionary:
   here they carry the empty list) *)
Definition check_file (f : nfile) : list (list verr) :=
  map check_array (f_arrays f) ++ map (check_tag f) (f_tags f) ++ map (check_mtag f) (f_mtags f)
  ++ map check_entity (f_others f).
