"""C12, call sites that are exercised rather than modelled: every public creating / mutating call with
every class of invalid argument it can receive, on a small fixed file; the complete HDF5 content
(objects, link names in order, attributes incl. timestamps, small datasets) is compared before and after;
for creating calls the rejected name must remain available to a valid call."""
import json
import os
import sys

import h5py
import numpy as np
import nixio


def snap(f):
    f.flush()
    out = {}

    def v(name, obj):
        rec = {"kind": type(obj).__name__, "attrs": sorted((k, repr(val)) for k, val in obj.attrs.items())}
        if isinstance(obj, h5py.Group):
            rec["links"] = list(obj.keys())
        else:
            try:
                rec["shape"] = list(obj.shape)
                rec["data"] = repr(obj[()].tolist())[:400] if obj.size <= 64 else obj.shape
            except Exception as exc:
                rec["data"] = "unreadable " + type(exc).__name__
        out[name] = rec
    f._h5file.visititems(v)
    out["/"] = {"links": list(f._h5file.keys())}
    return out


def base(f):
    b = f.create_block("b", "t")
    b2 = f.create_block("b2", "t")
    a = b.create_data_array("a", "t", data=np.arange(3.0))
    m = b.create_data_array("m", "t", data=np.zeros((2, 3)))
    foreign = b2.create_data_array("foreign", "t", data=np.arange(3.0))
    p = b.create_data_array("p", "t", data=np.zeros((2, 1)))
    t = b.create_tag("t", "t", [1.0])
    t.references.append(a)
    mt = b.create_multi_tag("mt", "t", p)
    s = f.create_section("s", "t")
    sub = s.create_section("sub", "t")
    pr = s.create_property("pr", [1, 2])
    g = b.create_group("g", "t")
    src = b.create_source("src", "t")
    d = a.append_range_dimension([1., 2., 3.])
    m.append_sampled_dimension(1.0)
    sd = m.dimensions[0]
    m.append_set_dimension(["x", "y", "z"])
    setd = m.dimensions[1]
    ft = t.create_feature(a, nixio.LinkType.Tagged)
    df = b.create_data_frame("df", "t", col_dict={"x": int, "y": float}, data=[(1, 2.0), (3, 4.0)])
    df5 = b.create_data_frame("df5", "t", col_dict={"x": float, "y": float}, data=[(float(i), 2.0 * i) for i in range(5)])   # more rows than columns
    host = b.create_data_array("host", "t", data=np.zeros((3, 3)))
    ld = host.append_range_dimension()
    ld.link_data_array(a, [-1])                       # a range dimension that is linked already
    ls = host.append_set_dimension()
    ls.link_data_array(a, [-1])
    fdf = b2.create_data_frame("fdf", "t", col_dict={"x": int}, data=[(1,)])           # a data frame of the OTHER block
    ba = b.create_data_array("ba", "t", data=np.array([True, False, True]))          # arrays of the other element kinds
    ia = b.create_data_array("ia", "t", data=np.array([1, 2, 3], dtype=np.int16))
    ua = b.create_data_array("ua", "t", data=np.array([[1, 2], [3, 4]], dtype=np.uint8))
    txtp = s.create_property("txt", ["x", "y", "z"])   # text-valued things (HDF5 text cannot hold a NUL)
    txta = b.create_data_array("txta", "t", dtype=nixio.DataType.String, data=["a", "b"])
    txtf = b.create_data_frame("txtf", "t", col_dict={"n": str, "v": int}, data=[("a", 1)])
    a.metadata = s                                    # existing metadata links (a refused re-assignment must keep them)
    t.metadata = sub
    return dict(df5=df5, host=host, ld=ld, ls=ls, txtp=txtp, txta=txta, txtf=txtf, ba=ba, ia=ia, ua=ua, fdf=fdf, f=f, b=b, b2=b2, a=a, m=m, foreign=foreign, p=p, t=t, mt=mt, s=s, sub=sub, pr=pr, g=g, src=src, d=d, sd=sd, setd=setd,
                ft=ft, df=df)


def cross_file_metadata(c, key):
    """assign a section of ANOTHER file as metadata (HDF5 refuses hard links between files)"""
    path = os.path.join(os.getcwd(), "other.nix")
    g = nixio.File.open(path, nixio.FileMode.Overwrite)
    try:
        c[key].metadata = g.create_section("o", "t")
    finally:
        g.close()
        os.remove(path)


def setter(key, attr, value):
    return lambda c: setattr(c[key] if not callable(key) else key(c), attr, value(c) if callable(value) else value)


TRIALS = [
    # (label, class of invalid argument, call, retry-with-valid-argument or None)
    ("MultiTag.positions = <Tag>", "wrong kind", setter("mt", "positions", lambda c: c["t"]), None),
    ("MultiTag.positions = 'x'", "wrong kind", setter("mt", "positions", "x"), None),
    ("MultiTag.positions = None", "wrong kind", setter("mt", "positions", None), None),
    ("MultiTag.extents = <Tag>", "wrong kind", setter("mt", "extents", lambda c: c["t"]), None),
    ("MultiTag.extents = <Section>", "wrong kind", setter("mt", "extents", lambda c: c["s"]), None),
    ("Tag.position = 'abc'", "inconsistent data type", setter("t", "position", "abc"), None),
    ("Tag.position = ['a']", "inconsistent data type", setter("t", "position", ["a"]), None),
    ("Tag.extent = ['a']", "inconsistent data type", setter("t", "extent", ["a"]), None),
    ("Tag.position = ['a', 'b'] (other length)", "inconsistent data type", setter("t", "position", ["a", "b"]), None),
    ("Tag.position = [[1], [2, 3]] (ragged)", "mismatching shape", setter("t", "position", [[1.0], [2.0, 3.0]]), None),
    ("Tag.extent = 'abc'", "inconsistent data type", setter("t", "extent", "abc"), None),
    ("Tag.units = [5]", "inconsistent data type", setter("t", "units", [5]), None),
    ("Tag.units = ['ms', 5]", "inconsistent data type", setter("t", "units", ["ms", 5]), None),
    ("MultiTag.units = [None]", "inconsistent data type", setter("mt", "units", [None]), None),
    ("Block.create_data_array(unit=5)", "inconsistent data type", lambda c: c["b"].create_data_array("n", "t", data=[1.0], unit=5),
     lambda c: c["b"].create_data_array("n", "t", data=[1.0])),
    ("Block.create_data_array(label=5)", "inconsistent data type", lambda c: c["b"].create_data_array("n", "t", data=[1.0], label=5),
     lambda c: c["b"].create_data_array("n", "t", data=[1.0])),
    ("Block.create_data_array(data=[object()])", "unsupported data type", lambda c: c["b"].create_data_array("n", "t", data=[object()]),
     lambda c: c["b"].create_data_array("n", "t", data=[1.0])),
    ("Block.create_data_array(dtype=int, data=['a'])", "inconsistent data type",
     lambda c: c["b"].create_data_array("n", "t", dtype=nixio.DataType.Int64, data=["a"]), lambda c: c["b"].create_data_array("n", "t", data=[1.0])),
    ("Block.create_data_array(shape=(2,), data of 3)", "mismatching shape",
     lambda c: c["b"].create_data_array("n", "t", shape=(2,), data=[1.0, 2.0, 3.0]), lambda c: c["b"].create_data_array("n", "t", data=[1.0])),
    ("Block.create_data_array(no data, no shape)", "inconsistent data type", lambda c: c["b"].create_data_array("n", "t"),
     lambda c: c["b"].create_data_array("n", "t", data=[1.0])),
    ("Block.create_tag(position='abc')", "inconsistent data type", lambda c: c["b"].create_tag("n", "t", "abc"),
     lambda c: c["b"].create_tag("n", "t", [1.0])),
    ("Block.create_tag(position=['a'])", "inconsistent data type", lambda c: c["b"].create_tag("n", "t", ["a"]),
     lambda c: c["b"].create_tag("n", "t", [1.0])),
    ("Block.create_multi_tag(positions=<Tag>)", "wrong kind", lambda c: c["b"].create_multi_tag("n", "t", c["t"]),
     lambda c: c["b"].create_multi_tag("n", "t", c["p"])),
    ("Block.create_multi_tag(positions=[['a']])", "inconsistent data type", lambda c: c["b"].create_multi_tag("n", "t", [["a"]]),
     lambda c: c["b"].create_multi_tag("n", "t", c["p"])),
    ("Block.create_multi_tag(positions of another block)", "wrong block", lambda c: c["b"].create_multi_tag("n", "t", c["foreign"]),
     lambda c: c["b"].create_multi_tag("n", "t", c["p"])),
    ("Block.create_multi_tag(extents of another block)", "wrong block", lambda c: c["b"].create_multi_tag("n", "t", c["p"], extents=c["foreign"]),
     lambda c: c["b"].create_multi_tag("n", "t", c["p"])),
    ("MultiTag.positions = array of another block", "wrong block", setter("mt", "positions", lambda c: c["foreign"]), None),
    ("MultiTag.extents = array of another block", "wrong block", setter("mt", "extents", lambda c: c["foreign"]), None),
    ("Block.create_multi_tag(extents=<Section>)", "wrong kind", lambda c: c["b"].create_multi_tag("n", "t", c["p"], extents=c["s"]),
     lambda c: c["b"].create_multi_tag("n", "t", c["p"])),
    ("DataArray.unit = 5", "inconsistent data type", setter("a", "unit", 5), None),
    ("DataArray.label = 5", "inconsistent data type", setter("a", "label", 5), None),
    ("DataArray.polynom_coefficients = 'x'", "inconsistent data type", setter("a", "polynom_coefficients", "x"), None),
    ("DataArray.expansion_origin = 'x'", "inconsistent data type", setter("a", "expansion_origin", "x"), None),
    ("DataArray.append(2-D block to 1-D)", "mismatching shape", lambda c: c["a"].append(np.zeros((2, 2))), None),
    ("DataArray.append(off-axis extent differs)", "mismatching shape", lambda c: c["m"].append(np.zeros((1, 4)), axis=0), None),
    ("DataArray.append(axis beyond the rank)", "out-of-range index", lambda c: c["a"].append(np.zeros(2), axis=3), None),
    ("DataArray[0:2] = 3 values", "mismatching shape", lambda c: c["a"].__setitem__(slice(0, 2), [1., 2., 3.]), None),
    ("DataArray[5] = value", "out-of-range index", lambda c: c["a"].__setitem__(5, 1.0), None),
    ("DataArray[:] = ['a','b','c']", "inconsistent data type", lambda c: c["a"].__setitem__(slice(None), ["a", "b", "c"]), None),
    ("DataArray.append_range_dimension([3, 1])", "unordered ticks", lambda c: c["a"].append_range_dimension([3., 1.]), None),
    ("DataArray.append_range_dimension(['a'])", "inconsistent data type", lambda c: c["a"].append_range_dimension(["a"]), None),
    ("DataArray.append_range_dimension(unit=5)", "inconsistent data type", lambda c: c["a"].append_range_dimension([1.], unit=5), None),
    ("DataArray.append_sampled_dimension('x')", "inconsistent data type", lambda c: c["a"].append_sampled_dimension("x"), None),
    ("DataArray.append_sampled_dimension(unit=5)", "inconsistent data type", lambda c: c["a"].append_sampled_dimension(1.0, unit=5), None),
    ("DataArray.append_sampled_dimension(offset='x')", "inconsistent data type", lambda c: c["a"].append_sampled_dimension(1.0, offset="x"), None),
    ("DataArray.append_set_dimension([1, 2])", "inconsistent data type", lambda c: c["a"].append_set_dimension([1, 2]), None),
    ("DataArray.append_set_dimension('abc')", "inconsistent data type", lambda c: c["a"].append_set_dimension("abc"), None),
    ("RangeDimension.ticks = [3, 1]", "unordered ticks", setter("d", "ticks", [3., 1.]), None),
    ("RangeDimension.unit = 5", "inconsistent data type", setter("d", "unit", 5), None),
    ("RangeDimension.label = 5", "inconsistent data type", setter("d", "label", 5), None),
    ("RangeDimension.link_data_array(index without -1)", "out-of-range index", lambda c: c["d"].link_data_array(c["m"], [0, 0]), None),
    ("RangeDimension.link_data_array(index of wrong length)", "mismatching shape", lambda c: c["d"].link_data_array(c["m"], [-1]), None),
    ("RangeDimension.link_data_frame(column 7)", "out-of-range index", lambda c: c["d"].link_data_frame(c["df"], 7), None),
    ("SampledDimension.sampling_interval = 'x'", "inconsistent data type", setter("sd", "sampling_interval", "x"), None),
    ("SampledDimension.offset = 'x'", "inconsistent data type", setter("sd", "offset", "x"), None),
    ("SampledDimension.unit = 5", "inconsistent data type", setter("sd", "unit", 5), None),
    ("SetDimension.labels = [1, 2]", "inconsistent data type", setter("setd", "labels", [1, 2]), None),
    ("SetDimension.labels = 'abc'", "inconsistent data type", setter("setd", "labels", "abc"), None),
    ("Section.link = <Block>", "wrong kind", setter("s", "link", lambda c: c["b"]), None),
    ("Group.metadata = <Block>", "wrong kind", setter("g", "metadata", lambda c: c["b"]), None),
    ("DataArray.metadata = 'x'", "wrong kind", setter("a", "metadata", "x"), None),
    ("Property.unit = 5", "inconsistent data type", setter("pr", "unit", 5), None),
    ("Property.uncertainty = 'x'", "inconsistent data type", setter("pr", "uncertainty", "x"), None),
    ("Property.values = [1, 'a']", "inconsistent data type", setter("pr", "values", [1, "a"]), None),
    ("Property.values = ['a']", "inconsistent data type", setter("pr", "values", ["a"]), None),
    ("Property.extend_values(['a'])", "inconsistent data type", lambda c: c["pr"].extend_values(["a"]), None),
    ("Section.create_property('n', [1, 'a'])", "inconsistent data type", lambda c: c["s"].create_property("n", [1, "a"]),
     lambda c: c["s"].create_property("n", [1])),
    ("Section.create_property('n', [3, True])", "inconsistent data type", lambda c: c["s"].create_property("n", [3, True]),
     lambda c: c["s"].create_property("n", [1])),
    ("Section.create_property('n', [True, 3])", "inconsistent data type", lambda c: c["s"].create_property("n", [True, 3]),
     lambda c: c["s"].create_property("n", [1])),
    ("Section.create_property('n', [1, 2.5])", "inconsistent data type", lambda c: c["s"].create_property("n", [1, 2.5]),
     lambda c: c["s"].create_property("n", [1])),
    ("Section.create_property('n', ['a', 1])", "inconsistent data type", lambda c: c["s"].create_property("n", ["a", 1]),
     lambda c: c["s"].create_property("n", [1])),
    ("Section['n'] = [3, True] (new key)", "inconsistent data type", lambda c: c["s"].__setitem__("n", [3, True]),
     lambda c: c["s"].create_property("n", [1])),
    ("Section.create_property('n', object())", "unsupported data type", lambda c: c["s"].create_property("n", object()),
     lambda c: c["s"].create_property("n", [1])),
    ("Section.create_property('n', [])", "inconsistent data type", lambda c: c["s"].create_property("n", []),
     lambda c: c["s"].create_property("n", [1])),
    ("Tag.create_feature(a, 'bogus')", "inconsistent data type", lambda c: c["t"].create_feature(c["a"], "bogus"), None),
    ("Tag.create_feature(<Section>, tagged)", "wrong kind", lambda c: c["t"].create_feature(c["s"], nixio.LinkType.Tagged), None),
    ("Tag.create_feature(array of another block)", "wrong block", lambda c: c["t"].create_feature(c["foreign"], nixio.LinkType.Tagged), None),
    ("Feature.data = <Section>", "wrong kind", setter("ft", "data", lambda c: c["s"]), None),
    ("Feature.link_type = 'bogus'", "inconsistent data type", setter("ft", "link_type", "bogus"), None),
    ("Feature.data = <DataFrame> on a tagged feature", "wrong kind", setter("ft", "data", lambda c: c["df"]), None),
    ("Feature.data = <DataFrame of another block>", "wrong block",
     setter("ft", "data", lambda c: c["fdf"]), None),
    ("Tag.references.append(<Tag>)", "wrong kind", lambda c: c["t"].references.append(c["t"]), None),
    ("Tag.references.append(array of another block)", "wrong block", lambda c: c["t"].references.append(c["foreign"]), None),
    ("Group.data_arrays.append(<Section>)", "wrong kind", lambda c: c["g"].data_arrays.append(c["s"]), None),
    ("DataArray.sources.append(<DataArray>)", "wrong kind", lambda c: c["a"].sources.append(c["m"]), None),
    ("del Block.data_arrays['nope']", "unknown key", lambda c: c["b"].data_arrays.__delitem__("nope"), None),
    ("del Block.data_arrays[9]", "out-of-range index", lambda c: c["b"].data_arrays.__delitem__(9), None),
    ("del Tag.references[5]", "out-of-range index", lambda c: c["t"].references.__delitem__(5), None),
    ("Block.create_data_frame(col_names only)", "inconsistent data type", lambda c: c["b"].create_data_frame("n", "t", col_names=["a"]),
     lambda c: c["b"].create_data_frame("n", "t", col_dict={"a": int})),
    ("Block.create_data_frame(duplicate column names)", "duplicate name",
     lambda c: c["b"].create_data_frame("n", "t", col_names=["a", "a"], col_dtypes=[int, int]), lambda c: c["b"].create_data_frame("n", "t", col_dict={"a": int})),
    ("Block.create_data_frame(data of another schema)", "mismatching shape",
     lambda c: c["b"].create_data_frame("n", "t", col_dict={"a": int}, data=[(1, 2, 3)]), lambda c: c["b"].create_data_frame("n", "t", col_dict={"a": int})),
    ("Block.create_data_frame(value out of the column's range)", "value out of range",
     lambda c: c["b"].create_data_frame("n", "t", col_dict={"a": np.uint8}, data=[(300,)]), lambda c: c["b"].create_data_frame("n", "t", col_dict={"a": int})),
    ("Block.create_data_frame(integer beyond int64)", "value out of range",
     lambda c: c["b"].create_data_frame("n", "t", col_dict={"a": int}, data=[(2 ** 70,)]), lambda c: c["b"].create_data_frame("n", "t", col_dict={"a": int})),
    ("Block.create_data_frame(col_dict, data=[])", "out-of-range index",
     lambda c: c["b"].create_data_frame("n", "t", col_dict={"a": int}, data=[]), lambda c: c["b"].create_data_frame("n", "t", col_dict={"a": int})),
    ("Block.create_data_frame(data as a dict of columns)", "unknown key",
     lambda c: c["b"].create_data_frame("n", "t", col_dict={"a": int}, data={"a": [1, 2]}), lambda c: c["b"].create_data_frame("n", "t", col_dict={"a": int})),
    ("DataFrame.append_rows(integer beyond int64)", "value out of range", lambda c: c["df"].append_rows([(2 ** 70, 1.0)]), None),
    ("DataFrame.write_cell(integer beyond int64)", "value out of range", lambda c: c["df"].write_cell(2 ** 70, position=(0, 0)), None),
    ("DataFrame.write_rows(integer beyond int64)", "value out of range", lambda c: c["df"].write_rows([(2 ** 70, 1.0)], [0]), None),
    ("DataFrame.write_column(integer beyond int64)", "value out of range", lambda c: c["df"].write_column([2 ** 70, 1], name="x"), None),
    ("DataFrame.append_column(integer beyond int64)", "value out of range", lambda c: c["df"].append_column([2 ** 70, 1], "z", datatype=int), None),
    ("Section.create_property(integer beyond int64)", "value out of range", lambda c: c["s"].create_property("big", [2 ** 70]),
     lambda c: c["s"].create_property("big", [1])),
    ("Property.values = [integer beyond int64]", "value out of range", lambda c: setattr(c["s"].props["pr"], "values", [2 ** 70]), None),
    ("RangeDimension.link_data_frame(column index beyond the columns, within the rows)", "out-of-range index",
     lambda c: c["d"].link_data_frame(c["df5"], 3), None),
    ("RangeDimension.link_data_frame(column 9)", "out-of-range index", lambda c: c["d"].link_data_frame(c["df5"], 9), None),
    ("RangeDimension.link_data_frame(column -1)", "out-of-range index", lambda c: c["d"].link_data_frame(c["df5"], -1), None),
    ("RangeDimension.link_data_frame(column 0.5)", "inconsistent data type", lambda c: c["d"].link_data_frame(c["df5"], 0.5), None),
    ("RangeDimension.link_data_frame(column '1')", "inconsistent data type", lambda c: c["d"].link_data_frame(c["df5"], "1"), None),
    ("SetDimension.link_data_frame(column beyond the columns)", "out-of-range index", lambda c: c["setd"].link_data_frame(c["df5"], 3), None),
    ("SetDimension.link_data_frame(column 0.5)", "inconsistent data type", lambda c: c["setd"].link_data_frame(c["df5"], 0.5), None),
    ("linked RangeDimension.link_data_frame(column beyond the columns)", "out-of-range index", lambda c: c["ld"].link_data_frame(c["df5"], 3), None),
    ("linked RangeDimension.link_data_frame(column 0.5)", "inconsistent data type", lambda c: c["ld"].link_data_frame(c["df5"], 0.5), None),
    ("linked RangeDimension.link_data_array(index of another rank)", "mismatching shape", lambda c: c["ld"].link_data_array(c["m"], [-1]), None),
    ("linked RangeDimension.link_data_array(index without -1)", "out-of-range index", lambda c: c["ld"].link_data_array(c["m"], [0, 1]), None),
    ("linked SetDimension.link_data_array(index of another rank)", "mismatching shape", lambda c: c["ls"].link_data_array(c["m"], [-1]), None),
    ("linked SetDimension.link_data_frame(column beyond the columns)", "out-of-range index", lambda c: c["ls"].link_data_frame(c["df5"], 3), None),
    ("linked RangeDimension.ticks = [3, 1]", "unordered ticks", setter("ld", "ticks", [3.0, 1.0]), None),
    ("linked RangeDimension.ticks = ['a']", "inconsistent data type", setter("ld", "ticks", ["a"]), None),
    ("DataArray.polynom_coefficients = ['a', 'b']", "inconsistent data type", setter("a", "polynom_coefficients", ["a", "b"]), None),
    ("DataArray.expansion_origin = 'x'", "inconsistent data type", setter("a", "expansion_origin", "x"), None),
    ("DataArray.append(text)", "inconsistent data type", lambda c: c["a"].append(np.array(["x", "y"])), None),
    ("DataArray.append([object()])", "unsupported data type", lambda c: c["a"].append([object()]), None),
    ("DataArray.append(text) on a bool array", "inconsistent data type", lambda c: c["ba"].append(np.array(["yes", "no"])), None),
    ("DataArray.append([None, True]) on a bool array", "unsupported data type", lambda c: c["ba"].append([None, True]), None),
    ("DataArray.append(text) on an int16 array", "inconsistent data type", lambda c: c["ia"].append(np.array(["x"])), None),
    ("DataArray.append([object()]) on a uint8 matrix", "unsupported data type", lambda c: c["ua"].append([[object(), 1]], axis=0), None),
    ("DataArray.append(other rank)", "mismatching shape", lambda c: c["a"].append(np.zeros((2, 2))), None),
    ("DataArray.append(mismatching extent)", "mismatching shape", lambda c: c["m"].append(np.zeros((1, 5)), axis=0), None),
    ("Block.create_tag(name = id of an existing tag, position='abc')", "inconsistent data type",
     lambda c: c["b"].create_tag(c["t"].id, "t", "abc"), None),
    ("Block.create_data_array(name = id of an existing array, data=[object()])", "unsupported data type",
     lambda c: c["b"].create_data_array(c["a"].id, "t", data=[object()]), None),
    ("Block.create_multi_tag(name = id of an existing multi-tag, positions=<Tag>)", "wrong kind",
     lambda c: c["b"].create_multi_tag(c["mt"].id, "t", c["t"]), None),
    ("Block.create_data_frame(name = id of an existing frame, value out of range)", "value out of range",
     lambda c: c["b"].create_data_frame(c["df"].id, "t", col_dict={"a": np.uint8}, data=[(300,)]), None),
    ("Section.create_property(name = id of an existing property, integer beyond int64)", "value out of range",
     lambda c: c["s"].create_property(c["pr"].id, [2 ** 70]), None),
    ("DataArray.metadata = <section of another file>", "wrong block", lambda c: cross_file_metadata(c, "a"), None),
    ("Block.metadata = <section of another file>", "wrong block", lambda c: cross_file_metadata(c, "b"), None),
    ("Tag.metadata = <section of another file>", "wrong block", lambda c: cross_file_metadata(c, "t"), None),
    ("Property.values = [text with a NUL]", "unsupported data type", setter("txtp", "values", ["a\x00b"]), None),
    ("Property.extend_values([text with a NUL])", "unsupported data type", lambda c: c["txtp"].extend_values(["a\x00b"]), None),
    ("DataArray.append([text with a NUL]) on a text array", "unsupported data type", lambda c: c["txta"].append(["a\x00b"]), None),
    ("DataFrame.append_rows(text with a NUL)", "unsupported data type", lambda c: c["txtf"].append_rows([("a\x00b", 2)]), None),
    ("DataFrame.write_rows(valid row, then a row with text in the int column)", "inconsistent data type",
     lambda c: c["df"].write_rows([(9, 9.0), ("x", 1.0)], [0, 1]), None),
    ("DataFrame.write_rows(valid row, then an integer beyond int64)", "value out of range",
     lambda c: c["df"].write_rows([(9, 9.0), (2 ** 70, 1.0)], [0, 1]), None),
    ("DataFrame.write_rows(valid row, then a row of 3 values)", "mismatching shape",
     lambda c: c["df"].write_rows([(9, 9.0), (1, 2.0, 3)], [0, 1]), None),
    ("DataFrame.write_rows(valid index, then row 7)", "out-of-range index", lambda c: c["df"].write_rows([(9, 9.0), (8, 8.0)], [0, 7]), None),
    ("DataFrame.write_column(valid cell, then text in the int column)", "inconsistent data type",
     lambda c: c["df"].write_column([9, "x"], name="x"), None),
    ("DataFrame.write_column(valid cell, then an integer beyond int64)", "value out of range",
     lambda c: c["df"].write_column([9, 2 ** 70], name="x"), None),
    ("DataFrame.append_rows(valid row, then a row with text in the int column)", "inconsistent data type",
     lambda c: c["df"].append_rows([(9, 9.0), ("x", 1.0)]), None),
    ("DataFrame.append_column(valid cell, then text, as int)", "inconsistent data type",
     lambda c: c["df"].append_column([9, "x"], "z", datatype=int), None),
    ("Group.data_arrays.extend([own array, array of another block])", "wrong block", lambda c: c["g"].data_arrays.extend([c["a"], c["foreign"]]), None),
    ("Group.data_arrays.extend([own array, <Section>])", "wrong kind", lambda c: c["g"].data_arrays.extend([c["a"], c["s"]]), None),
    ("Group.data_frames.extend([own frame, frame of another block])", "wrong block", lambda c: c["g"].data_frames.extend([c["df"], c["fdf"]]), None),
    ("Tag.references.extend([own array, array of another block])", "wrong block", lambda c: c["t"].references.extend([c["a"], c["foreign"]]), None),
    ("MultiTag.references.extend([own array, 5])", "wrong kind", lambda c: c["mt"].references.extend([c["a"], 5]), None),
    ("DataArray.sources.extend([own source, <Section>])", "wrong kind", lambda c: c["a"].sources.extend([c["src"], c["s"]]), None),
    ("DataFrame.append_rows(row of 3 values)", "mismatching shape", lambda c: c["df"].append_rows([(1, 2.0, 3)]), None),
    ("DataFrame.append_column(wrong length)", "mismatching shape", lambda c: c["df"].append_column([1], "z", datatype=int), None),
    ("DataFrame.write_cell(row 9)", "out-of-range index", lambda c: c["df"].write_cell(1, position=(9, 0)), None),
    ("File.create_block('b', 't') (duplicate)", "duplicate name", lambda c: c["f"].create_block("b", "t"), None),
    ("File.create_block('x/y', 't')", "invalid name", lambda c: c["f"].create_block("x/y", "t"), lambda c: c["f"].create_block("xy", "t")),
    ("File.create_block('n', '')", "empty type", lambda c: c["f"].create_block("n", ""), lambda c: c["f"].create_block("n", "t")),
    ("Block.create_group('g', 't') (duplicate)", "duplicate name", lambda c: c["b"].create_group("g", "t"), None),
    ("Block.create_source('', 't')", "invalid name", lambda c: c["b"].create_source("", "t"), None),
    ("Section.create_section('sub', 't') (duplicate)", "duplicate name", lambda c: c["s"].create_section("sub", "t"), None),
    ("Section.create_property('pr', [1]) (duplicate)", "duplicate name", lambda c: c["s"].create_property("pr", [1]), None),
]


def diff(a, b):
    out = []
    for k in sorted(set(a) | set(b)):
        if k not in a:
            out.append("+" + k)
        elif k not in b:
            out.append("-" + k)
        elif a[k] != b[k]:
            fields = [x for x in set(a[k]) | set(b[k]) if a[k].get(x) != b[k].get(x)]
            out.append("~%s (%s)" % (k, ",".join(sorted(fields))))
    return out


def main():
    req = json.load(sys.stdin)
    real_stdout = sys.stdout
    sys.stdout = sys.stderr                 # the library prints messages on some refusals
    wd = os.getcwd()
    path = os.path.join(wd, "rf.nix")
    out = []
    for label, cls, bad, retry in TRIALS:
        for auto in (True, False):
            f = nixio.File.open(path, nixio.FileMode.Overwrite, auto_update_timestamps=auto)
            rec = {"label": label, "class": cls, "auto_timestamps": auto}
            try:
                c = base(f)
            except Exception as exc:
                rec["build_error"] = type(exc).__name__ + ": " + str(exc)[:100]
                out.append(rec)
                f.close()
                continue
            before = snap(f)
            sess_before = (f.auto_update_timestamps, f.mode)       # the session's own switches are state, too
            nixio.util.util.now_int = lambda: 2000000000          # a refused call must not touch timestamps either
            try:
                bad(c)
                rec["outcome"] = "accepted"
            except Exception as exc:
                rec["outcome"] = "refused"
                rec["exception"] = type(exc).__name__
            after = snap(f)
            rec["changed"] = diff(before, after)
            try:
                if rec["outcome"] == "refused" and (f.auto_update_timestamps, f.mode) != sess_before:
                    rec["changed"] = list(rec["changed"]) + ["~session switches (auto_update_timestamps, mode): %r -> %r"
                                                             % (sess_before, (f.auto_update_timestamps, f.mode))]
            except Exception as exc:
                rec["changed"] = list(rec["changed"]) + ["~session switches unreadable: " + type(exc).__name__]
            if retry is not None and rec["outcome"] == "refused":
                try:
                    retry(c)
                    rec["retry"] = "ok"
                except Exception as exc:
                    rec["retry"] = type(exc).__name__ + ": " + str(exc)[:80]
            out.append(rec)
            f.close()
            import importlib, time
            nixio.util.util.now_int = lambda: int(time.time())
    os.remove(path)
    json.dump(out, real_stdout)


if __name__ == "__main__":
    main()
