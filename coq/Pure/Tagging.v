(* Pure/Tagging.v -- the data a tag / multi-tag position selects in a referenced array
   (nixio/tag.py: _calc_data_slices, _scale_position, tagged_data, feature_data;
    nixio/multi_tag.py: _calc_data_slices_mtag, tagged_data, feature_data;
    nixio/data_view.py: DataView.__init__).  Per-dimension index arithmetic is Pure/Dims.v,
   unit scaling is Pure/Units.v.  Coordinates are exact rationals. *)
From Coq Require Import ZArith List Bool QArith.
From NixV Require Import Base.Prelude Pure.Regex Pure.Units Pure.Dims.
Import ListNotations.

Inductive ddesc :=
| DdSampled (off itv : Q) (unit : option str)
| DdRange (ticks : list Q) (unit : option str)
| DdSet (nlabels : nat).
Inductive terr := EIncompatible | EIndexError | EOutOfBounds.

Definition pow10 (e : Z) : Q :=
  if (0 <=? e)%Z then inject_Z (10 ^ e) else 1 / inject_Z (10 ^ (- e)).
Definition s_none : str := [110; 111; 110; 101]%N.

(* Tag._scale_position: the factor that converts a position in the tag's unit to the dimension's *)
Definition scale_for (unit : option str) (d : ddesc) : Q + terr :=
  match d with
  | DdSet _ =>
      match unit with
      | Some u => if nonempty u && negb (streq u s_none) then inr EIncompatible else inl 1
      | None => inl 1
      end
  | DdSampled _ _ du | DdRange _ du =>
      match du, unit with
      | None, Some _ => inr EIncompatible
      | Some dunit, Some u => match scaling u dunit with SOk e => inl (pow10 e) | _ => inr EIncompatible end
      | _, None => inl 1
      end
  end.

Definition dim_range (d : ddesc) (p q : Q) (m : smode) : rres :=
  match d with
  | DdSampled off itv _ => rres_of (sampled_range_indices off itv p q m)
  | DdRange ticks _ => range_range_indices ticks p q m
  | DdSet n => set_range_indices n p q m
  end.

(* one axis.  pos = None: the tag's position is shorter than the rank, the axis is taken whole.
   Result: None = no sample in the region; Some (a, b) = the slice a:b *)
Definition axis_region (p : Q) (e : option Q) (s : Q) (rule : smode) : Q * Q * smode :=
  let start := p * s in
  match e with
  | Some x => (start, x * s + start, if Qltb 0 x then rule else Inclusive)
  | None => (start, start, Inclusive)
  end.
Definition axis_slice (d : ddesc) (n : Z) (pos : option Q) (e : option Q) (unit : option str) (rule : smode)
  : option (Z * Z) + terr :=
  match pos with
  | None => inl (Some (0, n)%Z)
  | Some p =>
      match scale_for unit d with
      | inr x => inr x
      | inl s =>
          let '(start, stop, mode) := axis_region p e s rule in
          match dim_range d start stop mode with
          | RSome a b => inl (Some (a, b + 1)%Z)
          | RNone => inl None
          | RRaise => inr EIndexError
          end
      end
  end.

(* the per-axis inputs, as _calc_data_slices picks them: units = None when the tag has no units;
   units[idx] beyond the list raises IndexError *)
Definition unit_at (units : option (list str)) (idx : nat) : option str + terr :=
  match units with
  | None => inl None
  | Some us => match nth_error us idx with Some u => inl (Some u) | None => inr EIndexError end
  end.
Definition axis_at (d : ddesc) (n : Z) (idx : nat) (pos ext : list Q) (units : option (list str)) (rule : smode)
  : option (Z * Z) + terr :=
  match nth_error pos idx with
  | None => inl (Some (0, n)%Z)
  | Some p => match unit_at units idx with
              | inr x => inr x
              | inl u => axis_slice d n (Some p) (nth_error ext idx) u rule
              end
  end.
Fixpoint calc_slices (dims : list ddesc) (shape : list Z) (idx : nat) (pos ext : list Q)
                     (units : option (list str)) (rule : smode) : list (option (Z * Z)) + terr :=
  match dims, shape with
  | d :: dr, n :: sr =>
      let r := axis_at d n idx pos ext units rule in
      match r with
      | inr x => inr x
      | inl s => match calc_slices dr sr (S idx) pos ext units rule with
                 | inl rest => inl (s :: rest)
                 | inr x => inr x
                 end
      end
  | _, _ => inl []
  end.

Inductive tres := TData (slices : list (Z * Z)) | TInvalid | TErr (e : terr).

Fixpoint all_some (l : list (option (Z * Z))) : option (list (Z * Z)) :=
  match l with
  | [] => Some []
  | Some x :: r => option_map (cons x) (all_some r)
  | None :: _ => None
  end.
Definition in_data (sl : list (Z * Z)) (shape : list Z) : bool :=
  forallb (fun p => (snd (fst p) <=? snd p)%Z) (combine sl shape).

(* Tag.tagged_data(ref, stop_rule) *)
Definition tag_tagged_data (dims : list ddesc) (shape : list Z) (pos ext : list Q) (units : option (list str))
                           (rule : smode) : tres :=
  if negb (Nat.eqb (length ext) 0) && negb (Nat.eqb (length pos) (length ext)) then TErr EIncompatible
  else match calc_slices dims shape 0 pos ext units rule with
       | inr e => TErr e
       | inl sl => match all_some sl with
                   | None => TInvalid
                   | Some s => if in_data s shape
                               then (if Nat.eqb (length s) (length shape) then TData s else TInvalid)
                               else TErr EOutOfBounds
                   end
       end.
(* MultiTag.tagged_data(i, ref, stop_rule): position/extent = row i; an out-of-range slice gives an
   invalid view (DataView.__init__), not an error *)
(* _calc_data_slices_mtag: positions and extents arrays of different shapes are refused *)
Definition mtag_shapes_differ (pos ext : list Q) : bool :=
  negb (Nat.eqb (length ext) 0) && negb (Nat.eqb (length pos) (length ext)).
Definition mtag_tagged_data (dims : list ddesc) (shape : list Z) (pos ext : list Q) (units : option (list str))
                            (rule : smode) : tres :=
  if mtag_shapes_differ pos ext then TErr EIncompatible else
  match calc_slices dims shape 0 pos ext units rule with
  | inr e => TErr e
  | inl sl => match all_some sl with
              | None => TInvalid
              | Some s => if in_data s shape && Nat.eqb (length s) (length shape) then TData s else TInvalid
              end
  end.

(* feature_data: tagged = the same region of the feature array (a missing sample is an error there),
   indexed = entry i of the first axis, untagged = everything *)
Inductive ltype := LTagged | LIndexed | LUntagged.
Definition whole (shape : list Z) : list (Z * Z) := map (fun n => (0, n)%Z) shape.
Definition feature_data (is_mtag : bool) (lt : ltype) (posidx : Z) (dims : list ddesc) (shape : list Z)
                        (pos ext : list Q) (units : option (list str)) (rule : smode) : tres :=
  match lt with
  | LTagged =>
      if is_mtag && mtag_shapes_differ pos ext then TErr EIncompatible else
      match calc_slices dims shape 0 pos ext units rule with
      | inr e => TErr e
      | inl sl => match all_some sl with
                  | None => TErr EOutOfBounds
                  | Some s => if in_data s shape
                              then (if Nat.eqb (length s) (length shape) then TData s else TInvalid)
                              else TErr EOutOfBounds
                  end
      end
  | LIndexed =>
      if is_mtag then
        match shape with
        | n :: sr => if (n <? posidx)%Z then TErr EOutOfBounds
                     else if (posidx + 1 <=? n)%Z then TData ((posidx, posidx + 1)%Z :: whole sr) else TErr EOutOfBounds
        | [] => TData []
        end
      else TData (whole shape)
  | LUntagged => TData (whole shape)
  end.
