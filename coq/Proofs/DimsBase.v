(* Proofs/DimsBase.v -- reflection lemmas, rounding facts and the generic order-based
   specification used by the C07 theorems. *)
From Coq Require Import QArith Qround Qabs ZArith List Bool Lia Lqa.
From NixV Require Import Base.Prelude Pure.Dims.
Import ListNotations.
Open Scope Q_scope.

(* ------------------------------------------------------------------ boolean reflection *)
Lemma Qleb_true a b : Qleb a b = true <-> a <= b.
Proof. unfold Qleb. apply Qle_bool_iff. Qed.
Lemma Qleb_false a b : Qleb a b = false <-> b < a.
Proof.
  unfold Qleb. split; intro H.
  - apply Qnot_le_lt. intro L. apply Qle_bool_iff in L. congruence.
  - destruct (Qle_bool a b) eqn:E; [|reflexivity]. apply Qle_bool_iff in E. lra.
Qed.
Lemma Qltb_true a b : Qltb a b = true <-> a < b.
Proof.
  unfold Qltb. rewrite negb_true_iff. fold (Qleb b a). apply Qleb_false.
Qed.
Lemma Qltb_false a b : Qltb a b = false <-> b <= a.
Proof.
  unfold Qltb. rewrite negb_false_iff. fold (Qleb b a). apply Qleb_true.
Qed.
Lemma Qeqb_true a b : Qeqb a b = true <-> a == b.
Proof. unfold Qeqb. apply Qeq_bool_iff. Qed.
Lemma Qeqb_false a b : Qeqb a b = false <-> ~ a == b.
Proof.
  unfold Qeqb. split; intro H.
  - intro E. apply Qeq_bool_iff in E. congruence.
  - destruct (Qeq_bool a b) eqn:E; [|reflexivity]. apply Qeq_bool_iff in E. contradiction.
Qed.

(* ------------------------------------------------------------------- integers inside Q *)
Lemma inj_lt_succ a b : inject_Z a < inject_Z b + 1 -> (a <= b)%Z.
Proof.
  intros H. change 1 with (inject_Z 1) in H. rewrite <- inject_Z_plus in H.
  rewrite <- Zlt_Qlt in H. lia.
Qed.
Lemma inj_le a b : (a <= b)%Z <-> inject_Z a <= inject_Z b.
Proof. rewrite Zle_Qle. reflexivity. Qed.
Lemma inj_lt a b : (a < b)%Z <-> inject_Z a < inject_Z b.
Proof. rewrite Zlt_Qlt. reflexivity. Qed.
Lemma inj_sub1 a : inject_Z (a - 1) == inject_Z a - 1.
Proof. unfold Z.sub. rewrite inject_Z_plus, inject_Z_opp. reflexivity. Qed.
Lemma inj_add1 a : inject_Z (a + 1) == inject_Z a + 1.
Proof. rewrite inject_Z_plus. reflexivity. Qed.
Lemma inj_lt_le_succ a b : inject_Z a < inject_Z b -> inject_Z a + 1 <= inject_Z b.
Proof.
  intros H. apply (proj2 (inj_lt _ _)) in H. rewrite <- inj_add1. apply (proj1 (inj_le _ _)). lia.
Qed.

(* --------------------------------------------------------------------------- rounding *)
Lemma floor_bounds x : inject_Z (Qfloor x) <= x /\ x < inject_Z (Qfloor x) + 1.
Proof.
  split; [apply Qfloor_le|]. pose proof (Qlt_floor x) as H. rewrite inj_add1 in H. exact H.
Qed.

Lemma qround_bounds x : inject_Z (qround x) - (1#2) <= x /\ x <= inject_Z (qround x) + (1#2).
Proof.
  unfold qround. destruct (floor_bounds x) as [H1 H2].
  destruct (Qltb (x - inject_Z (Qfloor x)) (1#2)) eqn:Ea.
  - apply Qltb_true in Ea. split; lra.
  - apply Qltb_false in Ea.
    destruct (Qltb (1#2) (x - inject_Z (Qfloor x))) eqn:Eb.
    + rewrite inj_add1. split; lra.
    + apply Qltb_false in Eb.
      destruct (Z.even (Qfloor x)); [|rewrite inj_add1]; split; lra.
Qed.

Lemma Qfloor_int x i : x == inject_Z i -> Qfloor x = i.
Proof. intros E. rewrite E. apply Qfloor_Z. Qed.

Lemma qround_int x i : x == inject_Z i -> qround x = i.
Proof.
  intros E. unfold qround. rewrite (Qfloor_int x i E).
  assert (D : Qltb (x - inject_Z i) (1#2) = true) by (apply Qltb_true; lra).
  rewrite D. reflexivity.
Qed.

(* isclose: |a-b| <= atol + rtol*|b| *)
Lemma isclose_false_ne a b : isclose a b = false -> ~ a == b.
Proof.
  unfold isclose. intros H E. apply Qleb_false in H.
  assert (Z0 : Qabs (a - b) == 0).
  { setoid_replace (a - b) with 0 by lra. reflexivity. }
  rewrite Z0 in H. pose proof (Qabs_nonneg b). unfold atol, rtol in H. lra.
Qed.

Lemma isclose_zero_small x : isclose x 0 = true -> Qabs x <= atol.
Proof.
  unfold isclose. intros H. apply Qleb_true in H.
  setoid_replace (x - 0) with x in H by ring.
  change (Qabs 0) with 0 in H. lra.
Qed.

Lemma qround_small x : Qabs x <= atol -> qround x = 0%Z.
Proof.
  intros H. destruct (qround_bounds x) as [B1 B2].
  apply Qabs_Qle_condition in H. destruct H as [H1 H2]. unfold atol in *.
  assert (A : (qround x <= 0)%Z).
  { apply inj_lt_succ. change (inject_Z 0) with 0. lra. }
  assert (B : (0 <= qround x)%Z).
  { apply inj_lt_succ. change (inject_Z 0) with 0. lra. }
  lia.
Qed.

(* --------------------------------------------------- the order-based specification *)
Section Order.
  Variable c : Z -> Q.          (* coordinate of sample i *)
  Variable dom : Z -> Prop.     (* the samples that exist *)

  Definition last_le (p : Q) (i : Z) : Prop :=
    dom i /\ c i <= p /\ forall j, dom j -> c j <= p -> (j <= i)%Z.
  Definition last_lt (p : Q) (i : Z) : Prop :=
    dom i /\ c i < p /\ forall j, dom j -> c j < p -> (j <= i)%Z.
  Definition first_ge (p : Q) (i : Z) : Prop :=
    dom i /\ p <= c i /\ forall j, dom j -> p <= c j -> (i <= j)%Z.

  (* what index_of must return: Some i = THE sample the mode asks for, None (IndexError) =
     there is no such sample *)
  Definition spec_index (p : Q) (m : imode) (r : option Z) : Prop :=
    match m, r with
    | Leq, Some i => last_le p i
    | Leq, None => forall j, dom j -> ~ c j <= p
    | Less, Some i => last_lt p i
    | Less, None => forall j, dom j -> ~ c j < p
    | Geq, Some i => first_ge p i
    | Geq, None => forall j, dom j -> ~ p <= c j
    end.

  Definition in_itv (m : smode) (p q x : Q) : Prop :=
    p <= x /\ match m with Inclusive => x <= q | Exclusive => x < q end.

  (* what range_indices must return: Some (a,b) = the samples in the interval are exactly
     a..b (and there is one); None = there is none *)
  Definition spec_range (p q : Q) (m : smode) (r : option (Z * Z)) : Prop :=
    match r with
    | Some (a, b) => (a <= b)%Z /\ dom a /\ dom b /\
                     forall j, dom j -> (in_itv m p q (c j) <-> (a <= j <= b)%Z)
    | None => forall j, dom j -> ~ in_itv m p q (c j)
    end.

  Hypothesis mono : forall i j, dom i -> dom j -> (i <= j)%Z -> c i <= c j.

  (* the answers are unique *)
  Lemma last_le_unique p i i' : last_le p i -> last_le p i' -> i = i'.
  Proof. intros [D [L M]] [D' [L' M']]. pose proof (M _ D' L'). pose proof (M' _ D L). lia. Qed.
  Lemma last_lt_unique p i i' : last_lt p i -> last_lt p i' -> i = i'.
  Proof. intros [D [L M]] [D' [L' M']]. pose proof (M _ D' L'). pose proof (M' _ D L). lia. Qed.
  Lemma first_ge_unique p i i' : first_ge p i -> first_ge p i' -> i = i'.
  Proof. intros [D [L M]] [D' [L' M']]. pose proof (M _ D' L'). pose proof (M' _ D L). lia. Qed.

  Lemma spec_index_unique p m r r' : spec_index p m r -> spec_index p m r' -> r = r'.
  Proof.
    destruct m, r as [i|], r' as [i'|]; cbn; intros H H'; try reflexivity.
    - f_equal. eapply last_lt_unique; eassumption.
    - destruct H as [D [L _]]. exfalso. exact (H' _ D L).
    - destruct H' as [D [L _]]. exfalso. exact (H _ D L).
    - f_equal. eapply last_le_unique; eassumption.
    - destruct H as [D [L _]]. exfalso. exact (H' _ D L).
    - destruct H' as [D [L _]]. exfalso. exact (H _ D L).
    - f_equal. eapply first_ge_unique; eassumption.
    - destruct H as [D [L _]]. exfalso. exact (H' _ D L).
    - destruct H' as [D [L _]]. exfalso. exact (H _ D L).
  Qed.

  (* range_indices = index_of(start, Geq) .. index_of(end, Less|Leq), from the index specs *)
  Lemma range_from_index (io : Q -> imode -> option Z) p q m :
    spec_index p Geq (io p Geq) -> spec_index q (end_mode m) (io q (end_mode m)) ->
    spec_range p q m (range_of io p q m).
  Proof.
    unfold range_of. intros Ha Hb.
    destruct (io p Geq) as [a|].
    2:{ cbn. intros j Dj [H _]. exact (Ha _ Dj H). }
    destruct (io q (end_mode m)) as [b|].
    2:{ cbn. intros j Dj [_ H]. destruct m; cbn in Hb, H; exact (Hb _ Dj H). }
    cbn in Ha. destruct Ha as [Da [La Ma]].
    destruct (b <? a)%Z eqn:E.
    - apply Z.ltb_lt in E. cbn. intros j Dj [H1 H2].
      pose proof (Ma _ Dj H1).
      destruct m; cbn in Hb, H2; destruct Hb as [Db [Lb Mb]]; pose proof (Mb _ Dj H2); lia.
    - apply Z.ltb_ge in E. cbn.
      assert (Hb' : dom b /\ (forall j, dom j -> in_itv m p q (c j) -> (j <= b)%Z) /\
                    (forall j, dom j -> (j <= b)%Z -> match m with Inclusive => c j <= q | Exclusive => c j < q end)).
      { destruct m; cbn in Hb; destruct Hb as [Db [Lb Mb]]; (split; [exact Db|]); split.
        - intros j Dj [_ H]. exact (Mb _ Dj H).
        - intros j Dj H. pose proof (mono _ _ Dj Db H). lra.
        - intros j Dj [_ H]. exact (Mb _ Dj H).
        - intros j Dj H. pose proof (mono _ _ Dj Db H). lra. }
      destruct Hb' as [Db [Mb Ub]].
      split; [exact E|]. split; [exact Da|]. split; [exact Db|].
      intros j Dj. split.
      + intros H. split; [apply Ma; [exact Dj | destruct H as [H _]; exact H] | apply Mb; assumption].
      + intros [H1 H2]. split; [pose proof (mono _ _ Da Dj H1); lra | apply Ub; assumption].
  Qed.
End Order.
