(* Pure/Upgrade.v -- nixio/cmd/upgrade.py as a machine of micro-steps.  An interruption can
   fall between any two micro-steps: every task, and every single property / dimension
   conversion inside a task, opens the file afresh.  Each step re-checks the precondition on its
   own object, as the closures do.  The library version comes from Gen/FileConsts.v. *)
From NixV Require Import Base.Prelude Gen.FileConsts Pure.Version.
Open Scope Z_scope.

(* the per-value extras of an old-format (compound) property *)
Record extras := mkX { x_unc : list Z; x_ref : list str; x_file : list str; x_enc : list str; x_chk : list str }.
Inductive dval := DZ (l : list Z) | DS (l : list str).
Inductive pstate :=
| POld (values : list Z) (unit def : option str) (x : extras)          (* compound dataset *)
| PNew (values : list Z) (unit def : option str) (unc : option Z)
       (derived : list (N * dval)).                                     (* plain dataset + name.<extra> props *)
Inductive dstate := DAlias | DLinked | DTicks.

Record ufile := mkU { ver : list Z; has_id : bool; props : list pstate; dims : list dstate }.

Definition nonempty_s (s : str) : bool := match s with [] => false | _ => true end.
Definition truthy (o : option str) : option str :=
  match o with Some s => if nonempty_s s then Some s else None | None => None end.
Fixpoint dedup (l : list Z) : list Z :=
  match l with [] => [] | x :: t => if existsb (Z.eqb x) t then dedup t else x :: dedup t end.
Definition any_str (l : list str) : bool := existsb nonempty_s l.

(* what update_props makes of the extras *)
Definition derive (x : extras) : option Z * list (N * dval) :=
  let '(ua, ud) :=
    if Nat.ltb 1 (length (dedup (x_unc x))) then (None, [(0%N, DZ (x_unc x))])
    else if existsb (fun u => negb (Z.eqb u 0)) (x_unc x) then (Some (hd 0 (x_unc x)), [])
    else (None, []) in
  (ua, ud ++ (if any_str (x_ref x) then [(1%N, DS (x_ref x))] else [])
          ++ (if any_str (x_file x) then [(2%N, DS (x_file x))] else [])
          ++ (if any_str (x_enc x) then [(3%N, DS (x_enc x))] else [])
          ++ (if any_str (x_chk x) then [(4%N, DS (x_chk x))] else [])).

Definition conv_p (p : pstate) : pstate :=
  match p with
  | POld v u d x => let '(ua, ud) := derive x in PNew v (truthy u) (truthy d) ua ud
  | PNew _ _ _ _ _ => p                     (* "File was possibly changed ...": skip *)
  end.
Definition conv_d (d : dstate) : dstate := match d with DAlias => DLinked | x => x end.
Definition is_old (p : pstate) : bool := match p with POld _ _ _ _ => true | _ => false end.
Definition is_alias (d : dstate) : bool := match d with DAlias => true | _ => false end.

Inductive mstep := StId | StProp (i : nat) | StDim (i : nat) | StVer.
Fixpoint upd {X} (l : list X) (i : nat) (f : X -> X) : list X :=
  match l, i with [], _ => [] | x :: t, O => f x :: t | x :: t, S j => x :: upd t j f end.

Definition exec (f : ufile) (s : mstep) : ufile :=
  match s with
  | StId => mkU (ver f) true (props f) (dims f)
  | StProp i => mkU (ver f) (has_id f) (upd (props f) i conv_p) (dims f)
  | StDim i => mkU (ver f) (has_id f) (props f) (upd (dims f) i conv_d)
  | StVer => mkU lib_version (has_id f) (props f) (dims f)
  end.

Fixpoint idx_where {X} (p : X -> bool) (l : list X) (i : nat) : list nat :=
  match l with [] => [] | x :: t => (if p x then [i] else []) ++ idx_where p t (S i) end.

(* collect_tasks: `if file_ver >= HDF_FF_VERSION: return []`; id, properties, alias dimensions,
   and ALWAYS LAST the version *)
Definition up_to_date (f : ufile) : bool := tuple_ge (ver f) lib_version.
Definition collect (f : ufile) : list mstep :=
  if up_to_date f then [] else
  (if has_id f then [] else [StId]) ++ map StProp (idx_where is_old (props f) 0)
  ++ map StDim (idx_where is_alias (dims f) 0) ++ [StVer].
Definition run (f : ufile) (l : list mstep) : ufile := fold_left exec l f.
Definition upgrade (f : ufile) : ufile := run f (collect f).

(* the file the upgrade is meant to produce *)
Definition final (f : ufile) : ufile :=
  mkU lib_version true (map conv_p (props f)) (map conv_d (dims f)).
Definition header_of (f : ufile) : header :=
  nix_header (ver f) (if has_id f then IdValid else IdMissing).
