(* Proofs/AtomicRefuted.v -- create_feature validates the data array AFTER it has created the
   feature: the refused call leaves a half-made feature behind (known finding C12-feature). *)
From NixV Require Import Base.Prelude H5.Store Nix.Api Nix.Observe.
Open Scope N_scope.

Definition feat_ops : list op :=
  [ OCreate 0 CBlocks (TS [98]) (TS [116]) [];              (* block "b"      -> handle 1 *)
    OCreate 0 CBlocks (TS [99]) (TS [116]) [];              (* block "c"      -> handle 2 *)
    OCreate 1 CTags (TS [116]) (TS [116]) [1%Z];            (* tag "t" in b   -> handle 3 *)
    OCreate 2 CDataArrays (TS [120]) (TS [116]) [1%Z] ].    (* array "x" in c -> handle 4 *)
Definition feat_state : st := fst (run_from feat_ops 1000 init_st).

Lemma feature_refuted :
  exists s th dh l now s' e,
    ro s = false /\ api_create_feature th dh l now s = (s', inr e) /\
    walk false (sto s') <> walk false (sto s).
Proof.
  exists feat_state, 3, 4, (TS [116;97;103;103;101;100]), 1010%Z.
  eexists. exists ERuntime. split; [reflexivity|]. split; [vm_compute; reflexivity|].
  vm_compute. intro H. discriminate H.
Qed.
