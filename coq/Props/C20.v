(* Props/C20.v -- copies are complete, independent, and keep their internal links.
   ONLY property theorems.  Model: H5Ocopy as the appended, address-shifted copy of the source
   store (H5/Store.v: h5copy_into, copy_addr, regen_ids); the API calls are Nix/Api.v: api_copy.
   The walk functions (Nix/Observe.v) are what the public API shows of an entity, recursively:
   attributes, data, children, and the ids its links lead to. *)
From NixV Require Import Base.Prelude H5.Store Nix.Api Nix.Observe Proofs.StoreLemmas Proofs.CopyProofs.
Open Scope nat_scope.

(* COMPLETE: in any store that holds the shifted source nodes from address n on (right after the
   copy, or after any later change elsewhere), the walk of the copy of a equals the walk of a in
   the source as it was - for every kind that can be copied, to any depth *)
Theorem c20_complete : forall wt t src n, wf src -> is_copy_of t src n -> forall a, a < length (nodes src) ->
  w_block wt (view_of t) (a + n) = w_block wt (view_of src) a /\
  w_data_array wt (view_of t) (a + n) = w_data_array wt (view_of src) a /\
  w_tag wt (view_of t) (a + n) = w_tag wt (view_of src) a /\
  w_multi_tag wt (view_of t) (a + n) = w_multi_tag wt (view_of src) a /\
  (forall fuel, w_section wt (view_of t) fuel (a + n) = w_section wt (view_of src) fuel a) /\
  w_property wt (view_of t) (a + n) = w_property wt (view_of src) a.
Proof.
  intros wt t src n W C a H. repeat split; intros.
  - apply copy_block_walk; assumption.
  - apply copy_data_array_walk; assumption.
  - apply copy_tag_walk; assumption.
  - apply copy_multi_tag_walk; assumption.
  - apply copy_section_walk; assumption.
  - apply copy_property_walk; assumption.
Qed.
Print Assumptions c20_complete.

(* the copy operation establishes that relation, within a file (dst = src) or across files *)
Theorem c20_copy_establishes : forall dst src, is_copy_of (h5copy_into dst src) src (length (nodes dst)).
Proof. exact h5copy_is_copy. Qed.
Print Assumptions c20_copy_establishes.

(* INTERNAL LINKS: a link a -> b of the source is the link copy(a) -> copy(b) of the copy, under
   the same name and at the same place in the order; the copy has no others, and none of its
   links leads to a node that existed before *)
Theorem c20_internal_links : forall dst src a,
  links (node_at (h5copy_into dst src) (copy_addr dst a)) =
    map (fun p => (fst p, copy_addr dst (snd p))) (links (node_at src a)) /\
  (forall k x, In (k, x) (links (node_at (h5copy_into dst src) (copy_addr dst a))) -> length (nodes dst) <= x).
Proof. intros dst src a. split; [apply copy_internal_links | apply copy_links_are_new]. Qed.
Print Assumptions c20_internal_links.

(* NO SIDE EFFECT ON WHAT EXISTED: every node of the destination is as it was, and until the copy
   is linked in the file's walk is unchanged *)
Theorem c20_destination_untouched : forall wt dst src,
  firstn (length (nodes dst)) (nodes (h5copy_into dst src)) = nodes dst /\
  (wf dst -> 0 < length (nodes dst) -> walk wt (h5copy_into dst src) = walk wt dst).
Proof. intros wt dst src. split; [apply copy_keeps_destination | apply unlinked_copy_invisible]. Qed.
Print Assumptions c20_destination_untouched.

(* INDEPENDENT (copy side): a write to any node outside the copy, and the creation of new nodes,
   keep "t holds the copy of src" - hence, by c20_complete, every walk of the copy *)
Theorem c20_copy_independent : forall t src n,
  is_copy_of t src n ->
  (forall w f, (w < n \/ n + length (nodes src) <= w) -> is_copy_of (upd_node t w f) src n) /\
  (forall x, n + length (nodes src) <= length (nodes t) -> is_copy_of (fst (new_node t x)) src n).
Proof. intros t src n C. split; intros; [apply copy_survives_write | apply copy_survives_new_node]; assumption. Qed.
Print Assumptions c20_copy_independent.

(* INDEPENDENT (source side): a write to a node of the copy, and the creation of new nodes, keep
   every old node; and whatever agrees with the old store s below its size shows the same walk
   from every old entity and for the whole file *)
Theorem c20_source_independent : forall wt t s, wf s -> agree_below t s (length (nodes s)) ->
  (forall w f, length (nodes s) <= w -> agree_below (upd_node t w f) s (length (nodes s))) /\
  (forall x, length (nodes s) <= length (nodes t) -> agree_below (fst (new_node t x)) s (length (nodes s))) /\
  (forall a, a < length (nodes s) ->
     w_block wt (view_of t) a = w_block wt (view_of s) a /\
     w_data_array wt (view_of t) a = w_data_array wt (view_of s) a /\
     w_tag wt (view_of t) a = w_tag wt (view_of s) a /\
     w_multi_tag wt (view_of t) a = w_multi_tag wt (view_of s) a /\
     (forall fuel, w_section wt (view_of t) fuel a = w_section wt (view_of s) fuel a) /\
     w_property wt (view_of t) a = w_property wt (view_of s) a) /\
  (0 < length (nodes s) -> walk wt t = walk wt s).
Proof.
  intros wt t s W A. split; [|split; [|split]].
  - intros w f H. apply old_survives_copy_write; assumption.
  - intros x H. apply old_survives_new_node; assumption.
  - intros a H. repeat split; intros.
    + apply old_block_walk; assumption.
    + apply old_data_array_walk; assumption.
    + apply old_tag_walk; assumption.
    + apply old_multi_tag_walk; assumption.
    + apply old_section_walk; assumption.
    + apply old_property_walk; assumption.
  - apply old_file_walk; assumption.
Qed.
Print Assumptions c20_source_independent.

(* FRESH IDS (keep_id = False): nodes below n0 are untouched; every node from n0 on that had an
   id has a new one, pairwise distinct, different from every id generated before (TI j, j < base)
   and from every text; nodes without an id get none; all other attributes, the link targets and
   their order stay; a link named by the old id of its copied target is named by the new one *)
Theorem c20_fresh_ids : forall s n0 base,
  (forall a, a < n0 -> node_at (regen_ids s n0 base) a = node_at s a) /\
  (forall a i, n0 <= a -> a < length (nodes s) -> entity_id s a = Some i ->
     entity_id (regen_ids s n0 base) a = Some (fresh_for n0 base a)) /\
  (forall a b, n0 <= a -> n0 <= b -> fresh_for n0 base a = fresh_for n0 base b -> a = b) /\
  (forall a j, (j < base)%N -> fresh_for n0 base a <> TI j) /\
  (forall a l, fresh_for n0 base a <> TS l) /\
  (forall a k, k <> k_id -> get_attr (regen_ids s n0 base) a k = get_attr s a k) /\
  (forall a, map snd (links (node_at (regen_ids s n0 base) a)) = map snd (links (node_at s a))) /\
  (forall a k x, n0 <= a -> a < length (nodes s) -> n0 <= x -> In (k, x) (links (node_at s a)) ->
     entity_id s x = Some k -> In (fresh_for n0 base x, x) (links (node_at (regen_ids s n0 base) a))).
Proof.
  intros s n0 base. repeat split.
  - intros; apply regen_old; assumption.
  - intros; eapply regen_new_id; eassumption.
  - intros; eapply fresh_injective; eassumption.
  - intros; apply fresh_is_new; assumption.
  - intros; apply fresh_not_text.
  - intros; apply regen_other_attr; assumption.
  - intros; apply regen_link_targets.
  - intros; eapply regen_link_names; eassumption.
Qed.
Print Assumptions c20_fresh_ids.

(* REFUSED WITHOUT SIDE EFFECTS: the API call on a name that exists at the destination fails and
   returns the state it was given - store, handles, id supply *)
Theorem c20_existing_name_refused : forall dh xh name keep children s d x c name',
  nth_error (hs s) (N.to_nat dh) = Some d -> nth_error (hs s) (N.to_nat xh) = Some x ->
  copy_container (hk d) (hk x) = Some c ->
  match name with Some n => Some n | None => entity_name (sto s) (ha x) end = Some name' ->
  in_group (sto s) (child (sto s) (ha d) (TS (cgroup (hk d) c))) name' = true ->
  ro s = false ->
  api_copy dh xh name keep children s = (s, inr EOther).
Proof. exact copy_refused_unchanged. Qed.
Print Assumptions c20_existing_name_refused.

(* non-vacuity: a block with an array that is member of a group and referenced by a tag, copied
   through the API with kept ids under a new name: the call succeeds, and the copy's walk is the
   source's walk except for the name *)
Definition ex_ops : list op :=
  [OCreate 0%N CBlocks (TS [66%N]) (TS [116%N]) []; OCreate 1%N CDataArrays (TS [97%N]) (TS [116%N]) [1; 2]%Z;
   OCreate 1%N CGroups (TS [103%N]) (TS [116%N]) []; OAppend 3%N LDataArrays 2%N;
   OCreate 1%N CTags (TS [120%N]) (TS [116%N]) [1]%Z; OAppend 4%N LReferences 2%N;
   OCopy 0%N 1%N (Some (TS [67%N])) true true; OCopy 0%N 1%N (Some (TS [68%N])) false true].
Example c20_example :
  let fin := run_from ex_ops 1000%Z init_st in
  let s := sto (fst fin) in
  let addr_of h := match nth_error (hs (fst fin)) h with Some x => ha x | None => 0 end in
  nth 6 (snd fin) (RErr EOther) = ROk (Some 5%N) /\ nth 7 (snd fin) (RErr EOther) = ROk (Some 6%N) /\
  skipn 3 (w_block false (view_of s) (addr_of 5)) = skipn 3 (w_block false (view_of s) (addr_of 1)) /\
  length (w_block false (view_of s) (addr_of 6)) = length (w_block false (view_of s) (addr_of 1)) /\
  length (w_block false (view_of s) (addr_of 1)) = 71.
Proof. vm_compute. repeat split. Qed.
