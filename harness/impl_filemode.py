"""Implementation side of C11 (open modes and version gating): crafted headers, real File.open."""
import gc
import hashlib
import json
import os
import shutil
import sys
import uuid

import h5py
import numpy as np
import nixio
from nixio.exceptions import InvalidFile


def sha(path):
    with open(path, "rb") as f:
        return hashlib.sha256(f.read()).hexdigest()


def main():
    req = json.load(sys.stdin)
    wd = os.getcwd()
    tmpl = os.path.join(wd, "template.nix")
    f = nixio.File.open(tmpl, nixio.FileMode.Overwrite)
    b = f.create_block("blk", "t")
    b.create_data_array("da", "t", data=np.arange(5.0))
    f.create_section("sec", "t")
    tmpl_id = f.id
    f.close()
    out = []
    for k, case in enumerate(req["cases"]):
        mode, fmt, ver, idst = case
        path = os.path.join(wd, "c%d.nix" % k)
        shutil.copy(tmpl, path)
        with h5py.File(path, "a") as h:
            if fmt is None:
                del h.attrs["format"]
            else:
                h.attrs["format"] = fmt.encode("ascii")
            if ver is None:
                del h.attrs["version"]
            else:
                h.attrs["version"] = np.array(ver, dtype=np.int32)
            if idst == "missing":
                if "id" in h.attrs:
                    del h.attrs["id"]
            elif idst == "invalid":
                h.attrs["id"] = "not-a-uuid"
            else:
                h.attrs["id"] = str(uuid.uuid4())
        before = sha(path)
        res = {}
        try:
            nf = nixio.File.open(path, mode)
            res["outcome"] = "opened"
            res["mode"] = nf.mode
            res["version"] = [int(x) for x in nf.version]
            res["format"] = nf.format
            res["blocks"] = [x.name for x in nf.blocks]
            res["sections"] = [x.name for x in nf.sections]
            res["id_valid"] = bool(nixio.util.is_uuid(nf.id))
            res["same_id"] = nf.id == tmpl_id
            if mode == "r":
                # reads in a read-only session
                res["data"] = [float(x) for x in nf.blocks[0].data_arrays[0][:]] if len(nf.blocks) else None
            nf.close()
        except InvalidFile:
            res["outcome"] = "invalidfile"
        except RuntimeError as exc:
            res["outcome"] = "runtime"
        except TypeError:
            res["outcome"] = "type"
        except Exception as exc:
            res["outcome"] = "other:" + type(exc).__name__
        gc.collect()
        res["unchanged"] = sha(path) == before
        os.remove(path)
        out.append(res)
    # missing paths
    miss = {}
    for mode in ("r", "a", "w"):
        path = os.path.join(wd, "missing_%s.nix" % mode)
        r = {}
        try:
            nf = nixio.File.open(path, mode)
            r["outcome"] = "opened"
            r["mode"] = nf.mode
            r["version"] = [int(x) for x in nf.version]
            r["blocks"] = len(nf.blocks)
            r["sections"] = len(nf.sections)
            r["id_valid"] = bool(nixio.util.is_uuid(nf.id))
            nf.close()
        except RuntimeError:
            r["outcome"] = "runtime"
        except Exception as exc:
            r["outcome"] = "other:" + type(exc).__name__
        gc.collect()
        r["exists_after"] = os.path.exists(path)
        if os.path.exists(path):
            os.remove(path)
        miss[mode] = r
    # existing files that are not NIX files at all: zero bytes, text, a plain HDF5 file
    foreign = []
    for kind in ("empty", "text", "hdf5"):
        for mode in ("r", "a", "w"):
            path = os.path.join(wd, "foreign_%s_%s.nix" % (kind, mode))
            if kind == "empty":
                open(path, "wb").close()
            elif kind == "text":
                with open(path, "wb") as fh:
                    fh.write(b"not an HDF5 file\n" * 40)
            else:
                with h5py.File(path, "w") as h:
                    h.create_group("data")
            before = sha(path)
            r = {"kind": kind, "mode": mode, "size_before": os.path.getsize(path)}
            try:
                nf = nixio.File.open(path, mode)
                r["outcome"] = "opened"
                r["session_mode"] = nf.mode
                try:
                    nf.create_block("b", "t")
                    r["write_accepted"] = True
                except Exception:
                    r["write_accepted"] = False
                r["version"] = [int(x) for x in nf.version]
                nf.close()
            except Exception as exc:
                r["outcome"] = "refused:" + type(exc).__name__
            gc.collect()
            r["unchanged"] = os.path.exists(path) and sha(path) == before
            if os.path.exists(path):
                os.remove(path)
            foreign.append(r)
    json.dump({"cases": out, "missing": miss, "foreign": foreign}, sys.stdout)


main()
