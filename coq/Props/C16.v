(* Props/C16.v -- a data frame is a faithful table of named, typed columns.
   ONLY property theorems (model: Pure/Table.v, histories: Pure/TableCheck.v).
   wf t: every row has one cell per column; every table reachable from a well-formed one is
   (c16_reachable_wf). *)
From Coq Require Import ZArith List Bool.
From NixV Require Import Base.Prelude Pure.Table Pure.TableCheck Proofs.TableProofs.
Import ListNotations.
Open Scope Z_scope.

(* writing one cell: that cell reads back, every other cell, the columns and the counts stay *)
Theorem c16_write_cell : forall t r c v t', wf t -> write_cell t r c v = Some t' ->
  t_cols t' = t_cols t /\ nrows t' = nrows t /\ read_cell t' r c = v /\
  (forall r' c', (r', c') <> (r, c) -> read_cell t' r' c' = read_cell t r' c').
Proof. exact write_cell_spec. Qed.
Print Assumptions c16_write_cell.

(* writing rows: rows not addressed are untouched; with distinct indices the j-th given row is
   row index[j]; columns and counts stay *)
Theorem c16_write_rows_frame : forall t new idx t', write_rows t new idx = Some t' ->
  t_cols t' = t_cols t /\ nrows t' = nrows t /\
  (forall k, ~ In k idx -> nth k (t_rows t') [] = nth k (t_rows t) []) /\
  (NoDup idx -> forall j, (j < length idx)%nat -> nth (nth j idx O) (t_rows t') [] = nth j new []).
Proof. exact write_rows_spec. Qed.
Print Assumptions c16_write_rows_frame.

(* an accepted write_rows has a strictly increasing index list (anything else - unordered, repeated -
   is refused, never written in another order), so every addressed row holds its new row afterwards *)
Theorem c16_write_rows_ordered : forall t new idx t', write_rows t new idx = Some t' ->
  increasing idx = true /\ NoDup idx /\
  forall j, (j < length idx)%nat -> nth (nth j idx O) (t_rows t') [] = nth j new [].
Proof. exact write_rows_accepts_increasing. Qed.
Print Assumptions c16_write_rows_ordered.

(* appending rows: the old rows, then the new ones, in order; refused exactly when some row does
   not have one value per column *)
Theorem c16_append_rows : forall t rows,
  (forall t', append_rows t rows = Some t' -> t_cols t' = t_cols t /\ t_rows t' = t_rows t ++ rows) /\
  (append_rows t rows = None <-> exists r, In r rows /\ length r <> ncols t).
Proof. intros t rows. split; [intros t'; apply append_rows_spec | apply append_rows_refuses]. Qed.
Print Assumptions c16_append_rows.

(* appending a column: a new last column holding the given values; every existing cell and the
   number of rows stay; refused exactly on a wrong length or an existing name *)
Theorem c16_append_column : forall t col name ty, wf t ->
  (forall t', append_column t col name ty = Some t' ->
     t_cols t' = t_cols t ++ [(name, ty)] /\ nrows t' = nrows t /\ read_column t' (ncols t) = col /\
     (forall r c, (c < ncols t)%nat -> read_cell t' r c = read_cell t r c) /\
     map (firstn (ncols t)) (t_rows t') = t_rows t) /\
  (append_column t col name ty = None <-> (length col <> nrows t \/ In name (map fst (t_cols t)))).
Proof. intros t col name ty W. split; [intros t'; apply append_column_spec, W | apply append_column_refuses]. Qed.
Print Assumptions c16_append_column.

(* writing a column (index 0 included): that column reads back, every other column stays *)
Theorem c16_write_column : forall t col c, wf t ->
  (forall t', write_column t col c = Some t' ->
     t_cols t' = t_cols t /\ nrows t' = nrows t /\ read_column t' c = col /\
     (forall r c', c' <> c -> read_cell t' r c' = read_cell t r c')) /\
  (write_column t col c = None <-> (length col <> nrows t \/ ncols t <= c)%nat).
Proof. intros t col c W. split; [intros t'; apply write_column_spec, W | apply write_column_refuses]. Qed.
Print Assumptions c16_write_column.

(* a refused operation leaves the table as it was, and the history goes on from that table *)
Theorem c16_refused_unchanged : forall t o ops, tstep t o = None ->
  trun t (o :: ops) = tobs true t :: trun t ops /\ tfold t (o :: ops) = tfold t ops.
Proof. exact refused_step_unchanged. Qed.
Print Assumptions c16_refused_unchanged.

(* every table a history reaches is well-formed (so the theorems above apply at every step) *)
Theorem c16_reachable_wf : forall ops t, wf t -> wf (tfold t ops).
Proof. exact tfold_wf. Qed.
Print Assumptions c16_reachable_wf.

(* addressing a column by name is addressing the first column with that name by position *)
Theorem c16_by_name : forall t name r v c, col_index name (t_cols t) 0 = Some c ->
  tstep t (TWriteCellByName name r v) = tstep t (TWriteCell r c v) /\ (c < ncols t)%nat /\
  fst (nth c (t_cols t) (0, 0)) = name.
Proof. exact by_name_is_by_position. Qed.
Print Assumptions c16_by_name.

(* non-vacuity: a 2x3 table; writing column 0, a cell, appending a column all succeed *)
Example c16_example :
  let t := mkT [(0, 0); (3, 3); (7, 1)] [[1; 2; 3]; [4; 5; 6]] in
  wf t /\ write_column t [9; 8] 0 = Some (mkT (t_cols t) [[9; 2; 3]; [8; 5; 6]]) /\
  write_cell t 1 2 0 = Some (mkT (t_cols t) [[1; 2; 3]; [4; 5; 0]]) /\
  append_column t [7; 7] 5 2 = Some (mkT (t_cols t ++ [(5, 2)]) [[1; 2; 3; 7]; [4; 5; 6; 7]]) /\
  write_rows t [[0; 0; 0]] [1%nat] = Some (mkT (t_cols t) [[1; 2; 3]; [0; 0; 0]]) /\
  append_column t [7; 7] 3 2 = None /\ write_column t [1] 0 = None.
Proof. cbv zeta. split; [|repeat split; reflexivity].
  intros r [<-|[<-|[]]]; reflexivity. Qed.
