(* Proofs/DimLinkProofs.v -- a linked dimension is an alias of the target's vector, unit and label;
   explicit ticks and a link replace each other; a refused dimension call changes nothing. *)
From Coq Require Import ZArith List Bool Lia.
From NixV Require Import Base.Prelude Pure.DimLink.
Import ListNotations.
Open Scope Z_scope.

(* REFUSED => UNCHANGED, for every state and every call *)
Theorem refused_unchanged s o s' e : dstep s o = (s', Some e) -> s' = s.
Proof.
  destruct o; cbn [dstep];
    repeat match goal with |- context [match ?x with _ => _ end] => destruct x end;
    intros H; inversion H; reflexivity.
Qed.

(* ALIAS: whatever happens to the target afterwards, a linked range dimension reports the target's
   current vector / unit / label (the getters read the target, not a copy) *)
Theorem linked_range_is_alias s idx : r_link (rd s) = Some idx ->
  get_ticks s = link_values (tg s) idx /\ get_unit s = t_unit (tg s) /\ get_label s = t_label (tg s).
Proof. intros H. unfold get_ticks, get_unit, get_label. rewrite H. auto. Qed.
Theorem linked_set_is_alias s idx : s_link (sd s) = Some idx -> get_labels s = link_values (tg s) idx.
Proof. intros H. unfold get_labels. rewrite H. reflexivity. Qed.
(* target writes keep the links, so the above applies after any sequence of them *)
Definition is_target_op (o : dop) : bool := match o with TSetUnit _ | TSetLabel _ | TSetCell _ _ => true | _ => false end.
Lemma target_op_keeps_dims s o : is_target_op o = true -> rd (fst (dstep s o)) = rd s /\ sd (fst (dstep s o)) = sd s /\ snd (dstep s o) = None.
Proof. destruct o; try discriminate; intros _; cbn; auto. Qed.
Theorem alias_after_target_writes ops : forall s idx, forallb is_target_op ops = true -> r_link (rd s) = Some idx ->
  let s' := fold_left (fun st o => fst (dstep st o)) ops s in
  get_ticks s' = link_values (tg s') idx /\ get_unit s' = t_unit (tg s') /\ get_label s' = t_label (tg s').
Proof.
  induction ops as [|o ops IH]; intros s idx Hall Hl; cbn [fold_left].
  - apply linked_range_is_alias, Hl.
  - cbn in Hall. apply andb_prop in Hall. destruct Hall as [Ho Hall]. apply IH; [exact Hall|].
    destruct (target_op_keeps_dims s o Ho) as [-> _]. exact Hl.
Qed.

(* WRITE-THROUGH: a unit / label set through a linked dimension is the target's; the dimension's
   own fields stay *)
Theorem set_unit_through_link s idx u : r_link (rd s) = Some idx ->
  let s' := fst (dstep s (RSetUnit u)) in
  t_unit (tg s') = Some u /\ rd s' = rd s /\ sd s' = sd s /\ t_label (tg s') = t_label (tg s) /\ t_cells (tg s') = t_cells (tg s).
Proof. intros H. cbn. rewrite H. cbn. auto. Qed.
Theorem set_label_through_link s idx u : r_link (rd s) = Some idx ->
  let s' := fst (dstep s (RSetLabel u)) in
  t_label (tg s') = Some u /\ rd s' = rd s /\ sd s' = sd s /\ t_unit (tg s') = t_unit (tg s) /\ t_cells (tg s') = t_cells (tg s).
Proof. intros H. cbn. rewrite H. cbn. auto. Qed.

(* TICKS <-> LINK: accepted explicit ticks remove the link and read back; an accepted link removes
   the stored ticks and the dimension then reads the target's vector; neither touches the target *)
Theorem ticks_replace_link s l : descends l = false ->
  let s' := fst (dstep s (RSetTicks l)) in
  snd (dstep s (RSetTicks l)) = None /\ r_link (rd s') = None /\ get_ticks s' = Some l /\ tg s' = tg s /\ sd s' = sd s.
Proof. intros H. cbn. rewrite H. cbn. auto. Qed.
Theorem link_replaces_ticks s idx : link_check (tg s) idx = None ->
  let s' := fst (dstep s (RLink idx)) in
  snd (dstep s (RLink idx)) = None /\ r_ticks (rd s') = None /\ r_link (rd s') = Some idx /\
  get_ticks s' = link_values (tg s) idx /\ tg s' = tg s /\ sd s' = sd s.
Proof. intros H. cbn. rewrite H. cbn. repeat split; reflexivity. Qed.

(* what is refused, exactly *)
Theorem refusals s o : (exists e, snd (dstep s o) = Some e) <->
  match o with
  | RSetTicks l => descends l = true
  | RLink idx | SLink idx => link_check (tg s) idx <> None
  | RUnlink => r_link (rd s) = None
  | SUnlink => s_link (sd s) = None
  | SSetLabels _ => s_link (sd s) <> None
  | AppendRange tk lb un => sarg_bad lb = true \/ sarg_bad un = true \/ tk = TkBad \/ (exists l, tk = TkOk l /\ descends l = true)
  | AppendSampled iv lb un off => (forall z, iv <> NmOk z) \/ sarg_bad lb = true \/ sarg_bad un = true \/ off = NmBad
  | AppendSet l => l = TkBad
  | _ => False
  end.
Proof.
  assert (OLD : forall o', match o' with AppendRange _ _ _ | AppendSampled _ _ _ _ | AppendSet _ => False | _ => True end ->
            (exists e, snd (dstep s o') = Some e) <->
            match o' with
            | RSetTicks l => descends l = true
            | RLink idx | SLink idx => link_check (tg s) idx <> None
            | RUnlink => r_link (rd s) = None
            | SUnlink => s_link (sd s) = None
            | SSetLabels _ => s_link (sd s) <> None
            | _ => False
            end).
  { intros o' Ho'. destruct o'; try contradiction; cbn [dstep];
      repeat match goal with |- context [match ?x with _ => _ end] => destruct x eqn:? end; cbn;
      (split; [intros [e H] | intros H]); try discriminate; try congruence; try contradiction; eauto. }
  destruct o; try (apply OLD; exact I).
  - (* AppendRange *)
    destruct label as [lb| |], unit as [un| |], t as [l| |]; cbn; try destruct (descends l) eqn:Ed; cbn;
      (split; [intros [e H] | intros H]); try discriminate; eauto 8;
      repeat match goal with
             | H : _ \/ _ |- _ => destruct H
             | H : exists _, _ /\ _ |- _ => destruct H as (? & ? & ?)
             end; try discriminate; try congruence; eauto.
  - (* AppendSampled *)
    destruct itv as [z| |], label as [lb| |], unit as [un| |], offset as [o| |]; cbn;
      (split; [intros [e H] | intros H]); try discriminate; eauto 8;
      try (left; intros z0; discriminate);
      repeat match goal with
             | H : _ \/ _ |- _ => destruct H
             | H : forall z0, NmOk _ <> NmOk z0 |- _ => exfalso; eapply H; reflexivity
             end; try discriminate; eauto.
  - (* AppendSet *)
    destruct l as [l| |]; cbn; (split; [intros [e H] | intros H]); try discriminate; eauto.
Qed.
