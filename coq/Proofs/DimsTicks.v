(* Proofs/DimsTicks.v -- C07 for the irregularly sampled (range) dimension. *)
From Coq Require Import QArith Qround Qabs ZArith List Bool Lia Lqa.
From NixV Require Import Base.Prelude Pure.Dims Pure.DimsCheck Proofs.DimsBase.
Import ListNotations.
Open Scope Q_scope.

Definition tick_dom (ticks : list Q) (i : Z) : Prop := (0 <= i < Z.of_nat (length ticks))%Z.

(* ascending (repeats allowed), as the ticks setter enforces *)
Fixpoint ascb (l : list Q) : bool :=
  match l with
  | a :: (b :: _) as t => Qleb a b && ascb t
  | _ => true
  end.

Lemma ascb_head a l : ascb (a :: l) = true -> forall k, (k < length l)%nat -> a <= nth k l 0.
Proof.
  revert a. induction l as [|b l IH]; intros a H k Hk; [cbn in Hk; lia|].
  cbn [ascb] in H. apply andb_prop in H. destruct H as [H1 H2]. apply Qleb_true in H1.
  destruct k as [|k]; [exact H1|]. cbn [nth]. cbn [length] in Hk.
  apply Qle_trans with b; [exact H1|]. apply IH; [exact H2 | lia].
Qed.

Lemma ascb_tail a l : ascb (a :: l) = true -> ascb l = true.
Proof. destruct l as [|b l]; [reflexivity|]. cbn [ascb]. intros H. apply andb_prop in H. tauto. Qed.

Lemma ascb_nth l : ascb l = true ->
  forall i j, (i <= j)%nat -> (j < length l)%nat -> nth i l 0 <= nth j l 0.
Proof.
  induction l as [|a l IH]; intros H i j Hij Hj; [cbn in Hj; lia|].
  destruct i as [|i], j as [|j]; cbn [nth]; try lia.
  - apply Qle_refl.
  - apply ascb_head; [exact H | cbn in Hj; lia].
  - apply IH; [eapply ascb_tail; exact H | lia | cbn in Hj; lia].
Qed.

Lemma tick_mono ticks : ascb ticks = true ->
  forall i j, tick_dom ticks i -> tick_dom ticks j -> (i <= j)%Z -> tick_fn ticks i <= tick_fn ticks j.
Proof.
  intros A i j Di Dj Hij. unfold tick_fn, tick_dom in *. apply ascb_nth; [exact A | lia | lia].
Qed.

Lemma last_is_nth (l : list Q) d : l <> [] -> last l d = nth (length l - 1) l d.
Proof.
  induction l as [|a l IH]; intros H; [congruence|].
  destruct l as [|b l]; [reflexivity|].
  change (last (a :: b :: l) d) with (last (b :: l) d). rewrite IH by discriminate.
  cbn [length]. replace (S (S (length l)) - 1)%nat with (S (length l)) by lia.
  cbn [nth]. replace (S (length l) - 1)%nat with (length l) by lia. reflexivity.
Qed.

(* what the two scans return *)
Lemma last_index_from_spec f : forall l i acc,
  (last_index_from i f l acc = acc /\ forall k, (k < length l)%nat -> f (nth k l 0) = false) \/
  (exists k, (k < length l)%nat /\ last_index_from i f l acc = Some (i + Z.of_nat k)%Z /\
             f (nth k l 0) = true /\
             forall k', (k < k')%nat -> (k' < length l)%nat -> f (nth k' l 0) = false).
Proof.
  induction l as [|t l IH]; intros i acc; cbn [last_index_from].
  - left. split; [reflexivity|]. intros k Hk. cbn in Hk. lia.
  - destruct (IH (i + 1)%Z (if f t then Some i else acc)) as [[E A]|[k [Hk [E [F A]]]]].
    + destruct (f t) eqn:Ft.
      * right. exists 0%nat. cbn [length nth]. split; [lia|]. split; [rewrite E; f_equal; lia|].
        split; [exact Ft|]. intros k' H1 H2. destruct k' as [|k']; [lia|]. apply A. lia.
      * left. split; [exact E|]. intros k Hk. destruct k as [|k]; [exact Ft|]. apply A. cbn in Hk. lia.
    + right. exists (S k). cbn [length nth]. split; [lia|]. split; [rewrite E; f_equal; lia|].
      split; [exact F|]. intros k' H1 H2. destruct k' as [|k']; [lia|]. apply A; lia.
Qed.

Lemma first_index_from_spec f : forall l i,
  (first_index_from i f l = None /\ forall k, (k < length l)%nat -> f (nth k l 0) = false) \/
  (exists k, (k < length l)%nat /\ first_index_from i f l = Some (i + Z.of_nat k)%Z /\
             f (nth k l 0) = true /\ forall k', (k' < k)%nat -> f (nth k' l 0) = false).
Proof.
  induction l as [|t l IH]; intros i; cbn [first_index_from].
  - left. split; [reflexivity|]. intros k Hk. cbn in Hk. lia.
  - destruct (f t) eqn:Ft.
    + right. exists 0%nat. cbn [length nth]. split; [lia|]. split; [f_equal; lia|].
      split; [exact Ft|]. intros k' H. lia.
    + destruct (IH (i + 1)%Z) as [[E A]|[k [Hk [E [F A]]]]].
      * left. split; [exact E|]. intros k Hk. destruct k as [|k]; [exact Ft|]. apply A. cbn in Hk. lia.
      * right. exists (S k). cbn [length nth]. split; [lia|]. split; [rewrite E; f_equal; lia|].
        split; [exact F|]. intros k' H. destruct k' as [|k']; [exact Ft|]. apply A. lia.
Qed.

Lemma rio_unfold ticks t0 rest p m : ticks = t0 :: rest ->
  range_index_of ticks p m =
  if Qltb p t0 then match m with Geq => Some 0%Z | _ => None end
  else if Qltb (last ticks t0) p then
    match m with Geq => None | _ => Some (Z.of_nat (length ticks) - 1)%Z end
  else match m with
       | Leq => last_index (fun t => Qleb t p) ticks
       | Less => last_index (fun t => Qltb t p) ticks
       | Geq => first_index (fun t => Qleb p t) ticks
       end.
Proof. intros ->. reflexivity. Qed.

Lemma dom_nat ticks j : tick_dom ticks j ->
  exists k, j = Z.of_nat k /\ (k < length ticks)%nat /\ tick_fn ticks j = nth k ticks 0.
Proof.
  intros [H1 H2]. exists (Z.to_nat j). split; [lia|]. split; [lia|]. reflexivity.
Qed.
Lemma nat_dom_c ticks k : (k < length ticks)%nat ->
  tick_dom ticks (Z.of_nat k) /\ tick_fn ticks (Z.of_nat k) = nth k ticks 0.
Proof.
  intros H. split; [unfold tick_dom; lia|]. unfold tick_fn. rewrite Nat2Z.id. reflexivity.
Qed.

Theorem ticks_index_of_spec ticks p m : ascb ticks = true ->
  spec_index (tick_fn ticks) (tick_dom ticks) p m (range_index_of ticks p m).
Proof.
  intros asc. destruct ticks as [|t0 rest] eqn:Et.
  { destruct m; cbn; intros j [H1 H2]; cbn in H2; lia. }
  rewrite <- Et in *. rewrite (rio_unfold ticks t0 rest p m Et).
  set (c := tick_fn ticks). set (dom := tick_dom ticks).
set (n := length ticks).
    assert (Npos : (1 <= n)%nat) by (unfold n; rewrite Et; cbn; lia).
    assert (C0 : c 0%Z = t0) by (unfold c, tick_fn; rewrite Et; reflexivity).
    assert (D0 : dom 0%Z) by (unfold dom, tick_dom; fold n; lia).
    assert (Dl : dom (Z.of_nat n - 1)%Z) by (unfold dom, tick_dom; fold n; lia).
    assert (Cl : c (Z.of_nat n - 1)%Z = last ticks t0).
    { unfold c, tick_fn. rewrite last_is_nth by (rewrite Et; discriminate).
      replace (Z.to_nat (Z.of_nat n - 1)) with (n - 1)%nat by lia.
      unfold n. apply nth_indep. lia. }
    pose proof (tick_mono ticks asc) as Mono. fold c dom in Mono.
    destruct (Qltb p t0) eqn:E1.
    { apply Qltb_true in E1. destruct m; cbn.
      - intros j Dj Hj. pose proof (Mono _ _ D0 Dj (proj1 Dj)). rewrite C0 in H. lra.
      - intros j Dj Hj. pose proof (Mono _ _ D0 Dj (proj1 Dj)). rewrite C0 in H. lra.
      - split; [exact D0|]. split; [rewrite C0; lra|]. intros j Dj _. exact (proj1 Dj). }
    destruct (Qltb (last ticks t0) p) eqn:E2.
    { apply Qltb_true in E2. rewrite <- Cl in E2.
      assert (Top : forall j, dom j -> (j <= Z.of_nat n - 1)%Z) by (intros j [_ H]; fold n in H; lia).
      destruct m; cbn.
      - split; [exact Dl|]. split; [exact E2|]. intros j Dj _. apply Top. exact Dj.
      - split; [exact Dl|]. split; [lra|]. intros j Dj _. apply Top. exact Dj.
      - intros j Dj Hj. pose proof (Mono _ _ Dj Dl (Top _ Dj)). lra. }
    destruct m.
    - (* Less: last tick < p *)
      unfold last_index.
      destruct (last_index_from_spec (fun t => Qltb t p) ticks 0%Z None) as [[E A]|[k [Hk [E [F A]]]]];
        rewrite E; cbn.
      + intros j Dj Hj. destruct (dom_nat ticks j Dj) as [k [-> [Hk Ck]]]. unfold c in Hj; rewrite Ck in Hj.
        specialize (A k Hk). cbn in A. apply Qltb_false in A. lra.
      + destruct (nat_dom_c ticks k Hk) as [Dk Ck]. try rewrite Z.add_0_l.
        split; [exact Dk|]. split; [unfold c; rewrite Ck; apply Qltb_true; exact F|].
        intros j Dj Hj. destruct (dom_nat ticks j Dj) as [k' [-> [Hk' Ck']]]. unfold c in Hj; rewrite Ck' in Hj.
        destruct (Nat.lt_ge_cases k k') as [L|L]; [|lia].
        specialize (A k' L Hk'). cbn in A. apply Qltb_false in A. lra.
    - (* Leq: last tick <= p *)
      unfold last_index.
      destruct (last_index_from_spec (fun t => Qleb t p) ticks 0%Z None) as [[E A]|[k [Hk [E [F A]]]]];
        rewrite E; cbn.
      + intros j Dj Hj. destruct (dom_nat ticks j Dj) as [k [-> [Hk Ck]]]. unfold c in Hj; rewrite Ck in Hj.
        specialize (A k Hk). cbn in A. apply Qleb_false in A. lra.
      + destruct (nat_dom_c ticks k Hk) as [Dk Ck]. try rewrite Z.add_0_l.
        split; [exact Dk|]. split; [unfold c; rewrite Ck; apply Qleb_true; exact F|].
        intros j Dj Hj. destruct (dom_nat ticks j Dj) as [k' [-> [Hk' Ck']]]. unfold c in Hj; rewrite Ck' in Hj.
        destruct (Nat.lt_ge_cases k k') as [L|L]; [|lia].
        specialize (A k' L Hk'). cbn in A. apply Qleb_false in A. lra.
    - (* Geq: first tick >= p *)
      unfold first_index.
      destruct (first_index_from_spec (fun t => Qleb p t) ticks 0%Z) as [[E A]|[k [Hk [E [F A]]]]];
        rewrite E; cbn.
      + intros j Dj Hj. destruct (dom_nat ticks j Dj) as [k [-> [Hk Ck]]]. unfold c in Hj; rewrite Ck in Hj.
        specialize (A k Hk). cbn in A. apply Qleb_false in A. lra.
      + destruct (nat_dom_c ticks k Hk) as [Dk Ck]. try rewrite Z.add_0_l.
        split; [exact Dk|]. split; [unfold c; rewrite Ck; apply Qleb_true; exact F|].
        intros j Dj Hj. destruct (dom_nat ticks j Dj) as [k' [-> [Hk' Ck']]]. unfold c in Hj; rewrite Ck' in Hj.
        destruct (Nat.lt_ge_cases k' k) as [L|L]; [|lia].
        specialize (A k' L). cbn in A. apply Qleb_false in A. lra.
  Qed.

(* range_indices: RRaise exactly when start > end (outside the property's domain), otherwise
   the exact index range *)
Theorem ticks_range_spec ticks p q m : ascb ticks = true -> p <= q ->
  exists r, range_range_indices ticks p q m = rres_of r /\
            spec_range (tick_fn ticks) (tick_dom ticks) p q m r.
Proof.
    intros asc Hpq. unfold range_range_indices.
    assert (E : Qltb q p = false) by (apply Qltb_false; exact Hpq). rewrite E.
    eexists. split; [reflexivity|]. apply range_from_index.
    - apply tick_mono. exact asc.
    - apply ticks_index_of_spec. exact asc.
    - apply ticks_index_of_spec. exact asc.
Qed.

(* strictly increasing ticks: converting tick i back yields i *)
Fixpoint sascb (l : list Q) : bool :=
  match l with
  | a :: (b :: _) as t => Qltb a b && sascb t
  | _ => true
  end.
Lemma sascb_ascb l : sascb l = true -> ascb l = true.
Proof.
  induction l as [|a l IH]; [reflexivity|]. destruct l as [|b l]; [reflexivity|].
  change (sascb (a :: b :: l)) with (Qltb a b && sascb (b :: l)).
  change (ascb (a :: b :: l)) with (Qleb a b && ascb (b :: l)).
  intros H. apply andb_prop in H. destruct H as [H1 H2]. apply Qltb_true in H1.
  rewrite (IH H2), andb_true_r. apply Qleb_true. lra.
Qed.
Lemma sascb_head a l : sascb (a :: l) = true -> forall k, (k < length l)%nat -> a < nth k l 0.
Proof.
  revert a. induction l as [|b l IH]; intros a H k Hk; [cbn in Hk; lia|].
  cbn [sascb] in H. apply andb_prop in H. destruct H as [H1 H2]. apply Qltb_true in H1.
  destruct k as [|k]; [exact H1|]. cbn [nth]. cbn [length] in Hk.
  apply Qlt_trans with b; [exact H1|]. apply IH; [exact H2 | lia].
Qed.
Lemma sascb_nth l : sascb l = true ->
  forall i j, (i < j)%nat -> (j < length l)%nat -> nth i l 0 < nth j l 0.
Proof.
  induction l as [|a l IH]; intros H i j Hij Hj; [cbn in Hj; lia|].
  destruct i as [|i], j as [|j]; cbn [nth]; try lia.
  - apply sascb_head; [exact H | cbn in Hj; lia].
  - apply IH; [destruct l as [|b l]; [reflexivity | cbn [sascb] in H; apply andb_prop in H; tauto]
              | lia | cbn in Hj; lia].
Qed.

Theorem ticks_roundtrip ticks i : sascb ticks = true -> (i < length ticks)%nat ->
  exists t, tick_at ticks i = Some t /\
    range_index_of ticks t Leq = Some (Z.of_nat i) /\
    range_index_of ticks t Geq = Some (Z.of_nat i) /\
    range_index_of ticks t Less = (if (i =? 0)%nat then None else Some (Z.of_nat i - 1)%Z).
Proof.
  intros SA Hi. pose proof (sascb_ascb _ SA) as A.
  unfold tick_at. rewrite (nth_error_nth' ticks 0 Hi). eexists. split; [reflexivity|].
  set (t := nth i ticks 0). set (c := tick_fn ticks). set (dom := tick_dom ticks).
  assert (Di : dom (Z.of_nat i)) by (unfold dom, tick_dom; lia).
  assert (Ci : c (Z.of_nat i) = t) by (unfold c, tick_fn, t; rewrite Nat2Z.id; reflexivity).
  assert (Strict : forall j, dom j -> (Z.of_nat i < j)%Z -> t < c j).
  { intros j [J1 J2] L. unfold c, tick_fn, t. apply sascb_nth; [exact SA | lia | lia]. }
  assert (Strict' : forall j, dom j -> (j < Z.of_nat i)%Z -> c j < t).
  { intros j [J1 J2] L. unfold c, tick_fn, t. apply sascb_nth; [exact SA | lia | lia]. }
  split; [|split].
  - apply (spec_index_unique c dom t Leq _ _ (ticks_index_of_spec ticks t Leq A)). cbn.
    split; [exact Di|]. split; [rewrite Ci; lra|]. intros j Dj Hj.
    destruct (Z_lt_le_dec (Z.of_nat i) j) as [L|L]; [|exact L]. pose proof (Strict j Dj L). lra.
  - apply (spec_index_unique c dom t Geq _ _ (ticks_index_of_spec ticks t Geq A)). cbn.
    split; [exact Di|]. split; [rewrite Ci; lra|]. intros j Dj Hj.
    destruct (Z_lt_le_dec j (Z.of_nat i)) as [L|L]; [|exact L]. pose proof (Strict' j Dj L). lra.
  - apply (spec_index_unique c dom t Less _ _ (ticks_index_of_spec ticks t Less A)).
    destruct (i =? 0)%nat eqn:E0; cbn.
    + apply Nat.eqb_eq in E0. intros j Dj Hj.
      destruct (Z_lt_le_dec j (Z.of_nat i)) as [L|L]; [destruct Dj; lia|].
      destruct (Z.eq_dec j (Z.of_nat i)) as [->|N]; [rewrite Ci in Hj; lra|].
      assert (L' : (Z.of_nat i < j)%Z) by lia. pose proof (Strict j Dj L'). lra.
    + apply Nat.eqb_neq in E0.
      assert (Dp : dom (Z.of_nat i - 1)%Z) by (unfold dom, tick_dom; lia).
      split; [exact Dp|]. split; [apply Strict'; [exact Dp | lia]|].
      intros j Dj Hj. destruct (Z_lt_le_dec j (Z.of_nat i)) as [L|L]; [lia|].
      destruct (Z.eq_dec j (Z.of_nat i)) as [->|N]; [rewrite Ci in Hj; lra|].
      assert (L' : (Z.of_nat i < j)%Z) by lia. pose proof (Strict j Dj L'). lra.
Qed.

Example ticks_nonvacuous :
  ascb [-(1#2); 0; 0; 3] = true /\ range_index_of [-(1#2); 0; 0; 3] 0 Leq = Some 2%Z /\
  range_index_of [-(1#2); 0; 0; 3] 0 Geq = Some 1%Z /\ range_index_of [-(1#2); 0; 0; 3] 0 Less = Some 0%Z.
Proof. vm_compute. repeat split. Qed.
