"""Printers of Coq literals (plain text).  Strings are `list N` of code points."""
from fractions import Fraction


def cN(n):
    assert n >= 0
    return "%d%%N" % n


def cZ(z):
    return "(%d)%%Z" % z


def cnat(n):
    assert 0 <= n < 5000, "large nat literal"
    return "%d%%nat" % n


def cbool(b):
    return "true" if b else "false"


def cstr(s):
    if isinstance(s, bytes):
        s = s.decode("utf-8")
    if len(s) == 0:
        return "(@nil N)"
    return "[" + ";".join(str(ord(c)) for c in s) + "]%N"


def clist(items, ty=None):
    items = list(items)
    if not items:
        return "(@nil %s)" % ty if ty else "[]"
    return "[" + "; ".join(items) + "]"


def copt(x, ty=None):
    if x is None:
        return "(@None %s)" % ty if ty else "None"
    return "(Some %s)" % x


def cQ(fr):
    """exact rational literal, Q = Qmake Z positive"""
    fr = Fraction(fr)
    return "(Qmake (%d)%%Z %d%%positive)" % (fr.numerator, fr.denominator)


def cpair(*xs):
    return "(" + ", ".join(xs) + ")"
