(* Pure/Values.v -- metadata properties hold typed value lists (nixio/property.py,
   datatype.py) and sections behave like ordered dicts (nixio/section.py). *)
From Coq Require Import ZArith List Bool.
From NixV Require Import Base.Prelude.
Import ListNotations.
Open Scope Z_scope.

Inductive vty := TBool | TInt | TFloat | TStr.
Definition vty_eqb (a b : vty) : bool :=
  match a, b with TBool, TBool | TInt, TInt | TFloat, TFloat | TStr, TStr => true | _, _ => false end.
(* a Python value as DataType.get_dtype sees it; VFloat carries the bit pattern, VStr a pool index *)
Inductive pyval := VBool (b : bool) | VInt (z : Z) | VFloat (bits : Z) | VStr (s : Z) | VOther.

(* DataType.get_dtype: bool BEFORE integral; anything else: ValueError *)
Definition get_dtype (v : pyval) : option vty :=
  match v with
  | VBool _ => Some TBool | VInt _ => Some TInt | VFloat _ => Some TFloat | VStr _ => Some TStr
  | VOther => None
  end.

Inductive verr := ETypeError | EValueError | EKeyError | EDuplicate | EOverflow.
Record prop := mkP { p_ty : vty; p_vals : list pyval }.

Definition in_int64 (v : pyval) : bool :=
  match v with VInt z => (-9223372036854775808 <=? z) && (z <=? 9223372036854775807) | _ => true end.

(* every value must have the type of the first one *)
Fixpoint scan_types (t : vty) (l : list pyval) : option verr :=
  match l with
  | [] => None
  | v :: r => match get_dtype v with
              | None => Some EValueError
              | Some t' => if vty_eqb t' t then scan_types t r else Some ETypeError
              end
  end.
(* Property._check_new_value_types on a non-empty Python list *)
Definition check_types (ty : vty) (vals : list pyval) : option verr :=
  match vals with
  | [] => None
  | first :: _ =>
      match get_dtype first with
      | None => Some EValueError
      | Some t => if negb (vty_eqb t ty) then Some ETypeError else scan_types t vals
      end
  end.

(* prop.values = vals (a list): empty -> delete_values; otherwise check, convert, store *)
Definition set_values (p : prop) (vals : list pyval) : prop + verr :=
  match vals with
  | [] => inl (mkP (p_ty p) [])
  | _ => match check_types (p_ty p) vals with
         | Some e => inr e
         | None => if forallb in_int64 vals then inl (mkP (p_ty p) vals) else inr EOverflow
         end
  end.
Definition extend_values (p : prop) (vals : list pyval) : prop + verr :=
  match vals with
  | [] => inr EKeyError                                   (* data[0] on an empty list: IndexError *)
  | _ => match check_types (p_ty p) vals with
         | Some e => inr e
         | None => if forallb in_int64 vals then inl (mkP (p_ty p) (p_vals p ++ vals)) else inr EOverflow
         end
  end.
(* Section.create_property(name, values): non-empty list, type of the first value, all equal *)
Definition new_property (vals : list pyval) : prop + verr :=
  match vals with
  | [] => inr ETypeError
  | first :: _ =>
      match get_dtype first with
      | None => inr EValueError
      | Some t => match check_types t vals with
                  | Some e => inr e
                  | None => if forallb in_int64 vals then inl (mkP t vals) else inr EOverflow
                  end
      end
  end.

(* ---- a section as an ordered dict: properties first, then subsections *)
Record sect := mkS { s_props : list (Z * prop); s_subs : list Z }.     (* names: pool indices *)
Fixpoint lookup (k : Z) (l : list (Z * prop)) : option prop :=
  match l with [] => None | (n, p) :: r => if Z.eqb n k then Some p else lookup k r end.
Fixpoint replace_prop (k : Z) (p : prop) (l : list (Z * prop)) : list (Z * prop) :=
  match l with [] => [] | (n, q) :: r => if Z.eqb n k then (n, p) :: r else (n, q) :: replace_prop k p r end.
Definition remove_prop (k : Z) (l : list (Z * prop)) : list (Z * prop) := filter (fun x => negb (Z.eqb (fst x) k)) l.
Definition has_sub (k : Z) (s : sect) : bool := existsb (Z.eqb k) (s_subs s).
Definition has_prop (k : Z) (s : sect) : bool := match lookup k (s_props s) with Some _ => true | None => false end.

Definition sec_contains (s : sect) (k : Z) : bool := has_prop k s || has_sub k s.
Definition sec_len (s : sect) : nat := length (s_props s).
Definition sec_keys (s : sect) : list Z := map fst (s_props s) ++ s_subs s.
Inductive item := IValues (l : list pyval) | ISection (name : Z).
(* section[key]: the subsection if there is no such property but such a subsection; else the
   property's values *)
Definition sec_get (s : sect) (k : Z) : item + verr :=
  if negb (has_prop k s) && has_sub k s then inl (ISection k)
  else match lookup k (s_props s) with Some p => inl (IValues (p_vals p)) | None => inr EKeyError end.
(* section[key] = list *)
Definition sec_set (s : sect) (k : Z) (vals : list pyval) : sect + verr :=
  match lookup k (s_props s) with
  | None => match new_property vals with
            | inl p => inl (mkS (s_props s ++ [(k, p)]) (s_subs s))
            | inr e => inr e
            end
  | Some p => match set_values p vals with
              | inl p' => inl (mkS (replace_prop k p' (s_props s)) (s_subs s))
              | inr e => inr e
              end
  end.
(* del section[key] *)
Definition sec_del (s : sect) (k : Z) : sect + verr :=
  match lookup k (s_props s) with
  | Some _ => inl (mkS (remove_prop k (s_props s)) (s_subs s))
  | None => inr EKeyError
  end.
