"""C05 / C02 (implementation only): range and set dimensions linked to COLUMNS OF DATA FRAMES.  Random histories of
link_data_frame (two frames, every column), link_data_array, explicit ticks / labels, remove_link, cell writes in the
frames and reopening; after every call a linked dimension must report the CURRENT values of the column it was linked to
LAST (ticks / labels), that column's unit and name (range dimensions), through a fresh object as well."""
import json
import os
import random
import sys

import numpy as np
import nixio


def main():
    req = json.load(sys.stdin)
    rnd = random.Random(req["seed"])
    path = os.path.join(os.getcwd(), "fl.nix")
    out = []
    for trial in range(req["n"]):
        f = nixio.File.open(path, nixio.FileMode.Overwrite)
        b = f.create_block("b", "t")
        frames = {}
        for name, base in (("A", 1.0), ("B", 10.0)):
            df = b.create_data_frame(name, "t", col_dict={"t": float, "u": float, "w": float},
                                     data=[(base * (i + 1), base * (i + 1) + 0.5, 100.0 - i) for i in range(3)])
            df.units = ["s", "ms", "mV"] if name == "A" else ["ms", "s", "V"]
            frames[name] = df
        arr = b.create_data_array("arr", "t", data=np.array([2.0, 4.0, 8.0]))
        arr.unit = "Hz"
        cube = b.create_data_array("cube", "t", data=np.arange(24.0).reshape(2, 3, 4) * 1.5)     # a rank-3 target
        cube.unit = "mV"
        host = b.create_data_array("host", "t", data=np.zeros((3, 3)))
        rdim = host.append_range_dimension([1.0, 2.0, 3.0])
        sdim = host.append_set_dimension(["x", "y", "z"])
        want = {"r": None, "s": None}           # what each dimension is linked to: ("frame", name, col) / ("array",) / None
        hist = []
        for step in range(req["len"]):
            k = rnd.random()
            which = rnd.choice(["r", "s"])
            dim = rdim if which == "r" else sdim
            op = None
            try:
                if k < 0.45:
                    fr, col = rnd.choice(["A", "B"]), rnd.randrange(3)
                    op = ["link_data_frame", which, fr, col]
                    dim.link_data_frame(frames[fr], col)
                    want[which] = ("frame", fr, col)
                elif k < 0.50:
                    op = ["link_data_array", which]
                    dim.link_data_array(arr, [-1])
                    want[which] = ("array",)
                elif k < 0.58:
                    # a vector of a rank-3 array: the -1 in every position, the fixed indices all different
                    pos = rnd.randrange(3)
                    ix = [rnd.randrange(n) for n in (2, 3, 4)]
                    ix[pos] = -1
                    op = ["link_data_array (rank 3)", which, ix]
                    dim.link_data_array(cube, ix)
                    want[which] = ("cube", tuple(ix))
                elif k < 0.65:
                    op = ["unlink", which]
                    if want[which] is not None:
                        dim.remove_link()
                        want[which] = None
                elif k < 0.75:
                    op = ["own values", which]
                    if which == "r":
                        rdim.ticks = [5.0, 6.0, 7.0]
                    else:
                        if want["s"] is not None:
                            sdim.remove_link()       # (labels of a linked set dimension cannot be assigned: refused by design)
                        sdim.labels = ["p", "q", "r"]
                    want[which] = None
                elif k < 0.92:
                    fr, col, row = rnd.choice(["A", "B"]), rnd.randrange(3), rnd.randrange(3)
                    val = float(rnd.randint(1, 9) * 1000 + step)
                    op = ["write_cell", fr, row, col, val]
                    frames[fr].write_cell(val, position=(row, col))
                else:
                    op = ["reopen"]
                    f.close()
                    f = nixio.File.open(path, nixio.FileMode.ReadWrite)
                    b = f.blocks["b"]
                    frames = {"A": b.data_frames["A"], "B": b.data_frames["B"]}
                    arr, host, cube = b.data_arrays["arr"], b.data_arrays["host"], b.data_arrays["cube"]
                    rdim, sdim = host.dimensions[0], host.dimensions[1]
            except Exception as exc:
                hist.append(op)
                out.append({"history": list(hist), "problem": "a valid call raised %s: %s" % (type(exc).__name__, str(exc)[:80])})
                break
            hist.append(op)
            problem = None
            fresh = b.data_arrays["host"].dimensions
            for w, dims in (("r", (rdim, fresh[0])), ("s", (sdim, fresh[1]))):
                tgt = want[w]
                if tgt is not None and tgt[0] == "cube":
                    vec = [float(x) for x in np.asarray(cube[:])[tuple(slice(None) if i == -1 else i for i in tgt[1])]]
                    for d in dims:
                        try:
                            got = [float(x) for x in (d.ticks if w == "r" else d.labels)]
                        except Exception as exc:
                            got = "raised " + type(exc).__name__
                        if got != vec:
                            problem = "a dimension linked to vector %r of a rank-3 array reports %r, the array holds %r there" % (list(tgt[1]), got, vec)
                            break
                    if problem:
                        break
                    continue
                if tgt is None or tgt[0] != "frame":
                    continue
                _, fr, col = tgt
                colvals = [float(row[col]) for row in frames[fr][:]]
                for d in dims:
                    try:
                        got = [float(x) for x in (d.ticks if w == "r" else d.labels)]
                    except Exception as exc:
                        problem = "reading the linked values raised " + type(exc).__name__
                        break
                    if got != colvals:
                        problem = "a %s dimension linked to column %d of frame %s reports %r, the column holds %r" % (
                            "range" if w == "r" else "set", col, fr, got, colvals)
                        break
                    if w == "r" and (d.unit != frames[fr].units[col] or d.label != frames[fr].column_names[col]):
                        problem = "a range dimension linked to column %d of frame %s reports unit %r / label %r, the column has %r / %r" % (
                            col, fr, d.unit, d.label, frames[fr].units[col], frames[fr].column_names[col])
                        break
                if problem:
                    break
            if problem:
                out.append({"history": list(hist), "problem": problem})
                break
        try:
            f.close()
        except Exception:
            pass
    try:
        os.remove(path)
    except OSError:
        pass
    json.dump({"trials": req["n"], "failures": out}, sys.stdout)


main()
