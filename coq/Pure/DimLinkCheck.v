(* Pure/DimLinkCheck.v -- histories on a host array's dimensions: model against implementation. *)
From Coq Require Import ZArith List Bool.
From NixV Require Import Base.Prelude Pure.DimLink.
Import ListNotations.
Open Scope Z_scope.

(* observation after each op: refused code (0 = accepted); stored fields (own ticks, own unit, own
   label, link index of the range dimension; own labels, link of the set dimension; the target);
   what the getters report *)
Record dobs := mkObs { o_err : Z; o_state : dstate;
                       o_ticks : option (list Z); o_unit : option str; o_label : option str; o_labels : option (list Z) }.
Definition err_code (e : option derr) : Z :=
  match e with None => 0 | Some EIncompat => 1 | Some EValue => 2 | Some ERuntime => 3 | Some EIndex => 4 end.
Definition obs_of (e : option derr) (s : dstate) : dobs :=
  mkObs (err_code e) s (get_ticks s) (get_unit s) (get_label s) (get_labels s).

Definition ostr_eqb := opt_eqb streq.
Definition olist_eqb := opt_eqb (list_eqb Z.eqb).
Definition target_eqb (a b : target) : bool :=
  ostr_eqb (t_unit a) (t_unit b) && ostr_eqb (t_label a) (t_label b) && list_eqb Z.eqb (t_shape a) (t_shape b)
  && list_eqb Z.eqb (t_cells a) (t_cells b).
Definition oz_eqb := opt_eqb Z.eqb.
Definition xdim_eqb (a b : xdim) : bool :=
  match a, b with
  | XRange t u l, XRange t' u' l' => olist_eqb t t' && ostr_eqb u u' && ostr_eqb l l'
  | XSampled i u l o, XSampled i' u' l' o' => Z.eqb i i' && ostr_eqb u u' && ostr_eqb l l' && oz_eqb o o'
  | XSet l, XSet l' => olist_eqb l l'
  | _, _ => false
  end.
Definition state_eqb (a b : dstate) : bool :=
  list_eqb xdim_eqb (extra a) (extra b) &&
  target_eqb (tg a) (tg b) &&
  olist_eqb (r_ticks (rd a)) (r_ticks (rd b)) && ostr_eqb (r_unit (rd a)) (r_unit (rd b)) &&
  ostr_eqb (r_label (rd a)) (r_label (rd b)) && olist_eqb (r_link (rd a)) (r_link (rd b)) &&
  olist_eqb (s_labels (sd a)) (s_labels (sd b)) && olist_eqb (s_link (sd a)) (s_link (sd b)).
Definition obs_eqb (a b : dobs) : bool :=
  Z.eqb (o_err a) (o_err b) && state_eqb (o_state a) (o_state b) && olist_eqb (o_ticks a) (o_ticks b) &&
  ostr_eqb (o_unit a) (o_unit b) && ostr_eqb (o_label a) (o_label b) && olist_eqb (o_labels a) (o_labels b).

Fixpoint drun (s : dstate) (ops : list dop) : list dobs :=
  match ops with
  | [] => []
  | o :: r => let '(s', e) := dstep s o in obs_of e s' :: drun s' r
  end.
Definition dimlink_case := (dstate * list dop * list dobs)%type.
Definition check_dimlink (c : dimlink_case) : N :=
  let '(s, ops, obs) := c in
  let ok := list_eqb obs_eqb (drun s ops) obs in vcode ok ok.
