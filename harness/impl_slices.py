"""Implementation side of C06: index expressions on DataArray and on DataView (get_slice)."""
import json
import os
import sys

import numpy as np
import nixio


def mk_index(e):
    out = []
    for it in e:
        if it[0] == "int":
            out.append(it[1])
        elif it[0] == "slice":
            out.append(slice(it[1], it[2], it[3]))
        else:
            out.append(Ellipsis)
    if len(out) == 1 and BARE[0]:
        return out[0]          # array[0], array[1:3], array[...]  -- not wrapped in a tuple
    return tuple(out)


BARE = [False]


def res_of(fn):
    try:
        r = fn()
    except Exception as exc:
        return ["refused", type(exc).__name__]
    r = np.asarray(r)
    return ["data", [int(x) for x in r.shape], [int(x) for x in r.ravel()]]


def main():
    req = json.load(sys.stdin)
    path = os.path.join(os.getcwd(), "sl.nix")
    f = nixio.File.open(path, nixio.FileMode.Overwrite)
    b = f.create_block("b", "t")
    arrays = {}
    out = {"read": [], "view": [], "write": [], "numpy": []}

    def arr(shape):
        key = tuple(shape)
        if key not in arrays:
            n = int(np.prod(shape)) if shape else 1
            arrays[key] = b.create_data_array("a%d" % len(arrays), "t", data=np.arange(n, dtype=np.int64).reshape(shape))
        return arrays[key]

    for k, (shape, e) in enumerate(req.get("read", [])):
        BARE[0] = (k % 2 == 0)
        da = arr(shape)
        idx = mk_index(e)
        out["read"].append(res_of(lambda: da[idx]))
        # the NumPy oracle on an in-memory copy
        mem = np.arange(int(np.prod(shape)), dtype=np.int64).reshape(shape)

        def npread():
            r = mem[idx]
            return r if np.ndim(r) else np.array([r])
        out["numpy"].append(res_of(npread))
    for k, (shape, pe, e) in enumerate(req.get("view", [])):
        BARE[0] = (k % 2 == 0)
        da = arr(shape)
        idx = mk_index(e)
        try:
            v = da.get_slice([p for p, _ in pe], [x for _, x in pe])
        except Exception as exc:
            out["view"].append(["refused", "get_slice:" + type(exc).__name__])
            continue
        if not v.valid:
            r = res_of(lambda: v[idx])
            out["view"].append(["invalid", r])
            continue
        out["view"].append(res_of(lambda: v[idx]))
    # writes: fresh array per case
    for k, (shape, pe, e) in enumerate(req.get("write", [])):
        BARE[0] = (k % 2 == 0)
        n = int(np.prod(shape))
        da = b.create_data_array("w%d" % k, "t", data=np.arange(n, dtype=np.int64).reshape(shape))
        idx = mk_index(e)
        try:
            if pe is None:
                da[idx] = -1
            else:
                v = da.get_slice([p for p, _ in pe], [x for _, x in pe])
                if not v.valid:
                    try:
                        v[idx] = -1
                        out["write"].append(["invalid-but-written"])
                    except Exception as exc:
                        out["write"].append(["invalid", type(exc).__name__])
                    continue
                v[idx] = -1
            now = da[:].ravel()
            changed = [int(i) for i in range(n) if now[i] == -1]
            other = [int(i) for i in range(n) if now[i] != -1 and now[i] != i]
            out["write"].append(["data", changed, other])
        except Exception as exc:
            now = da[:].ravel()
            dirty = [int(i) for i in range(n) if now[i] != i]
            out["write"].append(["refused", type(exc).__name__, dirty])
    f.close()
    os.remove(path)
    json.dump(out, sys.stdout)


main()
