(* Pure/TableCheck.v -- histories on one data frame (C16). *)
From Coq Require Import ZArith List Bool.
From NixV Require Import Base.Prelude Pure.Table.
Import ListNotations.
Open Scope Z_scope.

Inductive top :=
| TAppendRows (rows : list (list Z))
| TAppendColumn (col : list Z) (name ty : Z)
| TWriteRows (rows : list (list Z)) (index : list nat)
| TWriteCell (r c : nat) (v : Z)
| TWriteCellByName (name : Z) (r : nat) (v : Z)
| TWriteColumn (col : list Z) (c : nat)
| TWriteColumnByName (col : list Z) (name : Z)
| TReopen
| TRecreate.        (* create_data_frame under the existing name: always refused *)

Definition tstep (t : table) (o : top) : option table :=
  match o with
  | TAppendRows rows => append_rows t rows
  | TAppendColumn col n ty => append_column t col n ty
  | TWriteRows rows idx => write_rows t rows idx
  | TWriteCell r c v => write_cell t r c v
  | TWriteCellByName n r v => match col_index n (t_cols t) 0 with Some c => write_cell t r c v | None => None end
  | TWriteColumn col c => write_column t col c
  | TWriteColumnByName col n => match col_index n (t_cols t) 0 with
                                | Some c => write_column t col c
                                | None => if Nat.eqb (nrows t) 0 && Nat.eqb (length col) 0 then Some t else None
                                end
  | TReopen => Some t
  | TRecreate => None
  end.

(* observation: refused?, column names, column types, all cells row by row *)
Definition tobs (refused : bool) (t : table) : list Z :=
  (if refused then 1 else 0) :: Z.of_nat (ncols t) :: map fst (t_cols t) ++ map snd (t_cols t)
  ++ Z.of_nat (nrows t) :: concat (t_rows t).
Fixpoint trun (t : table) (ops : list top) : list (list Z) :=
  match ops with
  | [] => []
  | o :: r => match tstep t o with
              | Some t' => tobs false t' :: trun t' r
              | None => tobs true t :: trun t r
              end
  end.
Definition table_case := (table * list top * list (list Z))%type.
Definition check_table (c : table_case) : N :=
  let '(t, ops, obs) := c in
  let ok := list_eqb (list_eqb Z.eqb) (trun t ops) obs in vcode ok ok.
