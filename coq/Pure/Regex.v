(* Pure/Regex.v -- a backtracking matcher with the semantics of Python's `re`
   (ordered alternation, greedy ?, *, +, capture groups, ^ and $) for the regex subset
   that nixio/util/units.py uses.  The patterns themselves are NOT written here: they are
   regenerated from /repo into Generated.v by harness/translate.py (which parses them with
   Python's own sre parser and fails closed on any construct outside this AST). *)
From NixV Require Import Base.Prelude.
Open Scope N_scope.

Inductive re :=
| Eps
| Chr (c : N)
| Cls (neg : bool) (ranges : list (N * N))      (* [..] / [^..] as a list of inclusive ranges *)
| Seq (a b : re)
| Alt (a b : re)                                (* ordered: a first *)
| Opt (a : re)                                  (* greedy ? *)
| Star (a : re)                                 (* greedy * *)
| Grp (n : nat) (a : re)                        (* capture group number n *)
| Bol                                           (* ^  (no MULTILINE) *)
| Eol.                                          (* $  (no MULTILINE): end, or before a final \n *)

Definition caps := list (nat * str).

Definition in_ranges (x : N) (rs : list (N * N)) : bool :=
  existsb (fun r => (fst r <=? x) && (x <=? snd r)) rs.

(* greedy star: iterate [ma] (the matcher of the body) as long as it makes progress; fuel =
   length of the subject suffices because every iteration consumes at least one character *)
Fixpoint star_loop {A} (ma : str -> bool -> caps -> (str -> bool -> caps -> option A) -> option A)
         (k : str -> bool -> caps -> option A)
         (fuel : nat) (s : str) (bol : bool) (cs : caps) {struct fuel} : option A :=
  match fuel with
  | O => k s bol cs
  | S f =>
      match ma s bol cs
               (fun s' b' cs' =>
                  if Nat.ltb (length s') (length s) then star_loop ma k f s' b' cs' else None)
      with
      | Some v => Some v
      | None => k s bol cs
      end
  end.

(* CPS backtracking.  [bol] = we are at absolute position 0 of the subject string. *)
Fixpoint m {A} (r : re) (s : str) (bol : bool) (cs : caps)
         (k : str -> bool -> caps -> option A) {struct r} : option A :=
  match r with
  | Eps => k s bol cs
  | Chr c => match s with
             | x :: t => if x =? c then k t false cs else None
             | [] => None
             end
  | Cls neg rs => match s with
                  | x :: t => if xorb neg (in_ranges x rs) then k t false cs else None
                  | [] => None
                  end
  | Seq a b => m a s bol cs (fun s' b' cs' => m b s' b' cs' k)
  | Alt a b => match m a s bol cs k with Some v => Some v | None => m b s bol cs k end
  | Opt a => match m a s bol cs k with Some v => Some v | None => k s bol cs end
  | Star a => star_loop (m a) k (length s) s bol cs
  | Grp n a =>
      m a s bol cs
        (fun s' b' cs' => k s' b' ((n, firstn (length s - length s') s) :: cs'))
  | Bol => if bol then k s bol cs else None
  | Eol => match s with
           | [] => k s bol cs
           | [10] => k s bol cs
           | _ => None
           end
  end.

Definition Plus (a : re) : re := Seq a (Star a).

Fixpoint lit (l : str) : re :=
  match l with [] => Eps | [c] => Chr c | c :: t => Seq (Chr c) (lit t) end.
Fixpoint seqs (l : list re) : re :=
  match l with [] => Eps | [r] => r | r :: t => Seq r (seqs t) end.
Fixpoint alts (l : list re) : re :=
  match l with [] => Eps | [r] => r | r :: t => Alt r (alts t) end.

(* entry points of Python's re *)
Inductive entry := EMatch | ESearch | EFull.

Definition k_any : str -> bool -> caps -> option caps := fun _ _ cs => Some cs.
Definition k_end : str -> bool -> caps -> option caps :=
  fun s _ cs => match s with [] => Some cs | _ => None end.

Definition re_match (r : re) (s : str) : option caps := m r s true [] k_any.
Definition re_fullmatch (r : re) (s : str) : option caps := m r s true [] k_end.

Fixpoint search_from (fuel : nat) (r : re) (s : str) (bol : bool) : option caps :=
  match m r s bol [] k_any with
  | Some cs => Some cs
  | None => match fuel, s with
            | S f, _ :: t => search_from f r t false
            | _, _ => None
            end
  end.
Definition re_search (r : re) (s : str) : option caps := search_from (length s) r s true.

Definition run_entry (e : entry) (r : re) (s : str) : option caps :=
  match e with
  | EMatch => re_match r s
  | ESearch => re_search r s
  | EFull => re_fullmatch r s
  end.

(* most recent capture of group n; "" when the group did not take part *)
Definition getg (n : nat) (cs : caps) : str :=
  match find (fun p => Nat.eqb (fst p) n) cs with Some p => snd p | None => [] end.

Definition is_some {A} (o : option A) : bool := match o with Some _ => true | None => false end.
