"""Implementation side of C16: histories on one DataFrame."""
import gc
import json
import os
import struct
import sys
from collections import OrderedDict

import numpy as np
import nixio

NAMES = ["c0", "c1", "äö", "x y", "name", "c5", "c6", "c7", "c8", "c9"]
STRS = ["", "a", "äöü", "x" * 30, "0", "b c", "日本", "zz", "e\u0301", "\u00e9", "\u212b", "\u00c5", "a ", "A"]
TYPES = ["int64", "float64", "bool", "str", "int8", "uint16"]
NPT = {"int64": np.int64, "float64": np.float64, "bool": np.bool_, "str": str, "int8": np.int8, "uint16": np.uint16}


def dec(ty, x):
    if ty == "str":
        return STRS[x]
    if ty == "float64":
        return struct.unpack("<d", struct.pack("<Q", x))[0]
    if ty == "bool":
        return bool(x)
    return int(x)


def enc(ty, v):
    if ty == "str":
        if not isinstance(v, str):
            return -7                      # a text cell must come back as text (not bytes)
        return STRS.index(v) if v in STRS else -8
    if ty == "float64":
        return struct.unpack("<Q", struct.pack("<d", float(v)))[0]
    return int(v)


def col_ty(dt):
    if dt == np.int64:
        return 0
    if dt == np.float64:
        return 1
    if dt == np.bool_:
        return 2
    if dt == np.int8:
        return 4
    if dt == np.uint16:
        return 5
    return 3           # vlen string / object


def observe(df, refused, ident=None):
    names = list(df.column_names)
    dts = list(df.dtype)
    tys = [TYPES[col_ty(d)] for d in dts]
    data = df[:]
    rows = []
    for row in (data if len(df) else []):
        rows += [enc(t, row[n]) for t, n in zip(tys, names)]
    n = len(df)
    extra = (df.df_shape == (n, len(names))) and (df.row_count() == n) and (list(df.shape) == [n])
    cols = [c[0] for c in df.columns]
    extra = extra and cols == names
    out = [1 if refused else 0, len(names)] + [NAMES.index(x) for x in names] + [col_ty(d) for d in dts] + [n] + rows
    if not extra:
        out[0] += 50
    if ident is not None and (df.id, df.type, df.name) != ident:
        out[0] += 25
    return out


def main():
    req = json.load(sys.stdin)
    wd = os.getcwd()
    out = []
    for k, c in enumerate(req["cases"]):
        path = os.path.join(wd, "t%d.nix" % k)
        f = nixio.File.open(path, nixio.FileMode.Overwrite)
        b = f.create_block("b", "t")
        cols = c["cols"]          # [(name idx, type name)]
        rows = [[dec(t, x) for (_, t), x in zip(cols, r)] for r in c["rows"]]
        names = [NAMES[n] for n, _ in cols]
        how = c["create"]
        try:
            if how == "col_dict":
                df = b.create_data_frame("df", "t", col_dict=OrderedDict((n, NPT[t]) for n, (_, t) in zip(names, cols)),
                                         data=[tuple(r) for r in rows] if rows else None)
            elif how == "names+dtypes":
                df = b.create_data_frame("df", "t", col_names=names, col_dtypes=[NPT[t] for _, t in cols],
                                         data=[tuple(r) for r in rows] if rows else None)
            elif how == "names+data":
                df = b.create_data_frame("df", "t", col_names=names, data=[tuple(r) for r in rows])
            else:
                dt = np.dtype([(n, nixio.util.vlen_str_dtype if t == "str" else NPT[t]) for n, (_, t) in zip(names, cols)])
                arr = np.array([tuple(r) for r in rows], dtype=dt)
                df = b.create_data_frame("df", "t", data=arr)
        except Exception as exc:
            out.append({"create_error": type(exc).__name__ + ": " + str(exc)[:100]})
            f.close()
            continue
        ident = (df.id, df.type, df.name)
        obs = [observe(df, False)]
        reads_ok = True
        # several Python objects for the one frame: the creation result, the block's container, a group's member
        # list, a feature's data; each has read the frame once (whatever it caches, it has cached)
        created = df

        def all_handles(first):
            bb = f.blocks["b"]
            hs = [first, bb.data_frames["df"]]
            try:
                if "g" not in bb.groups:
                    g = bb.create_group("g", "t")
                    g.data_frames.append(first)
                    t = bb.create_tag("tg", "t", [0.0])
                    t.create_feature(first, nixio.LinkType.Untagged)
                hs.append(bb.groups["g"].data_frames[0])
                hs.append(bb.tags["tg"].features[0].data)
            except Exception:
                pass
            for h in hs:
                observe(h, False)
            return hs
        handles = all_handles(created) if c.get("multi") else [df]
        for opi, op in enumerate(c["ops"]):
            refused = False
            df = handles[(op[-1] if c.get("multi") else 0) % len(handles)]
            if c.get("multi"):
                op = op[:-1]
            tys = [TYPES[col_ty(d)] for d in df.dtype]
            try:
                if op[0] == "append_rows":
                    df.append_rows([tuple(dec(t, x) for t, x in zip(tys, r)) if len(r) == len(tys) else tuple(r) for r in op[1]])
                elif op[0] == "append_column":
                    df.append_column([dec(op[3], x) for x in op[1]], NAMES[op[2]], datatype=NPT[op[3]])
                elif op[0] == "write_rows":
                    df.write_rows([tuple(dec(t, x) for t, x in zip(tys, r)) if len(r) == len(tys) else tuple(r) for r in op[1]], op[2])
                elif op[0] == "write_cell":
                    df.write_cell(dec(tys[op[2]] if op[2] < len(tys) else "int64", op[3]), position=(op[1], op[2]))
                elif op[0] == "write_cell_name":
                    names_now = list(df.column_names)
                    ty = tys[names_now.index(NAMES[op[1]])] if NAMES[op[1]] in names_now else "int64"
                    df.write_cell(dec(ty, op[3]), col_name=NAMES[op[1]], row_idx=op[2])
                elif op[0] == "write_column":
                    ty = tys[op[2]] if op[2] < len(tys) else "int64"
                    df.write_column([dec(ty, x) for x in op[1]], index=op[2])
                elif op[0] == "write_column_name":
                    names_now = list(df.column_names)
                    ty = tys[names_now.index(NAMES[op[2]])] if NAMES[op[2]] in names_now else "int64"
                    df.write_column([dec(ty, x) for x in op[1]], name=NAMES[op[2]])
                elif op[0] == "recreate":
                    try:
                        f.blocks["b"].create_data_frame("df", "other", col_dict=OrderedDict([("zz", np.int64)]))
                    finally:
                        pass
                elif op[0] == "reopen":
                    f.close()
                    gc.collect()
                    f = nixio.File.open(path, nixio.FileMode.ReadWrite)
                    handles = all_handles(f.blocks["b"].data_frames["df"]) if c.get("multi") else [f.blocks["b"].data_frames["df"]]
            except Exception as exc:
                refused = True
            # observe through ANOTHER object than the one that did the write; every object must show the same table
            df = handles[(opi + 1) % len(handles)]
            ob = observe(df, refused, ident)
            if c.get("multi"):
                for h in handles:
                    try:
                        if observe(h, refused, ident)[1:] != ob[1:]:
                            ob[0] += 400
                            break
                    except Exception:
                        ob[0] += 400
                        break
            # read paths must agree with the full read
            try:
                n = len(df)
                names_now = list(df.column_names)
                tys = [TYPES[col_ty(d)] for d in df.dtype]
                if n and names_now:
                    full = df[:]
                    r = n - 1
                    cidx = len(names_now) - 1
                    row = df.read_rows([r])
                    ok = [enc(t, row[0][nm]) for t, nm in zip(tys, names_now)] == [enc(t, full[r][nm]) for t, nm in zip(tys, names_now)]
                    col = df.read_columns(name=[names_now[cidx]])
                    ok = ok and [enc(tys[cidx], x) for x in col] == [enc(tys[cidx], x) for x in full[names_now[cidx]]]
                    col0 = df.read_columns(index=[0])
                    ok = ok and [enc(tys[0], x) for x in col0] == [enc(tys[0], x) for x in full[names_now[0]]]
                    cell = df.read_cell(position=(0, cidx))
                    ok = ok and enc(tys[cidx], cell) == enc(tys[cidx], full[0][names_now[cidx]])
                    cell2 = df.read_cell(col_name=names_now[0], row_idx=[r])
                    ok = ok and enc(tys[0], cell2) == enc(tys[0], full[r][names_now[0]])
                    # several columns at once come back in the order ASKED for (all of them reversed, all but one, rotated),
                    # by name and by index
                    if len(names_now) >= 2:
                        rev = names_now[::-1]
                        for sel in (rev, rev[:-1], names_now[1:] + names_now[:1]):
                            for res in (df.read_columns(name=list(sel)), df.read_columns(index=[names_now.index(x) for x in sel])):
                                if len(sel) == 1:
                                    ok = ok and [enc(tys[names_now.index(sel[0])], x) for x in res] == \
                                        [enc(tys[names_now.index(sel[0])], x) for x in full[sel[0]]]
                                    continue
                                ok = ok and list(res.dtype.names) == list(sel)
                                for j, nm in enumerate(sel):
                                    t = tys[names_now.index(nm)]
                                    ok = ok and [enc(t, rw[j]) for rw in res] == [enc(t, x) for x in full[nm]]
                    if not ok:
                        ob[0] += 100
            except Exception as exc:
                ob[0] += 200
            obs.append(ob)
        f.close()
        os.remove(path)
        out.append({"obs": obs})
    json.dump(out, sys.stdout)


main()
