(* Proofs/AtomicProofs2.v -- C12 for the remaining modelled call sites. *)
From NixV Require Import Base.Prelude H5.Store Nix.Api Proofs.StoreLemmas Proofs.MonadLemmas Proofs.AtomicProofs.
From Coq Require Import Lia.
Open Scope N_scope.

Ltac same_ro := apply (atomic_bind_ro same same_refl); [solve [readonly_tac] | intros].

(* link lists, single links, attribute setters, deletion: all tests precede all writes *)
Lemma atomic_api_append ph l x : atomic same (api_append ph l x).
Proof.
  unfold api_append. same_ro. same_ro. same_ro. same_ro. same_ro.
  destruct (entity_id (sto x3) (ha x1)); [|apply (atomic_of_readonly same same_refl); readonly_tac].
  apply (atomic_of_total same). total_tac.
Qed.

Lemma atomic_api_delete ph c k : atomic same (api_delete ph c k).
Proof.
  unfold api_delete. same_ro. same_ro. same_ro. same_ro. same_ro.
  apply (atomic_of_total same). total_tac.
Qed.

Lemma atomic_api_remove ph l k : atomic same (api_remove ph l k).
Proof.
  unfold api_remove. same_ro. same_ro. same_ro. same_ro. same_ro.
  destruct (child (sto x2) (ha x) (TS (lname l))); [|apply (atomic_of_readonly same same_refl); readonly_tac].
  destruct (entity_id (sto x2) x3); [|apply (atomic_of_readonly same same_refl); readonly_tac].
  destruct (find_by_id _ _ _) as [[ln a0]|]; [|apply (atomic_of_readonly same same_refl); readonly_tac].
  apply (atomic_of_total same). total_tac.
Qed.

Lemma atomic_api_set_attr ph a v now : atomic same (api_set_attr ph a v now).
Proof.
  unfold api_set_attr. same_ro.
  destruct a.
  - same_ro. destruct v; [apply (atomic_of_total same); total_tac | apply (atomic_of_readonly same same_refl); readonly_tac].
  - same_ro. apply (atomic_of_total same). total_tac.
  - same_ro. apply (atomic_of_total same). total_tac.
  - same_ro. apply (atomic_of_total same). total_tac.
  - same_ro. apply (atomic_of_total same). total_tac.
  - same_ro. apply (atomic_of_total same). total_tac.
  - apply (atomic_of_readonly same same_refl). readonly_tac.
Qed.

Lemma atomic_api_set_link ph r x now : atomic same (api_set_link ph r x now).
Proof.
  unfold api_set_link. same_ro.
  destruct r, x as [x'|].
  - same_ro. same_ro. same_ro. apply (atomic_of_total same). total_tac.
  - same_ro. same_ro. destruct (child _ _ _); apply (atomic_of_total same); total_tac.
  - same_ro. same_ro. same_ro. same_ro. same_ro. apply (atomic_of_total same). total_tac.
  - apply (atomic_of_readonly same same_refl). readonly_tac.
  - same_ro. same_ro. same_ro. same_ro. same_ro. apply (atomic_of_total same). total_tac.
  - same_ro. same_ro.
    destruct (child _ _ _); [apply (atomic_of_total same); total_tac
                            | apply (atomic_of_readonly same same_refl); readonly_tac].
  - same_ro. same_ro. same_ro. same_ro. same_ro. same_ro. same_ro. apply (atomic_of_total same). total_tac.
  - apply (atomic_of_readonly same same_refl). readonly_tac.
  - same_ro. same_ro. same_ro. apply (atomic_of_total same). total_tac.
  - apply (atomic_of_readonly same same_refl). readonly_tac.
Qed.

Lemma atomic_api_create_mtag ph n t pos now : atomic same (api_create_mtag ph n t pos now).
Proof.
  unfold api_create_mtag. same_ro. same_ro. same_ro. same_ro. same_ro. same_ro. same_ro. same_ro. same_ro.
  apply atomic_create_tail; [apply atomic_entity_create_new | apply ro_entity_create_new | intros; total_tac].
Qed.

(* BaseTag.create_feature: the data array is tested before the feature group is made (a refused
   call removes what it had started) *)
Lemma atomic_api_create_feature th dh l now : atomic same (api_create_feature th dh l now).
Proof.
  unfold api_create_feature. same_ro. same_ro. same_ro. same_ro. same_ro. same_ro. same_ro.
  apply (atomic_of_total same). total_tac.
Qed.

(* ---- creators that create their (empty, unobservable) container group before the duplicate
   test: Source.create_source, Section.create_section, Section.create_property *)
Definition plus_container (s s' : store) : Prop :=
  s' = s \/ exists pa k, s' = fst (ensure_group s pa (TS k)).
Lemma plus_container_refl s : plus_container s s.
Proof. left. reflexivity. Qed.

(* a step that cannot fail on a writable file and whose effect on the store is within R *)
Definition steps (R : store -> store -> Prop) {A} (m : M A) : Prop :=
  forall s, ro s = false -> exists s1 x, m s = (s1, inl x) /\ ro s1 = false /\ R (sto s) (sto s1).

Lemma atomic_after_steps R {A B} (m : M A) (k : A -> M B) :
  steps R m -> (forall x, atomic same (k x)) -> atomic R (bind m k).
Proof.
  intros Hm Hk s s' e Hro E. unfold bind in E.
  destruct (Hm s Hro) as [s1 [x [E1 [R1 HR]]]]. rewrite E1 in E.
  pose proof (Hk x s1 s' e R1 E) as Hs. unfold same in Hs. rewrite <- Hs. exact HR.
Qed.

Lemma steps_ensure pa cg : steps plus_container (wr_ret (fun s => ensure_group s pa (TS cg))).
Proof.
  intros s Hro. unfold wr_ret. rewrite Hro.
  destruct (ensure_group (sto s) pa (TS cg)) as [s1 ca] eqn:Eg.
  eexists; eexists. split; [reflexivity|]. split; [reflexivity|]. cbn.
  right. exists pa, cg. rewrite Eg. reflexivity.
Qed.
Lemma steps_ensure_unit pa cg :
  steps plus_container (bind (wr_ret (fun s => ensure_group s pa (TS cg))) (fun _ => ret tt)).
Proof.
  intros s Hro. destruct (steps_ensure pa cg s Hro) as [s1 [x [E1 [R1 HR]]]].
  exists s1, tt. unfold bind. rewrite E1. cbn. auto.
Qed.

Definition pre_container (pk : ekind) (c : ckind) : bool :=
  match pk, c with
  | KSource, CSources => true
  | KSection, (CSections | CProperties) => true
  | _, _ => false
  end.

Ltac plus_ro := apply (atomic_bind_ro plus_container plus_container_refl); [solve [readonly_tac] | intros].

Theorem api_create_atomic_nested ph c n t d now s s' e p :
  ro s = false -> nth_error (hs s) (N.to_nat ph) = Some p -> pre_container (hk p) c = true ->
  api_create ph c n t d now s = (s', inr e) -> plus_container (sto s) (sto s').
Proof.
  intros Hro Hp Hc E. unfold api_create in E.
  unfold bind at 1 in E. unfold the_handle at 1 in E. rewrite Hp in E.
  assert (A : forall (m : M N), atomic plus_container m -> m s = (s', inr e) -> plus_container (sto s) (sto s')).
  { intros m Hm Em. exact (Hm s s' e Hro Em). }
  destruct (hk p) eqn:Ek; destruct c; try discriminate; cbn [has_container guard] in E.
  - (* Source / sources *)
    revert E. apply A. plus_ro. plus_ro.
    apply atomic_after_steps; [apply steps_ensure_unit | intros].
    same_ro. same_ro.
    apply atomic_create_tail; [apply atomic_entity_create_new | apply ro_entity_create_new | intros; total_tac].
  - (* Section / sections *)
    revert E. apply A. plus_ro. plus_ro.
    apply atomic_after_steps; [apply steps_ensure | intros].
    same_ro. same_ro.
    apply atomic_create_tail; [apply atomic_entity_create_new | apply ro_entity_create_new | intros; total_tac].
  - (* Section / properties *)
    revert E. apply A. plus_ro.
    apply atomic_after_steps; [apply steps_ensure | intros].
    same_ro. same_ro. same_ro. same_ro.
    apply (atomic_of_total same). total_tac.
Qed.
