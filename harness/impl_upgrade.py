"""Implementation side of C18: crafted old-format files, nixio.cmd.upgrade with an interruption at
the k-th re-opening of the file for writing, abstract state read back with plain h5py."""
import json
import os
import sys
import uuid

import h5py
import numpy as np
import nixio
import nixio.cmd.upgrade as up

VLEN = h5py.string_dtype(encoding="utf-8")
SUFFIX = ["uncertainty", "reference", "filename", "encoder", "checksum"]


def enc_str(s):
    return s


def craft(path, spec):
    """spec: {version, has_id, props: [{name, vtype, values, unit, definition, unc, ref, file, enc, chk}], dims: [state]}"""
    with h5py.File(path, "w") as h:
        h.attrs["format"] = b"nix"
        h.attrs["version"] = np.array(spec["version"], dtype=np.int32)
        h.attrs["created_at"] = "20200101T000000"
        h.attrs["updated_at"] = "20200101T000000"
        if spec["has_id"]:
            h.attrs["id"] = str(uuid.uuid4())
        data = h.create_group("data", track_order=True)
        md = h.create_group("metadata", track_order=True)
        sec = md.create_group("sec", track_order=True)
        for k, v in (("name", "sec"), ("type", "t"), ("entity_id", str(uuid.uuid4())),
                     ("created_at", "20200101T000000"), ("updated_at", "20200101T000000")):
            sec.attrs[k] = v
        if spec.get("linker"):
            # another section, visited BEFORE "sec", whose `link` points at "sec": the properties are then first reached
            # through /metadata/aaa/link/...
            lk = md.create_group("aaa", track_order=True)
            for k, v in (("name", "aaa"), ("type", "t"), ("entity_id", str(uuid.uuid4())),
                         ("created_at", "20200101T000000"), ("updated_at", "20200101T000000")):
                lk.attrs[k] = v
            lk["link"] = sec
        pg = sec.create_group("properties", track_order=True)
        for p in spec["props"]:
            vt = {"int": np.int64, "float": np.float64, "bool": np.bool_, "str": VLEN, "uint64": np.uint64, "int32": np.int32,
                  "uint8": np.uint8, "int8": np.int8, "uint32": np.uint32, "float32": np.float32}[p["vtype"]]
            if p["new"]:
                vals = p["values"] if p["vtype"] != "str" else [str(x) for x in p["values"]]
                ds = pg.create_dataset(p["name"], data=np.array(vals, dtype=vt) if p["vtype"] != "str" else vals,
                                       dtype=vt, chunks=True)
            else:
                dt = np.dtype([("value", vt), ("uncertainty", np.float64), ("reference", VLEN), ("filename", VLEN),
                               ("encoder", VLEN), ("checksum", VLEN)])
                n = len(p["values"])
                arr = np.zeros(n, dtype=dt)
                for i in range(n):
                    val = p["values"][i]
                    arr[i] = (str(val) if p["vtype"] == "str" else val, p["unc"][i], p["ref"][i], p["file"][i],
                              p["enc"][i], p["chk"][i])
                ds = pg.create_dataset(p["name"], data=arr, chunks=True)
            ds.attrs["name"] = p["name"]
            ds.attrs["entity_id"] = str(uuid.uuid4())
            ds.attrs["created_at"] = "20200101T000000"
            ds.attrs["updated_at"] = "20200101T000000"
            if p["unit"] is not None:
                ds.attrs["unit"] = p["unit"]
            if p["definition"] is not None:
                ds.attrs["definition"] = p["definition"]
        blk = data.create_group("blk", track_order=True)
        for k, v in (("name", "blk"), ("type", "t"), ("entity_id", str(uuid.uuid4())),
                     ("created_at", "20200101T000000"), ("updated_at", "20200101T000000")):
            blk.attrs[k] = v
        das = blk.create_group("data_arrays", track_order=True)
        for j, st in enumerate(spec["dims"]):
            da = das.create_group("da%d" % j, track_order=True)
            daid = str(uuid.uuid4())
            for k, v in (("name", "da%d" % j), ("type", "t"), ("entity_id", daid),
                         ("created_at", "20200101T000000"), ("updated_at", "20200101T000000")):
                da.attrs[k] = v
            da.create_dataset("data", data=np.arange(4.0) + j, maxshape=(None,), chunks=True)
            dims = da.create_group("dimensions", track_order=True)
            d = dims.create_group("1", track_order=True)
            d.attrs["dimension_type"] = "range"
            d.attrs["entity_id"] = str(uuid.uuid4())
            if st == "alias":
                d[daid] = da
            elif st == "ticks":
                d.create_dataset("ticks", data=np.arange(4.0))
            elif st == "linked":
                lk = d.create_group("link", track_order=True)
                lk.attrs["entity_id"] = str(uuid.uuid4())
                lk.attrs["data_object_type"] = "DataArray"
                lk.attrs["index"] = [-1]
                lk.attrs["created_at"] = "20200101T000000"
                lk.attrs["updated_at"] = "20200101T000000"
                lk[daid] = da


def zval(vtype, x):
    if vtype == "str":
        s = x.decode() if isinstance(x, bytes) else str(x)
        return int(s) if s.lstrip("-").isdigit() else sum((i + 1) * ord(c) for i, c in enumerate(s))
    return int(x)


def tostr(x):
    return x.decode() if isinstance(x, bytes) else str(x)


def abstract(path, spec):
    """the abstract state of coq/Pure/Upgrade.v read from the file with h5py"""
    out = {}
    with h5py.File(path, "r") as h:
        out["version"] = [int(v) for v in h.attrs["version"]]
        fid = h.attrs.get("id")
        if isinstance(fid, bytes):
            fid = fid.decode()
        out["has_id"] = bool(fid) and nixio.util.is_uuid(fid)
        pg = h["metadata/sec/properties"]
        props = []
        for p in spec["props"]:
            ds = pg[p["name"]]

            def attr(k):
                v = ds.attrs.get(k)
                if isinstance(v, bytes):
                    v = v.decode()
                return v
            if len(ds.dtype):
                arr = ds[:]
                props.append({"kind": "old", "values": [zval(p["vtype"], x) for x in arr["value"]],
                              "unit": attr("unit"), "definition": attr("definition"),
                              "unc": [int(x) for x in arr["uncertainty"]],
                              "ref": [tostr(x) for x in arr["reference"]], "file": [tostr(x) for x in arr["filename"]],
                              "enc": [tostr(x) for x in arr["encoder"]], "chk": [tostr(x) for x in arr["checksum"]]})
            else:
                derived = []
                for code, suf in enumerate(SUFFIX):
                    nm = p["name"] + "." + suf
                    if nm in pg:
                        dd = pg[nm][:]
                        derived.append([code, [int(x) for x in dd] if code == 0 else [tostr(x) for x in dd]])
                ua = ds.attrs.get("uncertainty")
                props.append({"kind": "new", "values": [zval(p["vtype"], x) for x in ds[:]], "unit": attr("unit"),
                              "definition": attr("definition"), "unc_attr": None if ua is None else int(ua),
                              "derived": derived})
        out["props"] = props
        dims = []
        for j, _ in enumerate(spec["dims"]):
            da = h["data/blk/data_arrays/da%d" % j]
            d = da["dimensions/1"]
            daid = da.attrs["entity_id"]
            if isinstance(daid, bytes):
                daid = daid.decode()
            if "link" in d:
                dims.append("linked")
            elif "ticks" in d:
                dims.append("ticks")
            elif daid in d:
                dims.append("alias")
            else:
                dims.append("none")
        out["dims"] = dims
    return out


class Cut(Exception):
    pass


class H5Proxy(object):
    """stands in for the module `h5py` inside nixio.cmd.upgrade: the k-th File(..., mode='a') raises"""

    def __init__(self, k):
        self.k = k
        self.n = 0

    def File(self, name, mode="r", **kw):
        if mode == "a":
            self.n += 1
            if self.k is not None and self.n > self.k:
                raise Cut("interrupted before write-open number %d" % self.n)
        return h5py.File(name, mode=mode, **kw)

    def __getattr__(self, name):
        return getattr(h5py, name)


def nix_view(path):
    """what nixio shows of the upgraded file when opened for WRITING"""
    try:
        f = nixio.File.open(path, nixio.FileMode.ReadWrite)
    except Exception as exc:
        return {"open": "failed: " + type(exc).__name__}
    out = {"open": "ok", "version": [int(x) for x in f.version]}
    try:
        sec = f.sections["sec"]
        out["props"] = {p.name: [str(v) for v in p.values] for p in sec.props}
        out["units"] = {p.name: p.unit for p in sec.props}
        arrs = {}
        for da in f.blocks["blk"].data_arrays:
            dim = da.dimensions[0]
            arrs[da.name] = {"data": [float(x) for x in da[:]], "ticks": [float(x) for x in dim.ticks],
                             "type": str(dim.dimension_type)}
        out["arrays"] = arrs
    except Exception as exc:
        out["read_error"] = type(exc).__name__ + ": " + str(exc)[:100]
    f.close()
    return out


def main():
    real_stdout = sys.stdout
    sys.stdout = sys.stderr          # file_upgrade prints on failure
    try:
        res = work()
    finally:
        sys.stdout = real_stdout
    json.dump(res, sys.stdout)


def work():
    req = json.load(sys.stdin)
    wd = os.getcwd()
    out = []
    for k, case in enumerate(req["cases"]):
        spec, cut = case["spec"], case["cut"]
        path = os.path.join(wd, "u%d.nix" % k)
        craft(path, spec)
        before = abstract(path, spec)
        proxy = H5Proxy(cut)
        up.h5py = proxy
        r1 = up.file_upgrade(path)
        up.h5py = h5py
        after_cut = abstract(path, spec)
        r2 = up.file_upgrade(path)
        after_resume = abstract(path, spec)
        tasks, _, _ = up.collect_tasks(path)
        view = nix_view(path)
        r3 = up.file_upgrade(path)
        again = abstract(path, spec)
        os.remove(path)
        out.append({"before": before, "after_cut": after_cut, "after_resume": after_resume, "ret": [bool(r1), bool(r2), bool(r3)],
                    "tasks_left": len(tasks), "write_opens": proxy.n, "view": view, "again_same": again == after_resume})
    return out


main()
