(* Proofs/MonadLemmas.v -- properties that hold of EVERY program built from the primitive
   commands of Nix/Api.v, hence of every modelled API call at once (C11):
     1. a program never changes the open mode;
     2. on a read-only file a program never changes the store;
     3. if the read-only run succeeds, the writable run of the same program from the same state
        returns the same value and writes nothing (so: a call that would change the file fails
        when the file is read-only, and reads return the same in both kinds of session). *)
From NixV Require Import Base.Prelude H5.Store Nix.Api.
From Coq Require Import Lia.
Open Scope N_scope.

Definition set_ro (s : st) (b : bool) : st := mkSt (sto s) (hs s) (auto s) b (nid s).

Definition good {A} (m : M A) : Prop :=
  (forall s, ro (fst (m s)) = ro s) /\
  (forall s, ro s = true -> sto (fst (m s)) = sto s) /\
  (forall s t' x, ro s = false -> m (set_ro s true) = (t', inl x) ->
     exists t, m s = (t, inl x) /\ sto t = sto s /\ t' = set_ro t true).

Lemma set_ro_id s : ro s = true -> set_ro s true = s.
Proof. destruct s; cbn; intros ->; reflexivity. Qed.

Lemma good_ret {A} (x : A) : good (ret x).
Proof.
  repeat split; cbn; auto. intros s t' y _ E. injection E as <- <-. exists s. auto.
Qed.
Lemma good_fail {A} (e : err) : good (@fail A e).
Proof. repeat split; cbn; auto. intros s t' y _ E. discriminate. Qed.

Lemma good_bind {A B} (m : M A) (k : A -> M B) : good m -> (forall x, good (k x)) -> good (bind m k).
Proof.
  intros [M1 [M2 M3]] K. split; [|split].
  - intros s. unfold bind. specialize (M1 s). destruct (m s) as [s1 [x|e]]; cbn in *; [|exact M1].
    destruct (K x) as [K1 _]. rewrite K1. exact M1.
  - intros s Hro. unfold bind. specialize (M1 s). specialize (M2 s Hro).
    destruct (m s) as [s1 [x|e]]; cbn in *; [|exact M2].
    destruct (K x) as [_ [K2 _]]. rewrite K2 by congruence. exact M2.
  - intros s t' y Hro E. unfold bind in E.
    destruct (m (set_ro s true)) as [t1' [x|e]] eqn:Em; [|discriminate].
    destruct (M3 s t1' x Hro Em) as [t1 [E1 [S1 R1]]].
    assert (Hro1 : ro t1 = false).
    { specialize (M1 s). rewrite E1 in M1. cbn in M1. congruence. }
    subst t1'. destruct (K x) as [_ [_ K3]].
    destruct (K3 t1 t' y Hro1 E) as [t [E2 [S2 R2]]].
    exists t. unfold bind. rewrite E1. split; [exact E2|]. split; [congruence | exact R2].
Qed.

Lemma good_get_st : good get_st.
Proof.
  repeat split; cbn; auto. intros s t' x _ E. injection E as <- <-. exists s. auto.
Qed.
Lemma good_rd {A} (f : store -> A) : good (rd f).
Proof.
  repeat split; cbn; auto. intros s t' x _ E. injection E as <- <-. exists s. auto.
Qed.
Lemma good_wr f : good (wr f).
Proof.
  split; [|split].
  - intros s. unfold wr. destruct (ro s) eqn:E; cbn; congruence.
  - intros s H. unfold wr. rewrite H. reflexivity.
  - intros s t' x _ E. unfold wr in E. cbn in E. discriminate.
Qed.
Lemma good_wr_ret {A} (f : store -> store * A) : good (wr_ret f).
Proof.
  split; [|split].
  - intros s. unfold wr_ret. destruct (ro s) eqn:E; cbn; [congruence|].
    destruct (f (sto s)). cbn. reflexivity.
  - intros s H. unfold wr_ret. rewrite H. reflexivity.
  - intros s t' x _ E. unfold wr_ret in E. cbn in E. discriminate.
Qed.
Lemma good_gen_id : good gen_id.
Proof.
  repeat split; cbn; auto. intros s t' x _ E. injection E as <- <-.
  eexists. split; [reflexivity|]. split; reflexivity.
Qed.
Lemma good_new_handle h : good (new_handle h).
Proof.
  repeat split; cbn; auto. intros s t' x _ E. injection E as <- <-.
  eexists. split; [reflexivity|]. split; reflexivity.
Qed.
Lemma good_the_handle i : good (the_handle i).
Proof.
  split; [|split].
  - intros s. unfold the_handle. destruct (nth_error _ _); reflexivity.
  - intros s _. unfold the_handle. destruct (nth_error _ _); reflexivity.
  - intros s t' x _ E. unfold the_handle in *. cbn in E.
    destruct (nth_error (hs s) (N.to_nat i)); [|discriminate]. injection E as <- <-.
    exists s. auto.
Qed.
Lemma good_guard b e : good (guard b e).
Proof. destruct b; [apply good_ret | apply good_fail]. Qed.
Lemma good_lift_sum {A} (x : A + err) : good (lift_sum x).
Proof. destruct x; [apply good_ret | apply good_fail]. Qed.

#[export] Hint Resolve good_ret good_fail good_get_st good_rd good_wr good_wr_ret good_gen_id
  good_new_handle good_the_handle good_guard good_lift_sum : good.

Ltac good_step :=
  first
    [ apply good_bind; [| intros ]
    | solve [auto with good]
    | match goal with |- good (match ?x with _ => _ end) => destruct x end
    | match goal with |- good (if ?x then _ else _) => destruct x end ].
Ltac good_tac := repeat good_step.

Lemma good_touch_updated a now : good (touch_updated a now).
Proof. unfold touch_updated. good_tac. Qed.
Lemma good_touch_created a now : good (touch_created a now).
Proof. unfold touch_created. good_tac. Qed.
#[export] Hint Resolve good_touch_updated good_touch_created : good.
Lemma good_auto_touch a now : good (auto_touch a now).
Proof. unfold auto_touch. good_tac. Qed.
Lemma good_check_name_type n t : good (check_name_type n t).
Proof. unfold check_name_type. good_tac. Qed.
Lemma good_auto_touch_for c n a now : good (auto_touch_for c n a now).
Proof. unfold auto_touch_for. destruct (touches c n); [apply good_auto_touch | apply good_ret]. Qed.
#[export] Hint Resolve good_auto_touch good_check_name_type good_auto_touch_for : good.
Lemma good_entity_create_new pa cg n t now : good (entity_create_new pa cg n t now).
Proof. unfold entity_create_new. good_tac. Qed.
Lemma good_write_payload a d l : good (write_payload a d l).
Proof. unfold write_payload. good_tac. Qed.
Lemma good_resolve_key k : good (resolve_key k).
Proof. unfold resolve_key. good_tac. Qed.
Lemma good_group_delete p a g k b : good (group_delete p a g k b).
Proof. unfold group_delete. good_tac. Qed.
#[export] Hint Resolve good_entity_create_new good_write_payload good_resolve_key good_group_delete : good.

Lemma good_api_create ph c n t d now : good (api_create ph c n t d now).
Proof. unfold api_create. good_tac. Qed.
Lemma good_api_create_mtag ph n t pos now : good (api_create_mtag ph n t pos now).
Proof. unfold api_create_mtag. good_tac. Qed.
Lemma good_api_create_feature th dh l now : good (api_create_feature th dh l now).
Proof. unfold api_create_feature. good_tac. Qed.
Lemma good_api_lookup ph c k : good (api_lookup ph c k).
Proof. unfold api_lookup. good_tac. Qed.
Lemma good_api_lookup_link ph l k : good (api_lookup_link ph l k).
Proof. unfold api_lookup_link. good_tac. Qed.
Lemma good_api_delete ph c k : good (api_delete ph c k).
Proof. unfold api_delete. good_tac. Qed.
Lemma good_api_append ph l x : good (api_append ph l x).
Proof. unfold api_append. good_tac. Qed.
Lemma good_api_remove ph l k : good (api_remove ph l k).
Proof. unfold api_remove. good_tac. Qed.
Lemma good_api_set_link ph r x now : good (api_set_link ph r x now).
Proof. unfold api_set_link. good_tac. Qed.
Lemma good_api_set_attr ph a v now : good (api_set_attr ph a v now).
Proof. unfold api_set_attr. good_tac. Qed.
Lemma good_api_force ph c t : good (api_force ph c t).
Proof. unfold api_force. good_tac. Qed.
Lemma good_api_find ph l f : good (api_find ph l f).
Proof. unfold api_find. good_tac. Qed.
Lemma good_api_parent ph w : good (api_parent ph w).
Proof. unfold api_parent. good_tac. Qed.
Lemma good_api_referring ph c : good (api_referring ph c).
Proof. unfold api_referring. good_tac. Qed.
Lemma good_api_probe ph c : good (api_probe ph c).
Proof. unfold api_probe. good_tac. Qed.
Lemma good_api_probe_link ph l : good (api_probe_link ph l).
Proof. unfold api_probe_link. good_tac. Qed.

Lemma good_gen_ids k : good (gen_ids k).
Proof.
  repeat split; cbn; auto. intros s t' x _ E. injection E as <- <-.
  eexists. split; [reflexivity|]. split; reflexivity.
Qed.
Lemma good_n_nodes : good n_nodes.
Proof. unfold n_nodes. auto with good. Qed.
#[export] Hint Resolve good_gen_ids good_n_nodes : good.
Lemma good_copy_props pg props keep : good (copy_props pg props keep).
Proof. revert pg; induction props as [|[k pa] rest IH]; intros pg; cbn [copy_props]; [apply good_ret|].
  good_tac; try apply IH. Qed.
#[export] Hint Resolve good_copy_props : good.
Lemma good_api_copy d x n k c : good (api_copy d x n k c).
Proof. unfold api_copy. good_tac. Qed.

(* ---- lifted to the operations of a history *)
Definition is_reopen (o : op) : bool := match o with OReopen _ => true | _ => false end.

Lemma wrapN_sto (m : M N) s : fst (wrapN m s) = fst (m s).
Proof. unfold wrapN. destruct (m s) as [s' [h|e]]; reflexivity. Qed.
Lemma wrapU_sto (m : M unit) s : fst (wrapU m s) = fst (m s).
Proof. unfold wrapU. destruct (m s) as [s' [h|e]]; reflexivity. Qed.
Lemma wrapT_sto (m : M (list wtok)) s : fst (wrapT m s) = fst (m s).
Proof. unfold wrapT. destruct (m s) as [s' [h|e]]; reflexivity. Qed.

(* every operation except reopen is a good program *)
Definition op_prog (o : op) (now : Z) : option (M N + M unit) :=
  match o with
  | OCreate p c n t d => Some (inl (api_create p c n t d now))
  | OCreateMTag p n t pos => Some (inl (api_create_mtag p n t pos now))
  | OCreateFeature t d l => Some (inl (api_create_feature t d l now))
  | OLookup p c k => Some (inl (api_lookup p c k))
  | OLookupLink p l k => Some (inl (api_lookup_link p l k))
  | ODelete p c k => Some (inr (api_delete p c k))
  | OAppend p l x => Some (inr (api_append p l x))
  | ORemove p l k => Some (inr (api_remove p l k))
  | OSetLink p r x => Some (inr (api_set_link p r x now))
  | OSetAttr p a v => Some (inr (api_set_attr p a v now))
  | OForce p c t => Some (inr (api_force p c t))
  | OCopy d x n k c => Some (inl (api_copy d x n k c))
  | OFind _ _ _ | OParent _ _ | OReferring _ _ | OProbe _ _ | OProbeLink _ _ | OSetAuto _ | OReopen _ => None
  end.

Theorem ro_immutable o now s : ro s = true -> is_reopen o = false ->
  sto (fst (exec o now s)) = sto s.
Proof.
  intros Hro Hr. destruct o; cbn [exec]; try discriminate;
    try (rewrite wrapN_sto); try (rewrite wrapU_sto); try (rewrite wrapT_sto);
    try match goal with
        | |- sto (fst (?m s)) = sto s =>
            let G := fresh in
            assert (G : good m) by
              first [ apply good_api_create | apply good_api_create_mtag | apply good_api_create_feature
                    | apply good_api_lookup | apply good_api_lookup_link | apply good_api_delete
                    | apply good_api_append | apply good_api_remove | apply good_api_set_link
                    | apply good_api_set_attr | apply good_api_force | apply good_api_probe | apply good_api_probe_link
                    | apply good_api_find | apply good_api_parent | apply good_api_referring | apply good_api_copy ];
            destruct G as [_ [G _]]; apply G; exact Hro
        end.
  reflexivity.
Qed.

(* the read-only twin of a writable state *)
Theorem ro_success_means_no_write o now s r t' :
  ro s = false -> is_reopen o = false ->
  exec o now (set_ro s true) = (t', r) -> (forall e, r <> RErr e) ->
  exists t, exec o now s = (t, r) /\ sto t = sto s.
Proof.
  intros Hro Hr E Hok.
  assert (TwinN : forall m : M N, good m -> wrapN m (set_ro s true) = (t', r) ->
                  exists t, wrapN m s = (t, r) /\ sto t = sto s).
  { intros m [_ [_ G]] Em. unfold wrapN in Em.
    destruct (m (set_ro s true)) as [t1 [h|e]] eqn:E1.
    - injection Em as <- <-. destruct (G s t1 h Hro E1) as [t [E2 [S2 _]]].
      exists t. unfold wrapN. rewrite E2. auto.
    - injection Em as <- <-. exfalso. eapply Hok. reflexivity. }
  assert (TwinU : forall m : M unit, good m -> wrapU m (set_ro s true) = (t', r) ->
                  exists t, wrapU m s = (t, r) /\ sto t = sto s).
  { intros m [_ [_ G]] Em. unfold wrapU in Em.
    destruct (m (set_ro s true)) as [t1 [h|e]] eqn:E1.
    - injection Em as <- <-. destruct (G s t1 h Hro E1) as [t [E2 [S2 _]]].
      exists t. unfold wrapU. rewrite E2. auto.
    - injection Em as <- <-. exfalso. eapply Hok. reflexivity. }
  assert (TwinT : forall m : M (list wtok), good m -> wrapT m (set_ro s true) = (t', r) ->
                  exists t, wrapT m s = (t, r) /\ sto t = sto s).
  { intros m [_ [_ G]] Em. unfold wrapT in Em.
    destruct (m (set_ro s true)) as [t1 [h|e]] eqn:E1.
    - injection Em as <- <-. destruct (G s t1 h Hro E1) as [t [E2 [S2 _]]].
      exists t. unfold wrapT. rewrite E2. auto.
    - injection Em as <- <-. exfalso. eapply Hok. reflexivity. }
  destruct o; cbn [exec] in *; try discriminate.
  - apply TwinN; [apply good_api_create | exact E].
  - apply TwinN; [apply good_api_create_mtag | exact E].
  - apply TwinN; [apply good_api_create_feature | exact E].
  - apply TwinN; [apply good_api_lookup | exact E].
  - apply TwinN; [apply good_api_lookup_link | exact E].
  - apply TwinU; [apply good_api_delete | exact E].
  - apply TwinU; [apply good_api_append | exact E].
  - apply TwinU; [apply good_api_remove | exact E].
  - apply TwinU; [apply good_api_set_link | exact E].
  - apply TwinU; [apply good_api_set_attr | exact E].
  - apply TwinU; [apply good_api_force | exact E].
  - apply TwinT; [apply good_api_find | exact E].
  - apply TwinT; [apply good_api_parent | exact E].
  - apply TwinT; [apply good_api_referring | exact E].
  - apply TwinT; [apply good_api_probe | exact E].
  - apply TwinT; [apply good_api_probe_link | exact E].
  - apply TwinN; [apply good_api_copy | exact E].
  - injection E as <- <-. eexists. split; reflexivity.
Qed.

(* hence: an operation that changes the file in a writable session fails in a read-only one *)
Corollary ro_mutators_fail o now s :
  ro s = false -> is_reopen o = false ->
  sto (fst (exec o now s)) <> sto s ->
  exists e, snd (exec o now (set_ro s true)) = RErr e.
Proof.
  intros Hro Hr Hch.
  destruct (exec o now (set_ro s true)) as [t' r] eqn:E. cbn.
  destruct r as [h|l|e]; [| |exists e; reflexivity].
  - exfalso. destruct (ro_success_means_no_write o now s (ROk h) t' Hro Hr E) as [t [E2 S2]];
      [intros e; discriminate|].
    apply Hch. rewrite E2. exact S2.
  - exfalso. destruct (ro_success_means_no_write o now s (RToks l) t' Hro Hr E) as [t [E2 S2]];
      [intros e; discriminate|].
    apply Hch. rewrite E2. exact S2.
Qed.
