(* Props/C17.v -- flush() and close() make everything written so far survive a process kill.
   ONLY property theorems.  Model: Pure/Durable.v.  File.flush / File.close are the call sequences
   translated from nixio/file.py on every run (Gen/FileConsts.v): if flush() stopped calling the
   HDF5 flush, these proofs would no longer check.  What H5Fflush / H5Fclose do to the bytes on
   disk is the model's assumption (trusted base) and is what the kill experiment exercises. *)
From NixV Require Import Base.Prelude Gen.FileConsts Pure.Durable Proofs.DurableProofs Proofs.DurableProofs2.

(* any history of writes, reads and earlier flushes; then flush(); then only reads; then SIGKILL:
   a later open finds exactly the content at the moment of the flush - which is what the writes
   of the history made it *)
Theorem c17_flush_then_kill : forall (content : Type) h reads (s0 : dstate content),
  is_open _ s0 = true -> (forall o, In o h -> o <> DClose _) -> (forall o, In o reads -> o = DRead _) ->
  after_kill _ (drun _ (h ++ [DFlush _] ++ reads) s0) = Some (apply_writes _ h (live _ s0)).
Proof.
  intros content h reads s0 Ho Hnc Hr. destruct (live_is_writes content h s0 Hnc Ho) as [A B].
  rewrite <- A. apply flush_then_kill; assumption.
Qed.
Print Assumptions c17_flush_then_kill.

Theorem c17_close_then_kill : forall (content : Type) h (s0 : dstate content),
  is_open _ s0 = true -> (forall o, In o h -> o <> DClose _) ->
  after_kill _ (drun _ (h ++ [DClose _]) s0) = Some (apply_writes _ h (live _ s0)).
Proof.
  intros content h s0 Ho Hnc. destruct (live_is_writes content h s0 Hnc Ho) as [A B].
  rewrite <- A. apply close_then_kill; assumption.
Qed.
Print Assumptions c17_close_then_kill.

(* without the flush nothing is promised: the model leaves the outcome of a kill open (this is the
   non-vacuity side: the theorems above are not true of an arbitrary flush body) *)
Example c17_no_flush_no_promise :
  after_kill nat (drun nat [DWrite nat S] (mkD nat 0 (Some 0) true)) = None /\
  after_kill nat (drun nat [DWrite nat S; DFlush nat] (mkD nat 0 (Some 0) true)) = Some 1.
Proof. split; reflexivity. Qed.

(* any history, close(), then ANY later calls (all refused on a closed file), then the kill: a later
   open finds the content at the close *)
Theorem c17_close_then_anything : forall (content : Type) h ops (s0 : dstate content),
  is_open _ s0 = true -> (forall o, In o h -> o <> DClose _) ->
  after_kill _ (drun _ (h ++ [DClose _] ++ ops) s0) = Some (apply_writes _ h (live _ s0)).
Proof. exact close_then_anything. Qed.
Print Assumptions c17_close_then_anything.

(* flush() twice is flush() once *)
Theorem c17_flush_idempotent : forall (content : Type) (s : dstate content),
  dstep _ (dstep _ s (DFlush _)) (DFlush _) = dstep _ s (DFlush _).
Proof. exact flush_idempotent. Qed.
Print Assumptions c17_flush_idempotent.

(* whatever File.flush / File.close are translated to, the model never promises an OLD content:
   from a state whose disk is current or unspecified, every history leaves it current or unspecified *)
Theorem c17_never_stale : forall (content : Type) ops (s : dstate content),
  fresh _ s -> fresh _ (drun _ ops s).
Proof. exact never_stale. Qed.
Print Assumptions c17_never_stale.
