(* Proofs/DurableProofs.v -- after flush() or close() has returned, a kill (with no write in
   between) leaves exactly the state at that moment. *)
From NixV Require Import Base.Prelude Gen.FileConsts Pure.Durable.
From Coq Require Import Lia.

Section P.
  Variable content : Type.
  Notation dstate := (dstate content).

  Lemma flush_durable (s : dstate) : is_open _ s = true ->
    let s' := dstep _ s (DFlush _) in
    after_kill _ s' = Some (live _ s) /\ live _ s' = live _ s /\ is_open _ s' = true.
  Proof. intros H. cbn. unfold run_body, file_flush_body. cbn. rewrite H. cbn. auto. Qed.

  Lemma close_durable (s : dstate) : is_open _ s = true ->
    let s' := dstep _ s (DClose _) in
    after_kill _ s' = Some (live _ s) /\ live _ s' = live _ s /\ is_open _ s' = false.
  Proof. intros H. cbn. unfold run_body, file_close_body. cbn. rewrite H. cbn. auto. Qed.

  (* calls that do not write keep what a kill would leave *)
  Lemma reads_keep ops : forall s : dstate, forallb (fun o => negb (is_write _ o)) ops = true ->
    (forall o, In o ops -> o = DRead _) ->
    drun _ ops s = s.
  Proof. induction ops as [|o ops IH]; intros s H1 H2; cbn; [reflexivity|].
    rewrite (H2 o (or_introl eq_refl)). cbn. apply IH.
    - cbn in H1. apply andb_prop in H1. tauto.
    - intros o' Ho. apply H2. now right. Qed.

  (* every history: h, then flush, then only reads, then the kill *)
  Theorem flush_then_kill h reads (s0 : dstate) :
    is_open _ (drun _ h s0) = true -> (forall o, In o reads -> o = DRead _) ->
    after_kill _ (drun _ (h ++ [DFlush _] ++ reads) s0) = Some (live _ (drun _ h s0)).
  Proof.
    intros Ho Hr. unfold drun. rewrite !fold_left_app. fold (drun _ h s0). cbn [fold_left].
    fold (drun _ reads (dstep _ (drun _ h s0) (DFlush _))). rewrite reads_keep.
    - apply flush_durable. exact Ho.
    - apply forallb_forall. intros o Hin. rewrite (Hr o Hin). reflexivity.
    - exact Hr.
  Qed.
  Theorem close_then_kill h (s0 : dstate) :
    is_open _ (drun _ h s0) = true ->
    after_kill _ (drun _ (h ++ [DClose _]) s0) = Some (live _ (drun _ h s0)).
  Proof.
    intros Ho. unfold drun. rewrite fold_left_app. fold (drun _ h s0). cbn [fold_left]. apply close_durable. exact Ho.
  Qed.

  (* the live content after a history is what its writes make it (flushes and reads do not change it) *)
  Fixpoint apply_writes (ops : list (dop content)) (c : content) : content :=
    match ops with
    | [] => c
    | DWrite _ f :: r => apply_writes r (f c)
    | _ :: r => apply_writes r c
    end.
  Lemma run_body_live body (s : dstate) : live _ (run_body _ body s) = live _ s.
  Proof. revert s; induction body as [|c body IH]; intros s; cbn; [reflexivity|]. unfold run_body in IH. rewrite IH.
    destruct c; cbn; destruct (is_open _ s); reflexivity. Qed.
  Lemma run_body_open_flush (s : dstate) : is_open _ (run_body _ file_flush_body s) = is_open _ s.
  Proof. unfold run_body, file_flush_body. cbn. destruct (is_open _ s) eqn:E; cbn; auto. Qed.
  Theorem live_is_writes h : forall s0 : dstate, (forall o, In o h -> o <> DClose _) -> is_open _ s0 = true ->
    live _ (drun _ h s0) = apply_writes h (live _ s0) /\ is_open _ (drun _ h s0) = true.
  Proof.
    induction h as [|o h IH]; intros s0 Hnc Ho; cbn; [auto|].
    assert (Hnc' : forall o', In o' h -> o' <> DClose _) by (intros o' Hi; apply Hnc; now right).
    destruct o as [f| | |].
    - cbn. rewrite Ho. apply (IH (mkD _ (f (live _ s0)) None true) Hnc' eq_refl).
    - apply (IH s0 Hnc' Ho).
    - cbn. destruct (IH (run_body _ file_flush_body s0) Hnc') as [A B].
      + rewrite run_body_open_flush. exact Ho.
      + rewrite run_body_live in A. auto.
    - exfalso. apply (Hnc (DClose _)); [now left|reflexivity].
  Qed.
End P.
