"""Shared machinery of every check: translate -> build -> assumption audit -> correspondence
-> verdict -> evidence.  See DESIGN.md section 3.4."""
import fcntl
import glob
import json
import os
import re
import shutil
import subprocess
import sys
import time

HERE = os.path.dirname(os.path.abspath(__file__))
VERIF = os.path.dirname(HERE)
COQ = os.path.join(VERIF, "coq")
WORK = os.path.join(VERIF, "work")
PY = "/venv/bin/python"
sys.path.insert(0, HERE)
import translate as T  # noqa: E402

# axioms a property theorem may depend on (each is named in DESIGN.md section 4).
AXIOM_WHITELIST = set([
    # none needed so far: every property theorem is closed under the global context
])

FORBIDDEN = re.compile(
    r"\b(Admitted|admit|Axiom|Axioms|Parameter|Parameters|Conjecture|Conjectures|"
    r"Admit\s+Obligations|bypass_check|Unset\s+Guard\s+Checking|Unset\s+Positivity\s+Checking|"
    r"Unset\s+Universe\s+Checking|native_compute)\b")


def repo_dir():
    return os.environ.get("VERIF_REPO", "/repo")


def log(*a):
    print(*a, file=sys.stderr)
    sys.stderr.flush()


class BuildLock(object):
    def __enter__(self):
        self.f = open(os.path.join(VERIF, ".build.lock"), "w")
        fcntl.flock(self.f, fcntl.LOCK_EX)
        return self

    def __exit__(self, *a):
        fcntl.flock(self.f, fcntl.LOCK_UN)
        self.f.close()


def coq_sources():
    out = []
    for root, _dirs, files in os.walk(COQ):
        for f in files:
            if f.endswith(".v"):
                out.append(os.path.relpath(os.path.join(root, f), COQ))
    return sorted(out)


def ensure_makefile():
    """(re)generate _CoqProject and Makefile when the set of .v files changed"""
    srcs = coq_sources()
    text = "-Q . NixV\n-arg -w -arg -notation-overridden,-deprecated-hint-without-locality,-deprecated-instance-without-locality\n" + "\n".join(srcs) + "\n"
    proj = os.path.join(COQ, "_CoqProject")
    changed = T.write_if_changed(proj, text)
    if changed or not os.path.exists(os.path.join(COQ, "Makefile")):
        subprocess.run(["coq_makefile", "-f", "_CoqProject", "-o", "Makefile"], cwd=COQ,
                       check=True, capture_output=True)


def source_audit():
    """no Admitted/admit/Axiom/... anywhere in the development (comments stripped)"""
    bad = []
    for rel in coq_sources():
        with open(os.path.join(COQ, rel)) as f:
            txt = f.read()
        txt = strip_comments(txt)
        for mo in FORBIDDEN.finditer(txt):
            bad.append("%s: %s" % (rel, mo.group(0)))
    return bad


def strip_comments(txt):
    out = []
    depth = 0
    i = 0
    n = len(txt)
    while i < n:
        if txt.startswith("(*", i):
            depth += 1
            i += 2
        elif txt.startswith("*)", i) and depth > 0:
            depth -= 1
            i += 2
        else:
            if depth == 0:
                out.append(txt[i])
            i += 1
    return "".join(out)


def build(targets, timeout=1500, jobs=16):
    """make the given .vo targets (paths relative to coq/).  returns (ok, log_text)"""
    with BuildLock():
        ensure_makefile()
        cmd = ["timeout", str(timeout), "make", "-j%d" % jobs, "-k"] + list(targets)
        p = subprocess.run(cmd, cwd=COQ, capture_output=True, text=True)
        return p.returncode == 0, p.stdout + p.stderr


def vo_ok(rel_v):
    """is the .vo of this source present and newer than the source"""
    v = os.path.join(COQ, rel_v)
    vo = v + "o"
    return os.path.exists(vo) and os.path.getmtime(vo) >= os.path.getmtime(v)


def coqc(path, timeout=600, cwd=None):
    cmd = ["timeout", str(timeout), "coqc", "-Q", COQ, "NixV", "-w",
           "-notation-overridden,-deprecated-hint-without-locality", path]
    p = subprocess.run(cmd, capture_output=True, text=True, cwd=cwd or os.path.dirname(path))
    return p.returncode, p.stdout, p.stderr


def print_assumptions(prop_file_rel):
    """compile Props/Cxx.v (theorems closed by `exact`, each followed by Print Assumptions)
    and return (ok, {theorem: [axioms]}, raw).  A theorem with no axioms maps to []."""
    path = os.path.join(COQ, prop_file_rel)
    with BuildLock():
        rc, out, err = coqc(path, cwd=COQ)
    with open(path) as f:
        src = strip_comments(f.read())
    names = re.findall(r"Print\s+Assumptions\s+([A-Za-z0-9_'.]+)\s*\.", src)
    theorems = re.findall(r"\b(?:Theorem|Lemma|Corollary)\s+([A-Za-z0-9_']+)", src)
    res = {}
    if rc != 0:
        return False, res, out + err, theorems
    # split output in blocks, one per Print Assumptions, in order
    blocks = re.split(r"(?m)^(?=Closed under the global context|Axioms:)", out)
    blocks = [b for b in blocks if b.startswith("Closed under") or b.startswith("Axioms:")]
    if len(blocks) != len(names):
        return False, res, "cannot parse Print Assumptions output:\n" + out, theorems
    for n, b in zip(names, blocks):
        if b.startswith("Closed"):
            res[n] = []
        else:
            axs = re.findall(r"(?m)^([A-Za-z0-9_'.]+)\s*:", b[len("Axioms:"):])
            res[n] = axs
    return True, res, out, theorems


# ------------------------------------------------------------------ evaluating the model in Coq

def run_case_files(paths, timeout=900, jobs=16):
    """coqc each generated cases file in parallel; returns {path: (rc, stdout, stderr)}"""
    procs = {}
    pending = list(paths)
    running = []
    results = {}
    while pending or running:
        while pending and len(running) < jobs:
            p = pending.pop(0)
            cmd = ["timeout", str(timeout), "coqc", "-Q", COQ, "NixV", "-w", "none", p]
            pr = subprocess.Popen(cmd, stdout=subprocess.PIPE, stderr=subprocess.PIPE, text=True,
                                  cwd=os.path.dirname(p))
            running.append((p, pr))
        still = []
        for p, pr in running:
            if pr.poll() is None:
                still.append((p, pr))
            else:
                o, e = pr.communicate()
                results[p] = (pr.returncode, o, e)
        running = still
        if running:
            time.sleep(0.05)
    return results


def parse_evals(stdout):
    """the values printed by successive `Eval vm_compute in ...` as raw strings"""
    vals = []
    for mo in re.finditer(r"(?s)=\s(.*?)\n\s*:\s", stdout):
        vals.append(" ".join(mo.group(1).split()))
    return vals


def parse_N_list(text):
    text = text.strip()
    text = re.sub(r"%N|%Z|%nat", "", text)
    if text in ("[]", "nil"):
        return []
    assert text.startswith("[") and text.endswith("]"), text
    return [int(x) for x in text[1:-1].split(";") if x.strip()]


def shard(items, size):
    return [items[i:i + size] for i in range(0, len(items), size)]


def eval_failing(workdir, header, case_type, check_fn, case_terms, shard_size=400, tag="cases"):
    """Evaluate `failing check_fn [cases]` in Coq over shards.  Returns (failing global
    indices, errors)."""
    paths = []
    offs = []
    for k, sh in enumerate(shard(case_terms, shard_size)):
        p = os.path.join(workdir, "%s_%d.v" % (tag, k))
        with open(p, "w") as f:
            f.write(header + "\n")
            f.write("Definition cases : list (%s) := [\n  %s\n].\n" % (case_type, ";\n  ".join(sh)))
            f.write("Eval vm_compute in (failing (%s) cases).\n" % check_fn)
        paths.append(p)
        offs.append(k * shard_size)
    res = run_case_files(paths)
    failing = []
    errors = []
    for p, off in zip(paths, offs):
        rc, out, err = res[p]
        if rc != 0:
            errors.append("%s: rc=%s %s" % (os.path.basename(p), rc, (err or out)[-1500:]))
            continue
        vals = parse_evals(out)
        if len(vals) != 1:
            errors.append("%s: unparsable output %r" % (os.path.basename(p), out[-500:]))
            continue
        failing.extend(off + i for i in parse_N_list(vals[0]))
    return failing, errors


def parse_pair_list(text):
    text = re.sub(r"%N|%Z|%nat", "", text.strip())
    if text in ("[]", "nil"):
        return []
    return [(int(a), int(b)) for a, b in re.findall(r"\(\s*(\d+)\s*,\s*(\d+)\s*\)", text)]


def eval_verdicts(workdir, header, case_type, check_fn, case_terms, shard_size=400, tag="cases"):
    """Evaluate `verdicts check_fn [cases]` (check_fn : case -> N, 0 = fine, bit0 = model and
    implementation disagree, bit1 = implementation violates the specification) in Coq over
    shards, in parallel.  Returns ([(global index, code)], errors)."""
    paths = []
    offs = []
    for k, sh in enumerate(shard(case_terms, shard_size)):
        p = os.path.join(workdir, "%s_%d.v" % (tag, k))
        with open(p, "w") as f:
            f.write(header + "\n")
            f.write("Definition cases : list (%s) := [\n  %s\n].\n" % (case_type, ";\n  ".join(sh)))
            f.write("Eval vm_compute in (verdicts (%s) cases).\n" % check_fn)
        paths.append(p)
        offs.append(k * shard_size)
    res = run_case_files(paths)
    out = []
    errors = []
    for p, off in zip(paths, offs):
        rc, so, se = res[p]
        if rc != 0:
            errors.append("%s: rc=%s %s" % (os.path.basename(p), rc, (se or so)[-1500:]))
            continue
        vals = parse_evals(so)
        if len(vals) != 1:
            errors.append("%s: unparsable output %r" % (os.path.basename(p), so[-500:]))
            continue
        out.extend((off + i, c) for i, c in parse_pair_list(vals[0]))
    return out, errors


def eval_terms(workdir, header, terms, tag="show"):
    """Evaluate a few terms with vm_compute, return their printed values (for replays)."""
    p = os.path.join(workdir, "%s.v" % tag)
    with open(p, "w") as f:
        f.write(header + "\n")
        for t in terms:
            f.write("Eval vm_compute in (%s).\n" % t)
    rc, out, err = coqc(p)
    if rc != 0:
        return None, (err or out)
    return parse_evals(out), None


# ------------------------------------------------------------------------------- known findings

def load_known(prop):
    path = os.path.join(VERIF, "known_findings.json")
    try:
        with open(path) as f:
            data = json.load(f)
    except OSError:
        return []
    return [e for e in data.get("findings", []) if e.get("property") == prop and e.get("status") == "known"]


# ------------------------------------------------------------------------------------- context

class Ctx(object):
    def __init__(self, prop, tier, seed):
        self.prop = prop
        self.tier = tier
        self.seed = seed
        self.repo = repo_dir()
        self.t0 = time.time()
        self.workdir = os.path.join(WORK, "%s-%d" % (prop, os.getpid()))
        os.makedirs(self.workdir, exist_ok=True)
        self.violations = []      # dicts: {kind, what, replay-data}
        self.known_hits = []      # strings
        self.notes = []
        self.coverage = {}
        self.assumptions = []
        self.obligations = 0
        self.discharged = 0
        self.trusted_base = []
        self.axioms = {}

    def cleanup(self):
        shutil.rmtree(self.workdir, ignore_errors=True)

    def impl_env(self):
        env = dict(os.environ)
        env["PYTHONPATH"] = self.repo + os.pathsep + HERE
        env["PYTHONHASHSEED"] = "0"
        env["PYTHONDONTWRITEBYTECODE"] = "1"
        env["TZ"] = "UTC"
        env["G_NODE_NIXPY_VERIF"] = "1"
        return env

    def run_impl(self, script, payload, timeout=1800):
        """run harness/<script> under the repo's interpreter with JSON stdin -> JSON stdout"""
        p = subprocess.run([PY, os.path.join(HERE, script)], input=json.dumps(payload),
                           env=self.impl_env(), capture_output=True, text=True, timeout=timeout,
                           cwd=self.workdir)
        if p.returncode != 0:
            raise RuntimeError("impl runner %s failed: %s" % (script, p.stderr[-3000:]))
        return json.loads(p.stdout)

    def run_impl_in(self, script, payload, subdir, timeout=1800):
        """run_impl in a sub-directory of the work directory (several runners at once)"""
        wd = os.path.join(self.workdir, subdir)
        os.makedirs(wd, exist_ok=True)
        p = subprocess.run([PY, os.path.join(HERE, script)], input=json.dumps(payload),
                           env=self.impl_env(), capture_output=True, text=True, timeout=timeout, cwd=wd)
        if p.returncode != 0:
            raise RuntimeError("impl runner %s failed: %s" % (script, p.stderr[-3000:]))
        return json.loads(p.stdout[p.stdout.index("{"):] if not p.stdout.lstrip().startswith(("{", "[")) else p.stdout)

    def run_impl_cases(self, script, cases, jobs=8, timeout=1800, extra=None):
        """the same for a payload {"cases": [...]} whose runner answers with one item per case: the cases are
        split over `jobs` processes (each in its own directory), results concatenated in order"""
        from concurrent.futures import ThreadPoolExecutor
        if len(cases) < 4 * jobs:
            return self.run_impl(script, dict(extra or {}, cases=cases), timeout=timeout)
        size = (len(cases) + jobs - 1) // jobs
        chunks = [cases[i:i + size] for i in range(0, len(cases), size)]

        def one(k):
            wd = os.path.join(self.workdir, "part%d" % k)
            os.makedirs(wd, exist_ok=True)
            p = subprocess.run([PY, os.path.join(HERE, script)], input=json.dumps(dict(extra or {}, cases=chunks[k])),
                               env=self.impl_env(), capture_output=True, text=True, timeout=timeout, cwd=wd)
            if p.returncode != 0:
                raise RuntimeError("impl runner %s failed: %s" % (script, p.stderr[-3000:]))
            r = json.loads(p.stdout)
            if len(r) != len(chunks[k]):
                raise RuntimeError("impl runner %s answered %d items for %d cases" % (script, len(r), len(chunks[k])))
            return r
        with ThreadPoolExecutor(max_workers=jobs) as ex:
            parts = list(ex.map(one, range(len(chunks))))
        return [x for part in parts for x in part]

    # -- verdict helpers
    def violation(self, what, replay, found_input=True):
        self.violations.append({"what": what, "replay": replay, "found_input": found_input})

    def write_replay(self, name, data):
        os.makedirs(os.path.join(VERIF, "replay"), exist_ok=True)
        path = os.path.join(VERIF, "replay", name)
        with open(path, "w") as f:
            json.dump(data, f, indent=1, sort_keys=True, default=str)
        return path


def proof_stage(ctx, translate_sections, vo_targets, props_file, expected_theorems):
    """translate, build, audit.  Returns dict with status; records obligations in ctx."""
    st = {"translate": {}, "build_ok": False, "audit": [], "theorems": {}, "broken": []}
    # every section is regenerated on every run (model files import several of them)
    tr = T.translate(None, ctx.repo)
    st["translate"] = tr
    for k, v in tr.items():
        if v is not None:
            st["broken"].append("translator section %s: %s" % (k, v))
    ok, blog = build(vo_targets)
    st["build_ok"] = ok
    st["build_log"] = blog[-6000:]
    if not ok:
        # which targets failed?
        for t in vo_targets:
            if not vo_ok(t[:-1]):
                st["broken"].append("does not compile: %s" % t)
        mo = re.findall(r'(?m)^File "\./([^"]+)", line (\d+).*\n(?:.*\n){0,6}?Error:?(.*)', blog)
        for f, l, msg in mo[:6]:
            st["broken"].append("coq error in %s line %s:%s" % (f, l, msg.strip()[:200]))
    bad = source_audit()
    st["audit"] = bad
    for b in bad:
        st["broken"].append("forbidden construct: " + b)
    ctx.obligations = len(expected_theorems)
    if ok:
        pa_ok, axs, raw, declared = print_assumptions(props_file)
        st["theorems"] = axs
        if not pa_ok:
            st["broken"].append("Props file does not check: " + raw[-1500:])
        for th in expected_theorems:
            if th not in axs:
                st["broken"].append("theorem %s missing from %s" % (th, props_file))
                continue
            extra = [a for a in axs[th] if a not in AXIOM_WHITELIST]
            if extra:
                st["broken"].append("theorem %s depends on non-whitelisted axioms %s" % (th, extra))
            else:
                ctx.discharged += 1
        ctx.axioms = axs
    return st


def finish(ctx, st, level_text=None):
    """write evidence, print verdict lines, return exit code"""
    prop = ctx.prop
    # a broken proof/tie with no concrete failing input
    if st["broken"] and not any(v["found_input"] for v in ctx.violations):
        rp = ctx.write_replay("%s-broken-tie-seed%d.json" % (prop, ctx.seed), {
            "property": prop, "kind": "proof-or-tie-broken", "broken": st["broken"],
            "build_log_tail": st.get("build_log", "")[-3000:],
            "note": "the theorem/correspondence named above no longer checks against the current "
                    "source; the search on model and implementation found no concrete failing input"})
        ctx.violation("proof obligation or tie broken: " + "; ".join(st["broken"])[:400], rp, found_input=False)
    ev = {
        "property_id": prop, "tier": ctx.tier, "seed": ctx.seed, "level": "proof",
        "coverage": dict({
            "obligations": ctx.obligations, "discharged": ctx.discharged,
            "checker_cmd": "make -C coq (coqc 8.16.1, full .vo build) + coqc coq/Props/%s.v (Print Assumptions)" % prop,
            "trusted_base": ctx.trusted_base,
            "theorem_axioms": ctx.axioms,
        }, **ctx.coverage),
        "assumptions": ctx.assumptions,
        "wall_s": round(time.time() - ctx.t0, 2),
        "violations": len(ctx.violations),
        "known_findings_reproduced": ctx.known_hits,
        "notes": ctx.notes,
        "repo": ctx.repo,
    }
    os.makedirs(os.path.join(VERIF, "evidence"), exist_ok=True)
    with open(os.path.join(VERIF, "evidence", prop + ".json"), "w") as f:
        json.dump(ev, f, indent=1, sort_keys=True, default=str)
    for k in ctx.known_hits:
        print("KNOWN-FINDING: property=%s %s" % (prop, k))
    code = 0
    for v in ctx.violations:
        line = "VIOLATION property=%s replay=%s" % (prop, v["replay"])
        log("  violation: " + v["what"])
        if not v["found_input"]:
            line += " no-failing-input-found"
        print(line)
        code = 1
    if code == 0:
        print("OK property=%s tier=%s obligations=%d/%d evaluations=%s wall=%.1fs" % (
            prop, ctx.tier, ctx.discharged, ctx.obligations,
            ctx.coverage.get("evaluations", "-"), time.time() - ctx.t0))
    sys.stdout.flush()
    return code


if __name__ == "__main__":
    # developer helper:  core.py build <targets...>
    if sys.argv[1] == "build":
        ok_, log_ = build(sys.argv[2:])
        print(log_[-4000:])
        sys.exit(0 if ok_ else 1)
    if sys.argv[1] == "buildall":
        T.translate()
        tg = [v + "o" for v in coq_sources()]
        ok_, log_ = build(tg, timeout=3000)
        print(log_[-6000:])
        print("buildall:", "ok" if ok_ else "SOME TARGETS FAILED")
        sys.exit(0)
