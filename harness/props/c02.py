"""C02 -- closing and reopening a file reproduces the complete observable state."""
import os
import sys

sys.path.insert(0, os.path.dirname(os.path.dirname(os.path.abspath(__file__))))
import storeprop  # noqa: E402

ID = "C02"
THEOREMS = ["c02_reopen_same_walk", "c02_walk_determined", "c02_last_write_wins", "c02_attr_frame",
            "c02_deleted_stays_deleted", "c02_link_frame"]
# two handles to one owner, both having used the same link list; the list is emptied through one and
# filled again through the other (a cached backend of a dropped container group must not swallow it)
PRELUDES = [
    # a multi-tag re-pointed to a kept-id COPY of its positions array (same id, another entity): the last assignment wins
    [["create", 0, "CBlocks", "B", "t", []], ["create", 1, "CDataArrays", "p", "t", [1, 2, 3]], ["create_mtag", 1, "m", "t", 2],
     ["copy", 1, 2, "p2", True, True], ["set_link", 3, "RPositions", 4], ["set_link", 3, "RExtents", 4], ["set_link", 3, "RExtents", 2],
     ["reopen", False]],
    [["create", 0, "CSections", "m", "t", []], ["create", 0, "CBlocks", "B", "t", []], ["create", 2, "CSources", "leaf", "t", []],
     ["create", 2, "CGroups", "g", "t", []], ["create", 2, "CDataFrames", "df", "t", [1, 2]],
     ["set_link", 3, "RMetadata", 1], ["set_link", 3, "RMetadata", None], ["set_link", 4, "RMetadata", 1], ["set_link", 4, "RMetadata", None],
     ["set_link", 5, "RMetadata", 1], ["set_link", 5, "RMetadata", None], ["reopen", False]],
    [["create", 0, "CBlocks", "B", "t", []], ["create", 1, "CDataArrays", "a", "t", [1, 2]], ["create", 1, "CGroups", "g", "t", []],
     ["lookup", 1, "CGroups", ["name", "g"]], ["append", 3, "LDataArrays", 2], ["probe_link", 4, "LDataArrays"],
     ["remove", 3, "LDataArrays", ["pos", 0]], ["append", 4, "LDataArrays", 2], ["reopen", False]],
    [["create", 0, "CBlocks", "B", "t", []], ["create", 1, "CDataArrays", "a", "t", [1, 2]], ["create", 1, "CTags", "t", "t", [1]],
     ["lookup", 1, "CTags", ["pos", 0]], ["append", 4, "LReferences", 2], ["probe_link", 3, "LReferences"],
     ["remove", 4, "LReferences", ["pos", 0]], ["append", 3, "LReferences", 2], ["reopen", False]],
    [["create", 0, "CBlocks", "B", "t", []], ["create", 1, "CSources", "s", "t", []], ["create", 1, "CDataArrays", "a", "t", [1]],
     ["lookup", 1, "CDataArrays", ["name", "a"]], ["append", 3, "LSources", 2], ["probe_link", 4, "LSources"],
     ["remove", 3, "LSources", ["pos", 0]], ["append", 4, "LSources", 2], ["set_attr", 4, "ALabel", "l"], ["reopen", False]],
]
PROFILE = {"keep_walks": True, "reopen_sweep": True, "preludes": PRELUDES, "prelude_prob": 0.25, "weights": {"reopen": 2.0, "set_attr": 6, "set_link": 4, "remove": 3, "delete": 2, "lookup": 4,
                       "lookup_link": 3, "probe_link": 1.5, "probe": 1, "bad": 0.5}}
RULE = ("random histories over all modelled entity kinds (blocks, groups, arrays, tags, multi-tags, features, nested sources and "
        "sections, properties) with attribute values incl. None, empty and non-ASCII strings, links and unlinks, deletions, and a "
        "close+reopen (read-write) inserted at random points; every operation goes through a randomly chosen one of all Python "
        "objects obtained so far for the entity (creation result, container lookups, link-list lookups); the canonical walk is "
        "taken through fresh objects after every operation. A quarter of the histories start with a two-handle prelude (a link list "
        "emptied through one object and refilled through another that had cached it). At every reopen, in addition to the walk, "
        "every public property and argument-free reader method of every entity, dimension, feature and property (found by "
        "reflection over the classes) is evaluated before closing and after reopening and must answer the same. Numeric "
        "attributes (sampling interval, offset, expansion origin, uncertainty) are assigned sequences of ints, floats and numpy "
        "scalars and read back through fresh objects after every assignment and after reopening.")


HEADER_ATTR = {"AType": 1, "ADefinition": 2}      # offset of the attribute after the id in an entity's walk header


def predicate(h):
    out = []
    tr = h["trace"]
    walks = h.get("walks")
    # a successful write through ANY handle of a live entity shows through fresh objects at once
    if walks:
        for i, op in enumerate(h["ops"]):
            ap = h["infos"][i].get("append")
            if op[0] == "append" and h["results"][i][0] == "ok" and ap and not ap[1] and i > 0:
                if walks[i].count(ap[0]) != walks[i - 1].count(ap[0]) + 1:
                    out.append(("a successful append through a handle is not visible through fresh objects", i,
                                {"op": op, "occurrences_before": walks[i - 1].count(ap[0]), "after": walks[i].count(ap[0])}))
            if op[0] == "set_attr" and op[2] in HEADER_ATTR and h["results"][i][0] == "ok":
                tid = h["target_ids"][i]
                w = walks[i]
                pos = [k for k in range(3, len(w) - 2) if w[k] == tid and w[k - 3] == -1 and isinstance(w[k - 2], int) and 101 <= w[k - 2] <= 108]
                if pos and all(w[k + HEADER_ATTR[op[2]]] != op[3] for k in pos):
                    out.append(("a successful write through a handle is not visible through fresh objects", i,
                                {"op": op, "stored": w[pos[0] + HEADER_ATTR[op[2]]]}))
    for i, op in enumerate(h["ops"]):
        if h["infos"][i].get("alias") and h["results"][i][0] == "ok":
            out.append(("the last link assignment is not the link in force (the link leads elsewhere)", i, {"op": op, "what": h["infos"][i]["alias"]}))
        if op[0] == "reopen" and i > 0 and h["results"][i][0] == "ok":
            if tr[i][1] != tr[i - 1][1]:
                out.append(("the walk after reopening differs from the walk before closing", i, {"op": op}))
    # every public property / argument-free reader method of every entity, before closing and after reopening
    for d in h.get("reopen_diffs") or []:
        if d["ndiffs"]:
            out.append(("a read accessor answers differently after close and reopen", d["step"] - 1,
                        {"accessor": d["diffs"][0][0], "before": d["diffs"][0][1], "after": d["diffs"][0][2], "count": d["ndiffs"]}))
    return out


def stale_link_handle(v, h):
    """known finding: the handle was obtained from a link list (lookup_link) and that link has been removed since"""
    what, step, detail = v
    if not (what.startswith("a successful write through a handle is not visible") or what.startswith("a successful append through")):
        return False
    hnum = h["ops"][step][1]
    made = [i for i, (op, res) in enumerate(zip(h["ops"], h["results"])) if res[0] == "ok" and res[1] == hnum and op[0] == "lookup_link"]
    return bool(made) and any(op[0] in ("remove", "delete") for op in h["ops"][made[-1]:step])


def run(ctx):
    st = storeprop.run(ctx, ID, THEOREMS, "Props/C02.v", PROFILE, (28, 40), 100, 900, predicate, RULE,
                       known_matchers={"stale_link_handle": stale_link_handle}, extra_targets=["Pure/TableCheck.vo"])
    # ---- numeric attributes (interval, offset, expansion origin, uncertainty): last write wins whatever Python type the
    # successive values have; model-free, read back through fresh objects and after reopening
    thorough = ctx.tier == "thorough"
    recs = ctx.run_impl("impl_numattr.py", {"seed": ctx.seed, "n": 60 if thorough else 12, "len": 14})
    bad = [r for r in recs if "error" in r or r.get("read") != r["value"]]
    if bad and not ctx.violations:
        k = recs.index(bad[0])
        hist = [x for x in recs[max(0, k - 14):k + 1] if x["attribute"] == bad[0]["attribute"]]
        rp = ctx.write_replay("%s-numattr-seed%d.json" % (ID, ctx.seed), {
            "property": ID, "kind": "the value read back is not the last value written", "input": {"assignments": hist},
            "observed": bad[0], "count": len(bad)})
        ctx.violation("%d numeric attribute read-backs violate C02, e.g. %s assigned %s reads %r%s" % (
            len(bad), bad[0]["attribute"], bad[0]["assigned"], bad[0].get("read", bad[0].get("error")),
            " after reopening" if bad[0].get("after_reopen") else ""), rp)
    ctx.coverage["numeric_attribute_readbacks"] = len(recs)
    ctx.coverage["numeric_attribute_failures"] = len(bad)
    ctx.coverage["evaluations"] += len(recs)
    import dimlink
    dimlink.frame_links_stage(ctx, 300 if thorough else 40, 14)
    from props import c16
    ctx.coverage.update(c16.frame_stage(ctx, st, 600 if ctx.tier == "thorough" else 90, "last write wins independently of the objects used, and reopening shows it"))
    return st


def replay(ctx):
    return storeprop.replay(ctx, ID, predicate, known_matchers={"stale_link_handle": stale_link_handle})
