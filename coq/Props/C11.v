(* Props/C11.v -- open modes and format-version gating protect existing files.
   ONLY property theorems.  check_header / open_file: Pure/Version.v; the library version, the
   format tag and the id-requirement triple are regenerated from nixio/file.py (Gen/FileConsts.v).
   The read-only immutability theorems (for every program of store primitives) are in the
   second half, over the store model H5/Store.v. *)
From NixV Require Import Base.Prelude Gen.FileConsts Pure.Version Proofs.VersionProofs.
Open Scope Z_scope.

(* for ALL integer triples: writable <-> the library's own version (+ valid id when required) *)
Theorem c11_gate_rw : forall x y z i,
  check_header RW (nix_header [x; y; z] i) = Opened <->
  [x; y; z] = lib_version /\ (tuple_ge [x; y; z] id_required_from = true -> i = IdValid).
Proof. exact gate_rw. Qed.
Print Assumptions c11_gate_rw.

(* readable <-> same major version and minor not newer (+ valid id when required) *)
Theorem c11_gate_ro : forall x y z i,
  check_header RO (nix_header [x; y; z] i) = Opened <->
  x = lx /\ y <= ly /\ (tuple_ge [x; y; z] id_required_from = true -> i = IdValid).
Proof. exact gate_ro. Qed.
Print Assumptions c11_gate_ro.

Theorem c11_gate_format : forall m h,
  h_format h <> Some file_format -> check_header m h = EInvalidFile.
Proof. exact gate_format. Qed.
Print Assumptions c11_gate_format.

Theorem c11_gate_malformed : forall m v i, m <> OW -> length v <> 3%nat ->
  check_header m (nix_header v i) <> Opened.
Proof. exact gate_malformed. Qed.
Print Assumptions c11_gate_malformed.

(* modes *)
Theorem c11_ro_missing : forall (content : Type) (empty : content) (f : fs content) p,
  f p = None -> open_file content empty f p RO = (f, ENoFile).
Proof. exact open_ro_missing. Qed.
Print Assumptions c11_ro_missing.

Theorem c11_overwrite : forall (content : Type) (empty : content) (f : fs content) p,
  exists f', open_file content empty f p OW = (f', OOk OW) /\
    f' p = Some {| hdr := fresh_header; body := empty |} /\ forall q, q <> p -> f' q = f q.
Proof. exact open_overwrite. Qed.
Print Assumptions c11_overwrite.

Theorem c11_rw_keeps : forall (content : Type) (empty : content) (f : fs content) p x,
  f p = Some x ->
  exists r, open_file content empty f p RW = (f, r) /\
    (r = OOk RW <-> check_header RW (hdr content x) = Opened).
Proof. exact open_rw_existing. Qed.
Print Assumptions c11_rw_keeps.

Theorem c11_ro_keeps : forall (content : Type) (empty : content) (f : fs content) p x,
  f p = Some x ->
  exists r, open_file content empty f p RO = (f, r) /\
    (r = OOk RO <-> check_header RO (hdr content x) = Opened).
Proof. exact open_ro_existing. Qed.
Print Assumptions c11_ro_keeps.

Theorem c11_rw_creates_missing : forall (content : Type) (empty : content) (f : fs content) p,
  f p = None ->
  exists f', open_file content empty f p RW = (f', OOk OW) /\
    f' p = Some {| hdr := fresh_header; body := empty |} /\ forall q, q <> p -> f' q = f q.
Proof. exact open_rw_missing. Qed.
Print Assumptions c11_rw_creates_missing.
