#!/bin/bash
# setup_cmd: build the whole Coq development from files on disk (offline).
# 1. regenerate coq/Gen/*.v from the current /repo (or $VERIF_REPO) sources
# 2. full .vo build of every model, proof and property file
cd "$(dirname "$0")"
export PYTHONDONTWRITEBYTECODE=1
/venv/bin/python harness/translate.py || echo "setup: translator reported a broken tie (checks will report it)"
/venv/bin/python harness/core.py buildall 2>&1 | tail -40
exit 0
