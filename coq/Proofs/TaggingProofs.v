(* Proofs/TaggingProofs.v -- the slice a tag selects on one axis is exactly the set of stored
   samples whose coordinate lies in the tagged region (after unit conversion); lifted to all axes. *)
From Coq Require Import ZArith List Bool QArith Lia Lra.
From NixV Require Import Base.Prelude Pure.Regex Pure.Units Pure.Dims Pure.DimsCheck Pure.Tagging
  Proofs.DimsBase Proofs.DimsSampled Proofs.DimsTicks Proofs.DimsSet.
Import ListNotations.

(* coordinate of stored sample j, the samples that are stored, and what makes a descriptor fit n samples *)
Definition coord (d : ddesc) (j : Z) : Q :=
  match d with
  | DdSampled off itv _ => position_at off itv j
  | DdRange ticks _ => tick_fn ticks j
  | DdSet _ => inject_Z j
  end.
Definition stored (n : Z) (j : Z) : Prop := (0 <= j < n)%Z.
Definition dim_fits (d : ddesc) (n : Z) : Prop :=
  match d with
  | DdSampled _ itv _ => 0 < itv
  | DdRange ticks _ => ascb ticks = true /\ Z.of_nat (length ticks) = n
  | DdSet nl => nl = 0%nat \/ Z.of_nat nl = n
  end.
(* the positions at which the float tolerance of the implementation (np.isclose) decides: C07 *)
Definition off_band (d : ddesc) (x : Q) : Prop :=
  match d with
  | DdSampled off itv _ => band_sampled off itv x = false
  | DdRange _ _ => True
  | DdSet _ => band_set x = false
  end.

Lemma stored_in_dom d n j : dim_fits d n -> stored n j ->
  match d with
  | DdSampled _ _ _ => nat_dom j
  | DdRange ticks _ => tick_dom ticks j
  | DdSet nl => set_dom nl j
  end.
Proof.
  unfold stored. destruct d as [off itv u|ticks u|nl]; cbn.
  - intros _ H. unfold nat_dom. lia.
  - intros [_ <-] H. unfold tick_dom. lia.
  - intros [->| <-] H; unfold set_dom; [split; [lia|left; reflexivity]|split; [lia|right; lia]].
Qed.

(* the region of an axis *)
Definition region (p : Q) (e : option Q) (s : Q) (rule : smode) : Q * Q * smode := axis_region p e s rule.

(* EXACT: a slice a:b means that among the stored samples exactly a..b-1 lie in the region *)
Theorem axis_exact d n p e u rule a b s :
  dim_fits d n -> scale_for u d = inl s ->
  let '(start, stop, mode) := axis_region p e s rule in
  off_band d start -> off_band d stop ->
  axis_slice d n (Some p) e u rule = inl (Some (a, b)) ->
  (a < b)%Z /\ forall j, stored n j -> (in_itv mode start stop (coord d j) <-> (a <= j < b)%Z).
Proof.
  intros Hfit Hs. destruct (axis_region p e s rule) as [[start stop] mode] eqn:ER.
  intros B1 B2. unfold axis_slice. rewrite Hs, ER.
  destruct d as [off itv du|ticks du|nl]; cbn [dim_range coord off_band dim_fits] in *.
  - pose proof (sampled_range_spec off itv Hfit start stop mode B1 B2) as SP.
    destruct (sampled_range_indices off itv start stop mode) as [[a0 b0]|]; cbn [rres_of]; [|discriminate].
    intros [= <- <-]. destruct SP as (Hab & _ & _ & SP). split; [lia|].
    intros j Hj. rewrite (SP j) by (unfold nat_dom; unfold stored in Hj; lia). lia.
  - destruct Hfit as [Hasc Hlen].
    unfold range_range_indices. destruct (Qltb stop start) eqn:Els; [discriminate|].
    apply Qltb_false in Els.
    destruct (ticks_range_spec ticks start stop mode Hasc Els) as (r & Er & SP).
    unfold range_range_indices in Er. rewrite (proj2 (Qltb_false _ _) Els) in Er.
    destruct (range_of (range_index_of ticks) start stop mode) as [[a0 b0]|] eqn:Er0; cbn [rres_of]; [|discriminate].
    intros [= <- <-]. destruct r as [[a1 b1]|]; cbn in Er; [|discriminate]. injection Er as <- <-.
    destruct SP as (Hab & _ & _ & SP). split; [lia|].
    intros j Hj. rewrite (SP j) by (unfold tick_dom; unfold stored in Hj; lia). lia.
  - unfold set_range_indices. destruct (Qltb stop start) eqn:Els; [discriminate|].
    apply Qltb_false in Els.
    destruct (set_range_spec nl start stop mode Els B1 B2) as (r & Er & SP).
    unfold set_range_indices in Er. rewrite (proj2 (Qltb_false _ _) Els) in Er.
    destruct (range_of (set_index_of nl) start stop mode) as [[a0 b0]|] eqn:Er0; cbn [rres_of]; [|discriminate].
    intros [= <- <-]. destruct r as [[a1 b1]|]; cbn in Er; [|discriminate]. injection Er as <- <-.
    destruct SP as (Hab & _ & _ & SP). split; [lia|].
    intros j Hj. rewrite (SP j) by (apply (stored_in_dom (DdSet nl) n j Hfit Hj)). lia.
Qed.

(* EMPTY: no slice means that no stored sample lies in the region *)
Theorem axis_empty d n p e u rule s :
  dim_fits d n -> scale_for u d = inl s ->
  let '(start, stop, mode) := axis_region p e s rule in
  off_band d start -> off_band d stop -> start <= stop ->
  axis_slice d n (Some p) e u rule = inl None ->
  forall j, stored n j -> ~ in_itv mode start stop (coord d j).
Proof.
  intros Hfit Hs. destruct (axis_region p e s rule) as [[start stop] mode] eqn:ER.
  intros B1 B2 Hle. unfold axis_slice. rewrite Hs, ER.
  destruct d as [off itv du|ticks du|nl]; cbn [dim_range coord off_band dim_fits] in *.
  - pose proof (sampled_range_spec off itv Hfit start stop mode B1 B2) as SP.
    destruct (sampled_range_indices off itv start stop mode) as [[a0 b0]|]; cbn [rres_of]; [discriminate|].
    intros _ j Hj. apply SP. unfold nat_dom. unfold stored in Hj. lia.
  - destruct Hfit as [Hasc Hlen].
    destruct (ticks_range_spec ticks start stop mode Hasc Hle) as (r & Er & SP). rewrite Er.
    destruct r as [[a1 b1]|]; cbn [rres_of]; [discriminate|].
    intros _ j Hj. apply SP. unfold tick_dom. unfold stored in Hj. lia.
  - destruct (set_range_spec nl start stop mode Hle B1 B2) as (r & Er & SP). rewrite Er.
    destruct r as [[a1 b1]|]; cbn [rres_of]; [discriminate|].
    intros _ j Hj. apply SP. apply (stored_in_dom (DdSet nl) n j Hfit Hj).
Qed.

(* OUT OF BOUNDS: a slice that runs past the stored samples means that the region does: the
   coordinate of a sample position beyond the last stored one lies in it (only descriptors that do
   not bound the index - sampled, or a set dimension without labels - can produce such a slice) *)
Theorem axis_past_end d n p e u rule a b s :
  dim_fits d n -> scale_for u d = inl s ->
  let '(start, stop, mode) := axis_region p e s rule in
  off_band d start -> off_band d stop ->
  axis_slice d n (Some p) e u rule = inl (Some (a, b)) -> (n < b)%Z ->
  in_itv mode start stop (coord d (b - 1)) /\ (n <= b - 1)%Z /\
  match d with DdRange _ _ => False | DdSet nl => nl = 0%nat | DdSampled _ _ _ => True end.
Proof.
  intros Hfit Hs. destruct (axis_region p e s rule) as [[start stop] mode] eqn:ER.
  intros B1 B2. unfold axis_slice. rewrite Hs, ER.
  destruct d as [off itv du|ticks du|nl]; cbn [dim_range coord off_band dim_fits] in *.
  - pose proof (sampled_range_spec off itv Hfit start stop mode B1 B2) as SP.
    destruct (sampled_range_indices off itv start stop mode) as [[a0 b0]|]; cbn [rres_of]; [|discriminate].
    intros [= <- <-] Hb. destruct SP as (Hab & Da & Db & SP).
    replace (b0 + 1 - 1)%Z with b0 by lia. split; [|split; [lia|exact I]]. apply (SP b0 Db). lia.
  - destruct Hfit as [Hasc Hlen].
    unfold range_range_indices. destruct (Qltb stop start) eqn:Els; [discriminate|]. apply Qltb_false in Els.
    destruct (ticks_range_spec ticks start stop mode Hasc Els) as (r & Er & SP).
    unfold range_range_indices in Er. rewrite (proj2 (Qltb_false _ _) Els) in Er.
    destruct (range_of (range_index_of ticks) start stop mode) as [[a0 b0]|]; cbn [rres_of]; [|discriminate].
    intros [= <- <-] Hb. destruct r as [[a1 b1]|]; cbn in Er; [|discriminate]. injection Er as <- <-.
    destruct SP as (_ & _ & Db & _). unfold tick_dom in Db. exfalso. rewrite Hlen in Db. lia.
  - unfold set_range_indices. destruct (Qltb stop start) eqn:Els; [discriminate|]. apply Qltb_false in Els.
    destruct (set_range_spec nl start stop mode Els B1 B2) as (r & Er & SP).
    unfold set_range_indices in Er. rewrite (proj2 (Qltb_false _ _) Els) in Er.
    destruct (range_of (set_index_of nl) start stop mode) as [[a0 b0]|]; cbn [rres_of]; [|discriminate].
    intros [= <- <-] Hb. destruct r as [[a1 b1]|]; cbn in Er; [|discriminate]. injection Er as <- <-.
    destruct SP as (Hab & _ & Db & SP).
    replace (b0 + 1 - 1)%Z with b0 by lia.
    split; [apply (SP b0 Db); lia|]. split; [lia|].
    unfold set_dom in Db. destruct Hfit as [->| <-]; [reflexivity|]. destruct Db as [_ [E|Db]]; [exact E|lia].
Qed.

(* ---- all axes *)
Lemma calc_slices_nth dims : forall shape idx pos ext units rule sl,
  calc_slices dims shape idx pos ext units rule = inl sl ->
  length sl = Nat.min (length dims) (length shape) /\
  forall k d n, nth_error dims k = Some d -> nth_error shape k = Some n ->
    exists r, nth_error sl k = Some r /\ axis_at d n (idx + k) pos ext units rule = inl r.
Proof.
  induction dims as [|d0 dims IH]; intros shape idx pos ext units rule sl H; cbn [calc_slices] in H.
  - injection H as <-. split; [reflexivity|]. intros k d n Hk. destruct k; discriminate.
  - destruct shape as [|n0 shape].
    + injection H as <-. split; [reflexivity|]. intros k d n _ Hk. destruct k; discriminate.
    + destruct (axis_at d0 n0 idx pos ext units rule) as [r0|x] eqn:E0; [|discriminate].
      destruct (calc_slices dims shape (S idx) pos ext units rule) as [rest|x] eqn:ER; [|discriminate].
      injection H as <-. destruct (IH _ _ _ _ _ _ _ ER) as [Hl Hn]. split; [cbn; rewrite Hl; reflexivity|].
      intros [|k] d n Hd Hs; cbn in Hd, Hs.
      * injection Hd as <-. injection Hs as <-. exists r0. split; [reflexivity|]. rewrite Nat.add_0_r. exact E0.
      * destruct (Hn k d n Hd Hs) as (r & Hr & Ha). exists r. split; [exact Hr|].
        replace (idx + S k)%nat with (S idx + k)%nat by lia. exact Ha.
Qed.
Lemma all_some_nth l s : all_some l = Some s -> length s = length l /\
  forall k r, nth_error l k = Some r -> exists x, r = Some x /\ nth_error s k = Some x.
Proof.
  revert s; induction l as [|[x|] l IH]; intros s H; cbn in H; [| |discriminate].
  - injection H as <-. split; [reflexivity|]. intros [|k] r Hk; discriminate.
  - destruct (all_some l) as [s'|] eqn:E; [|discriminate]. injection H as <-.
    destruct (IH s' eq_refl) as [Hl Hn]. split; [cbn; now rewrite Hl|].
    intros [|k] r Hk; cbn in Hk; [injection Hk as <-; exists x; auto|]. apply Hn, Hk.
Qed.
Lemma all_some_none l : all_some l = None -> exists k, nth_error l k = Some None.
Proof.
  induction l as [|[x|] l IH]; cbn; [discriminate| |intros _; exists O; reflexivity].
  destruct (all_some l); [discriminate|]. intros _. destruct (IH eq_refl) as [k Hk]. exists (S k). exact Hk.
Qed.
Lemma in_data_nth s shape : in_data s shape = true ->
  forall k a b n, nth_error s k = Some (a, b) -> nth_error shape k = Some n -> (b <= n)%Z.
Proof.
  unfold in_data. revert shape; induction s as [|[a0 b0] s IH]; intros [|n0 shape] H k a b n Hs Hn;
    try (destruct k; discriminate).
  cbn in H. apply andb_prop in H. destruct H as [H0 H]. destruct k as [|k]; cbn in Hs, Hn.
  - injection Hs as <- <-. injection Hn as <-. now apply Z.leb_le.
  - eapply IH; eauto.
Qed.
Lemma in_data_false s shape : in_data s shape = false ->
  exists k a b n, nth_error s k = Some (a, b) /\ nth_error shape k = Some n /\ (n < b)%Z.
Proof.
  unfold in_data. revert shape; induction s as [|[a0 b0] s IH]; intros [|n0 shape] H; cbn in H; try discriminate.
  destruct (Z.leb_spec b0 n0).
  - cbn in H. destruct (IH shape H) as (k & a & b & n & A & B & C). exists (S k), a, b, n. auto.
  - exists O, a0, b0, n0. auto.
Qed.

(* what "axis k of the result is the slice a:b" means in terms of samples *)
Definition axis_meaning (d : ddesc) (n : Z) (k : nat) (pos ext : list Q) (units : option (list str)) (rule : smode)
                        (a b : Z) : Prop :=
  match nth_error pos k with
  | None => a = 0%Z /\ b = n                                   (* beyond the tag's position: the whole axis *)
  | Some p => exists u s, unit_at units k = inl u /\ scale_for u d = inl s /\
      let '(start, stop, mode) := axis_region p (nth_error ext k) s rule in
      off_band d start -> off_band d stop ->
      (a < b)%Z /\ forall j, stored n j -> (in_itv mode start stop (coord d j) <-> (a <= j < b)%Z)
  end.

Lemma axis_at_meaning d n k pos ext units rule a b :
  dim_fits d n -> axis_at d n k pos ext units rule = inl (Some (a, b)) -> axis_meaning d n k pos ext units rule a b.
Proof.
  intros Hfit. unfold axis_at, axis_meaning. destruct (nth_error pos k) as [p|]; [|intros [= <- <-]; auto].
  destruct (unit_at units k) as [u|x]; [|discriminate]. intros H.
  assert (Hs : exists s, scale_for u d = inl s).
  { unfold axis_slice in H. destruct (scale_for u d); [eauto|discriminate]. }
  destruct Hs as [s Hs]. exists u, s. split; [reflexivity|]. split; [exact Hs|].
  pose proof (axis_exact d n p (nth_error ext k) u rule a b s Hfit Hs) as X.
  destruct (axis_region p (nth_error ext k) s rule) as [[start stop] mode]. intros B1 B2. apply X; assumption.
Qed.

Theorem slices_exact dims shape pos ext units rule sl s :
  Forall2 dim_fits dims shape ->
  calc_slices dims shape 0 pos ext units rule = inl sl -> all_some sl = Some s -> in_data s shape = true ->
  forall k d n, nth_error dims k = Some d -> nth_error shape k = Some n ->
    exists a b, nth_error s k = Some (a, b) /\ (b <= n)%Z /\ axis_meaning d n k pos ext units rule a b.
Proof.
  intros Hfit Hc Ha Hin k d n Hd Hn.
  destruct (calc_slices_nth _ _ _ _ _ _ _ _ Hc) as [_ Hnth]. destruct (Hnth k d n Hd Hn) as (r & Hr & Hax).
  destruct (all_some_nth _ _ Ha) as [_ Hs]. destruct (Hs k r Hr) as ([a b] & -> & Hsk).
  exists a, b. split; [exact Hsk|]. split; [eapply in_data_nth; eauto|].
  cbn in Hax. apply axis_at_meaning; [|exact Hax].
  clear - Hfit Hd Hn. revert k Hd Hn. induction Hfit as [|d0 n0 dims shape H0 _ IH]; intros [|k] Hd Hn; cbn in *; try discriminate.
  - injection Hd as <-. injection Hn as <-. exact H0.
  - eapply IH; eauto.
Qed.

(* ---- the three outcomes of tagged_data *)
Definition axis_no_sample (d : ddesc) (n : Z) (k : nat) (pos ext : list Q) (units : option (list str)) (rule : smode) : Prop :=
  exists p u s, nth_error pos k = Some p /\ unit_at units k = inl u /\ scale_for u d = inl s /\
    let '(start, stop, mode) := axis_region p (nth_error ext k) s rule in
    off_band d start -> off_band d stop -> start <= stop ->
    forall j, stored n j -> ~ in_itv mode start stop (coord d j).
Definition axis_runs_past (d : ddesc) (n : Z) (k : nat) (pos ext : list Q) (units : option (list str)) (rule : smode) : Prop :=
  exists p u s b, nth_error pos k = Some p /\ unit_at units k = inl u /\ scale_for u d = inl s /\ (n <= b - 1)%Z /\
    let '(start, stop, mode) := axis_region p (nth_error ext k) s rule in
    off_band d start -> off_band d stop -> in_itv mode start stop (coord d (b - 1)).

Lemma Forall2_len {A B} (P : A -> B -> Prop) l l' : Forall2 P l l' -> length l = length l'.
Proof. induction 1; cbn; auto. Qed.
Lemma fits_nth dims shape : Forall2 dim_fits dims shape ->
  forall k d n, nth_error dims k = Some d -> nth_error shape k = Some n -> dim_fits d n.
Proof. induction 1 as [|d0 n0 dims shape H0 _ IH]; intros [|k] d n Hd Hn; cbn in *; try discriminate.
  - injection Hd as <-. injection Hn as <-. exact H0.
  - eapply IH; eauto. Qed.
Lemma nth_error_both {A B} (l : list A) (l' : list B) k x : length l = length l' -> nth_error l k = Some x ->
  exists y, nth_error l' k = Some y.
Proof. intros HL Hx. assert (k < length l')%nat by (rewrite <- HL; apply nth_error_Some; congruence).
  destruct (nth_error l' k) eqn:E; [eauto|]. apply nth_error_None in E. lia. Qed.

Lemma axis_at_none d n k pos ext units rule :
  dim_fits d n -> axis_at d n k pos ext units rule = inl None -> axis_no_sample d n k pos ext units rule.
Proof.
  intros Hfit. unfold axis_at, axis_no_sample. destruct (nth_error pos k) as [p|]; [|discriminate].
  destruct (unit_at units k) as [u|x]; [|discriminate]. intros H.
  assert (Hs : exists s, scale_for u d = inl s).
  { unfold axis_slice in H. destruct (scale_for u d); [eauto|discriminate]. }
  destruct Hs as [s Hs]. exists p, u, s. repeat split; auto.
  pose proof (axis_empty d n p (nth_error ext k) u rule s Hfit Hs) as X.
  destruct (axis_region p (nth_error ext k) s rule) as [[start stop] mode]. intros B1 B2 Hle. apply X; assumption.
Qed.
Lemma axis_at_past d n k pos ext units rule a b :
  dim_fits d n -> axis_at d n k pos ext units rule = inl (Some (a, b)) -> (n < b)%Z ->
  axis_runs_past d n k pos ext units rule.
Proof.
  intros Hfit. unfold axis_at, axis_runs_past. destruct (nth_error pos k) as [p|]; [|intros [= <- <-]; lia].
  destruct (unit_at units k) as [u|x]; [|discriminate]. intros H Hb.
  assert (Hs : exists s, scale_for u d = inl s).
  { unfold axis_slice in H. destruct (scale_for u d); [eauto|discriminate]. }
  destruct Hs as [s Hs]. exists p, u, s, b. repeat split; auto.
  - lia.
  - pose proof (axis_past_end d n p (nth_error ext k) u rule a b s Hfit Hs) as X.
    destruct (axis_region p (nth_error ext k) s rule) as [[start stop] mode]. intros B1 B2.
    apply (X B1 B2 H Hb).
Qed.

Lemma scale_for_err u d x : scale_for u d = inr x -> x = EIncompatible.
Proof. unfold scale_for. destruct d as [o i du|t du|nl]; repeat match goal with |- context [match ?y with _ => _ end] => destruct y end;
  intros H; try discriminate; injection H as <-; reflexivity. Qed.
Lemma axis_at_err d n k pos ext units rule x : axis_at d n k pos ext units rule = inr x -> x <> EOutOfBounds.
Proof.
  unfold axis_at, unit_at, axis_slice. destruct (nth_error pos k); [|discriminate].
  destruct units as [us|]; [destruct (nth_error us k); [|intros [= <-]; discriminate]|];
    (destruct (scale_for _ d) eqn:Es; [|intros [= <-]; apply scale_for_err in Es; subst; discriminate]);
    destruct (axis_region _ _ _ _) as [[? ?] ?]; destruct (dim_range _ _ _ _); intros H; try discriminate;
    injection H as <-; discriminate.
Qed.
Lemma calc_slices_err dims : forall shape idx pos ext units rule x,
  calc_slices dims shape idx pos ext units rule = inr x -> x <> EOutOfBounds.
Proof.
  induction dims as [|d dims IH]; intros [|n shape] idx pos ext units rule x H; cbn [calc_slices] in H; try discriminate.
  destruct (axis_at d n idx pos ext units rule) eqn:E; [|injection H as <-; eapply axis_at_err; eauto].
  destruct (calc_slices dims shape (S idx) pos ext units rule) eqn:E2; [discriminate|]. injection H as <-. eapply IH; eauto.
Qed.

Theorem tag_data_exact dims shape pos ext units rule s :
  Forall2 dim_fits dims shape -> tag_tagged_data dims shape pos ext units rule = TData s ->
  forall k d n, nth_error dims k = Some d -> nth_error shape k = Some n ->
    exists a b, nth_error s k = Some (a, b) /\ (b <= n)%Z /\ axis_meaning d n k pos ext units rule a b.
Proof.
  intros Hfit. unfold tag_tagged_data. destruct (_ && _); [discriminate|].
  destruct (calc_slices dims shape 0 pos ext units rule) as [sl|x] eqn:Hc; [|discriminate].
  destruct (all_some sl) as [s0|] eqn:Ha; [|discriminate]. destruct (in_data s0 shape) eqn:Hi; [|discriminate].
  destruct (Nat.eqb _ _); [|discriminate]. intros [= <-]. eapply slices_exact; eauto.
Qed.
Theorem mtag_data_exact dims shape pos ext units rule s :
  Forall2 dim_fits dims shape -> mtag_tagged_data dims shape pos ext units rule = TData s ->
  forall k d n, nth_error dims k = Some d -> nth_error shape k = Some n ->
    exists a b, nth_error s k = Some (a, b) /\ (b <= n)%Z /\ axis_meaning d n k pos ext units rule a b.
Proof.
  intros Hfit. unfold mtag_tagged_data. destruct (mtag_shapes_differ pos ext); [discriminate|].
  destruct (calc_slices dims shape 0 pos ext units rule) as [sl|x] eqn:Hc; [|discriminate].
  destruct (all_some sl) as [s0|] eqn:Ha; [|discriminate]. destruct (in_data s0 shape) eqn:Hi; [|discriminate].
  cbn [andb]. destruct (Nat.eqb _ _); [|discriminate]. intros [= <-]. eapply slices_exact; eauto.
Qed.

(* an invalid view or an out-of-bounds error: some axis has no stored sample in the region, or the
   region runs past the stored samples on some axis - never other data *)
Theorem no_data_reason dims shape pos ext units rule :
  Forall2 dim_fits dims shape ->
  (tag_tagged_data dims shape pos ext units rule = TInvalid \/
   tag_tagged_data dims shape pos ext units rule = TErr EOutOfBounds \/
   mtag_tagged_data dims shape pos ext units rule = TInvalid) ->
  exists k d n, nth_error dims k = Some d /\ nth_error shape k = Some n /\
    (axis_no_sample d n k pos ext units rule \/ axis_runs_past d n k pos ext units rule).
Proof.
  intros Hfit H. pose proof (Forall2_len _ _ _ Hfit) as HL.
  assert (G : forall sl, calc_slices dims shape 0 pos ext units rule = inl sl ->
            (all_some sl = None \/ exists s, all_some sl = Some s /\ in_data s shape = false) ->
            exists k d n, nth_error dims k = Some d /\ nth_error shape k = Some n /\
              (axis_no_sample d n k pos ext units rule \/ axis_runs_past d n k pos ext units rule)).
  { intros sl Hc [Hn|(s & Hs & Hi)]; destruct (calc_slices_nth _ _ _ _ _ _ _ _ Hc) as [Hlen Hnth].
    - destruct (all_some_none _ Hn) as [k Hk].
      assert (Hk' : (k < length dims)%nat) by (rewrite HL in Hlen; rewrite Nat.min_id in Hlen; rewrite HL, <- Hlen; apply nth_error_Some; congruence).
      destruct (nth_error dims k) as [d|] eqn:Hd; [|apply nth_error_None in Hd; lia].
      destruct (nth_error_both dims shape k d HL Hd) as [n Hn'].
      exists k, d, n. repeat split; auto. left. destruct (Hnth k d n Hd Hn') as (r & Hr & Hax). rewrite Hk in Hr.
      injection Hr as <-. cbn in Hax. apply axis_at_none; [eapply fits_nth; eauto|exact Hax].
    - destruct (in_data_false _ _ Hi) as (k & a & b & n & Hsk & Hnk & Hb).
      destruct (all_some_nth _ _ Hs) as [Hls Hsn].
      assert (Hk' : (k < length dims)%nat) by (rewrite HL; apply nth_error_Some; congruence).
      destruct (nth_error dims k) as [d|] eqn:Hd; [|apply nth_error_None in Hd; lia].
      exists k, d, n. repeat split; auto. right. destruct (Hnth k d n Hd Hnk) as (r & Hr & Hax).
      destruct (Hsn k r Hr) as (x & -> & Hx). rewrite Hsk in Hx. injection Hx as <-. cbn in Hax.
      eapply axis_at_past; [eapply fits_nth; eauto|exact Hax|exact Hb]. }
  assert (LEN : forall sl s, calc_slices dims shape 0 pos ext units rule = inl sl -> all_some sl = Some s ->
                Nat.eqb (length s) (length shape) = true).
  { intros sl s Hc Hs. destruct (calc_slices_nth _ _ _ _ _ _ _ _ Hc) as [Hlen _]. destruct (all_some_nth _ _ Hs) as [Hls _].
    rewrite Hls, Hlen, HL, Nat.min_id. apply Nat.eqb_refl. }
  destruct H as [H|[H|H]].
  - unfold tag_tagged_data in H. destruct (_ && _); [discriminate|].
    destruct (calc_slices dims shape 0 pos ext units rule) as [sl|x] eqn:Hc; [|discriminate].
    destruct (all_some sl) as [s0|] eqn:Ha; [|apply (G sl eq_refl); left; exact Ha].
    destruct (in_data s0 shape) eqn:Hi; [|discriminate]. rewrite (LEN sl s0 eq_refl Ha) in H. discriminate.
  - unfold tag_tagged_data in H. destruct (_ && _); [discriminate|].
    destruct (calc_slices dims shape 0 pos ext units rule) as [sl|x] eqn:Hc;
      [|injection H as ->; exfalso; eapply calc_slices_err; eauto].
    destruct (all_some sl) as [s0|] eqn:Ha; [|discriminate].
    destruct (in_data s0 shape) eqn:Hi; [destruct (Nat.eqb _ _); discriminate|].
    apply (G sl eq_refl). right. eauto.
  - unfold mtag_tagged_data in H. destruct (mtag_shapes_differ pos ext); [discriminate|].
    destruct (calc_slices dims shape 0 pos ext units rule) as [sl|x] eqn:Hc; [|discriminate].
    destruct (all_some sl) as [s0|] eqn:Ha; [|apply (G sl eq_refl); left; exact Ha].
    destruct (in_data s0 shape) eqn:Hi; [|apply (G sl eq_refl); right; eauto].
    cbn [andb] in H. rewrite (LEN sl s0 eq_refl Ha) in H. discriminate.
Qed.

(* feature data by link type *)
Theorem feature_untagged m posidx dims shape pos ext units rule :
  feature_data m LUntagged posidx dims shape pos ext units rule = TData (whole shape).
Proof. reflexivity. Qed.
Theorem feature_indexed posidx dims n sr pos ext units rule : (0 <= posidx < n)%Z ->
  feature_data true LIndexed posidx dims (n :: sr) pos ext units rule = TData ((posidx, posidx + 1)%Z :: whole sr).
Proof. intros H. cbn. destruct (Z.ltb_spec n posidx); [lia|]. destruct (Z.leb_spec (posidx + 1) n); [reflexivity|lia]. Qed.
Theorem feature_tagged_exact m posidx dims shape pos ext units rule s :
  Forall2 dim_fits dims shape -> feature_data m LTagged posidx dims shape pos ext units rule = TData s ->
  forall k d n, nth_error dims k = Some d -> nth_error shape k = Some n ->
    exists a b, nth_error s k = Some (a, b) /\ (b <= n)%Z /\ axis_meaning d n k pos ext units rule a b.
Proof.
  intros Hfit. unfold feature_data. destruct (m && _); [discriminate|].
  destruct (calc_slices dims shape 0 pos ext units rule) as [sl|x] eqn:Hc; [|discriminate].
  destruct (all_some sl) as [s0|] eqn:Ha; [|discriminate]. destruct (in_data s0 shape) eqn:Hi; [|discriminate].
  destruct (Nat.eqb _ _); [|discriminate]. intros [= <-]. eapply slices_exact; eauto.
Qed.
