(* Pure/Units.v -- model of nixio/util/units.py, function by function, in the order and with
   the branch structure of the Python.  The regular expressions, the entry point each one is
   applied through, the prefix/unit alternations and the prefix exponents come from
   Gen/Units.v, i.e. from the current source.  Scale factors are exponents of ten. *)
From NixV Require Import Base.Prelude Pure.Regex Gen.Units.
Open Scope N_scope.

Definition nonempty (s : str) : bool := match s with [] => false | _ => true end.

(* def sanitizer(unit): unit.replace(" ", "").replace("mu", "u").replace(micro,"u").replace(mugr,"u")
   micro = U+00B5, mugr = U+03BC *)
Definition sanitizer (u : str) : str :=
  replace [956] [117] (replace [181] [117] (replace [109;117] [117] (replace [32] [] u))).

Definition is_atomic (u : str) : bool := is_some (run_entry entry_is_atomic re_is_atomic u).
(* return unit and compound_unit.search(unit) *)
Definition is_compound (u : str) : bool :=
  nonempty u && is_some (run_entry entry_is_compound re_is_compound u).
(* return unit and (is_atomic(unit) or is_compound(unit)) *)
Definition is_si (u : str) : bool := nonempty u && (is_atomic u || is_compound u).

(* split(): the attempts in source order; the first that matches decides.  A group that the
   attempt does not have yields "", `power` loses its leading "^" ([1:]). *)
Definition grp_or_empty (n : nat) (cs : caps) : str :=
  match n with O => [] | _ => getg n cs end.

Fixpoint split_with (atts : list (entry * re * (nat * nat * nat))) (u : str) : str * str * str :=
  match atts with
  | [] => ([], u, [])
  | (e, r, (gp, gu, gw)) :: rest =>
      match run_entry e r u with
      | Some cs => (grp_or_empty gp cs, getg gu cs, tl (grp_or_empty gw cs))
      | None => split_with rest u
      end
  end.
Definition split (u : str) : str * str * str := split_with split_attempts u.

(* scalable() on two strings *)
Definition scalable (a b : str) : bool :=
  if negb (is_si a && is_si b) then false
  else
    let '(_, au, ap) := split a in
    let '(_, bu, bp) := split b in
    if negb (streq au bu) || negb (streq ap bp) then false else true.

(* scalable() on two sequences of strings *)
Fixpoint scalable_lists (l1 l2 : list str) : bool :=
  match l1, l2 with
  | [], [] => true
  | a :: t1, b :: t2 => scalable a b && scalable_lists t1 t2
  | _, _ => false
  end.

Fixpoint lookup_exp (p : str) (tbl : list (str * Z)) : option Z :=
  match tbl with
  | [] => None
  | (k, e) :: t => if streq k p then Some e else lookup_exp p t
  end.

(* Python's int() on the power text: [+-]?digits *)
Fixpoint digits_val (acc : Z) (s : str) : option Z :=
  match s with
  | [] => Some acc
  | c :: t => if (48 <=? c) && (c <=? 57)
              then digits_val (acc * 10 + Z.of_N (c - 48)) t else None
  end.
Definition parse_int (s : str) : option Z :=
  match s with
  | [] => None
  | 45 :: t => match t with [] => None | _ => option_map Z.opp (digits_val 0 t) end
  | 43 :: t => match t with [] => None | _ => digits_val 0 t end
  | _ => digits_val 0 s
  end.

Inductive sres := SOk (e : Z) | SRefused | SError.

(* scaling(): the factor returned is 10^e.  The four branches as written. *)
Definition scaling (o d : str) : sres :=
  if negb (scalable o d) then SRefused
  else
    let '(op, _, opw) := split o in
    let '(dp, _, dpw) := split d in
    if streq op dp && streq opw dpw then SOk 0
    else
      let e :=
        if negb (nonempty dp) && nonempty op then lookup_exp op prefix_exps
        else if negb (nonempty op) && nonempty dp then option_map Z.opp (lookup_exp dp prefix_exps)
        else if nonempty op && nonempty dp then
          match lookup_exp op prefix_exps, lookup_exp dp prefix_exps with
          | Some x, Some y => Some (x - y)%Z
          | _, _ => None
          end
        else Some 0%Z in
      match e with
      | None => SError
      | Some e =>
          if nonempty opw then
            match parse_int opw with
            | Some p => SOk (e * p)
            | None => SError
            end
          else SOk e
      end.

Definition invert_power (u : str) : str :=
  let '(p, b, w) := split u in
  if negb (nonempty w) then p ++ b ++ [94;45;49]
  else match w with
       | 45 :: w' => p ++ b ++ [94] ++ w'
       | _ => p ++ b ++ [94] ++ ([94;45] ++ w)
       end.

(* ---- helpers for statements: the finite table domain ---- *)
Definition powers : list str :=
  [ []; [94;49]; [94;50]; [94;51]; [94;45;49]; [94;45;50]; [94;45;51] ].
Definition opt_prefixes : list str := [] :: prefixes.
Definition pexp (p : str) : Z := match lookup_exp p prefix_exps with Some e => e | None => 0 end.
(* numeric power of a written power text ("" = 1) *)
Definition pow_val (k : str) : Z :=
  match k with [] => 1 | _ => match parse_int (tl k) with Some p => p | None => 1 end end.
