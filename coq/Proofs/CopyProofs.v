(* Proofs/CopyProofs.v -- H5Ocopy as "append a shifted copy of all nodes" (H5/Store.v):
   the copy is isomorphic to the source (every entity walk from the copy of a equals the walk from a),
   links among copied nodes lead to copied nodes, source and destination nodes are untouched,
   later writes on one side are invisible on the other, regenerated ids are fresh and distinct. *)
From NixV Require Import Base.Prelude H5.Store Nix.Api Nix.Observe Proofs.StoreLemmas Proofs.WalkProofs.
From Coq Require Import Lia.
Open Scope nat_scope.

(* ---- a simulation between two views along an address map phi on a closed domain P *)
Definition view_sim (P : addr -> Prop) (phi : addr -> addr) (v v' : view) : Prop :=
  (forall a k, P a -> v_attr v' (phi a) k = v_attr v a k) /\
  (forall a k, P a -> v_link v' (phi a) k = v_link v a k) /\
  (forall a k, P a -> v_link_req v' (phi a) k = v_link_req v a k) /\
  (forall a k, P a -> v_payload v' (phi a) k = v_payload v a k) /\
  (forall a k, P a -> v_list v' (phi a) k = map (fun p => (fst p, phi (snd p))) (v_list v a k)) /\
  (forall a k p, P a -> In p (v_list v a k) -> P (snd p)).

Lemma flat_map_map {A B C} (f : B -> list C) (g : A -> B) l : flat_map f (map g l) = flat_map (fun x => f (g x)) l.
Proof. induction l as [|x l IH]; cbn; [reflexivity|]. now rewrite IH. Qed.
Lemma flat_map_ext_in {A B} (f g : A -> list B) l : (forall x, In x l -> f x = g x) -> flat_map f l = flat_map g l.
Proof. intros H. induction l as [|x l IH]; cbn; [reflexivity|]. rewrite H by (now left). rewrite IH; [reflexivity|].
  intros y Hy. apply H. now right. Qed.

Section Sim.
  Variable t : bool.
  Variable P : addr -> Prop.
  Variable phi : addr -> addr.
  Variables v v' : view.
  Hypothesis S : view_sim P phi v v'.

  Let Sa := proj1 S.
  Let Sl := proj1 (proj2 S).
  Let Sr := proj1 (proj2 (proj2 S)).
  Let Sp := proj1 (proj2 (proj2 (proj2 S))).
  Let Sc := proj1 (proj2 (proj2 (proj2 (proj2 S)))).
  Let Sclosed := proj2 (proj2 (proj2 (proj2 (proj2 S)))).

  Lemma w_times_sim a : P a -> w_times t v' (phi a) = w_times t v a.
  Proof. intros H. unfold w_times, w_time1. destruct t; [rewrite !Sa by exact H|]; reflexivity. Qed.
  Lemma w_header_sim k a : P a -> w_header t v' k (phi a) = w_header t v k a.
  Proof. intros H. unfold w_header. rewrite !Sa, w_times_sim by exact H. reflexivity. Qed.
  Lemma w_linklist_sim a r : P a -> w_linklist v' (phi a) r = w_linklist v a r.
  Proof. intros H. unfold w_linklist. rewrite Sc by exact H. rewrite flat_map_map. f_equal. f_equal.
    apply flat_map_ext_in. intros p Hp. cbn. apply Sa. eapply Sclosed; eauto. Qed.
  Lemma w_children_sim a cn f g : P a -> (forall x, P x -> f (phi x) = g x) ->
    w_children v' (phi a) cn f = w_children v a cn g.
  Proof. intros H Hfg. unfold w_children. rewrite Sc by exact H. rewrite flat_map_map. f_equal. f_equal.
    apply flat_map_ext_in. intros p Hp. cbn. apply Hfg. eapply Sclosed; eauto. Qed.
  Lemma w_feature_sim a : P a -> w_feature t v' (phi a) = w_feature t v a.
  Proof. intros H. unfold w_feature. rewrite !Sa, Sr, w_times_sim by exact H. reflexivity. Qed.
  Lemma w_group_sim a : P a -> w_group t v' (phi a) = w_group t v a.
  Proof. intros H. unfold w_group. rewrite w_header_sim, Sl, !w_linklist_sim by exact H. reflexivity. Qed.
  Lemma w_data_array_sim a : P a -> w_data_array t v' (phi a) = w_data_array t v a.
  Proof. intros H. unfold w_data_array. rewrite w_header_sim, !Sa, Sp, Sl, w_linklist_sim by exact H. reflexivity. Qed.
  Lemma w_data_frame_sim a : P a -> w_data_frame t v' (phi a) = w_data_frame t v a.
  Proof. intros H. unfold w_data_frame. rewrite w_header_sim, Sp, Sl by exact H. reflexivity. Qed.
  Lemma w_tag_sim a : P a -> w_tag t v' (phi a) = w_tag t v a.
  Proof. intros H. unfold w_tag. rewrite w_header_sim, Sp, Sl, !w_linklist_sim by exact H.
    rewrite (w_children_sim a s_features _ (w_feature t v) H) by apply w_feature_sim. reflexivity. Qed.
  Lemma w_multi_tag_sim a : P a -> w_multi_tag t v' (phi a) = w_multi_tag t v a.
  Proof. intros H. unfold w_multi_tag. rewrite w_header_sim, Sr, !Sl, !w_linklist_sim by exact H.
    rewrite (w_children_sim a s_features _ (w_feature t v) H) by apply w_feature_sim. reflexivity. Qed.
  Lemma w_property_sim a : P a -> w_property t v' (phi a) = w_property t v a.
  Proof. intros H. unfold w_property. rewrite !Sa, w_times_sim by exact H. reflexivity. Qed.
  Lemma w_source_sim fuel : forall a, P a -> w_source t v' fuel (phi a) = w_source t v fuel a.
  Proof. induction fuel as [|f IH]; intros a H; cbn [w_source]; [reflexivity|].
    rewrite w_header_sim, Sl by exact H. rewrite (w_children_sim a s_sources _ (w_source t v f) H) by apply IH.
    reflexivity. Qed.
  Lemma w_section_sim fuel : forall a, P a -> w_section t v' fuel (phi a) = w_section t v fuel a.
  Proof. induction fuel as [|f IH]; intros a H; cbn [w_section]; [reflexivity|].
    rewrite w_header_sim, !Sa, Sl by exact H.
    rewrite (w_children_sim a s_properties _ (w_property t v) H) by apply w_property_sim.
    rewrite (w_children_sim a s_sections _ (w_section t v f) H) by apply IH. reflexivity. Qed.
  Lemma w_block_sim a : P a -> w_block t v' (phi a) = w_block t v a.
  Proof. intros H. unfold w_block. rewrite w_header_sim, Sl by exact H.
    rewrite (w_children_sim a s_groups _ (w_group t v) H) by apply w_group_sim.
    rewrite (w_children_sim a s_data_arrays _ (w_data_array t v) H) by apply w_data_array_sim.
    rewrite (w_children_sim a s_tags _ (w_tag t v) H) by apply w_tag_sim.
    rewrite (w_children_sim a s_multi_tags _ (w_multi_tag t v) H) by apply w_multi_tag_sim.
    rewrite (w_children_sim a s_sources _ (w_source t v walk_fuel) H) by apply w_source_sim.
    rewrite (w_children_sim a s_data_frames _ (w_data_frame t v) H) by apply w_data_frame_sim.
    reflexivity. Qed.
  Lemma walk_v_sim : P 0 -> phi 0 = 0 -> walk_v t v' = walk_v t v.
  Proof. intros H0 E0. unfold walk_v. rewrite <- E0.
    rewrite (w_times_sim 0 H0).
    rewrite (w_children_sim 0 s_data _ (w_block t v) H0) by apply w_block_sim.
    rewrite (w_children_sim 0 s_metadata _ (w_section t v walk_fuel) H0) by apply w_section_sim.
    rewrite E0. reflexivity. Qed.
End Sim.

(* ---- node level *)
Lemma nth_app_shift {A} (l l' : list A) a d : nth (a + length l) (l ++ l') d = nth a l' d.
Proof. rewrite app_nth2 by lia. f_equal. lia. Qed.
Lemma node_at_copy dst src a :
  node_at (h5copy_into dst src) (copy_addr dst a) = shift_node (length (nodes dst)) (node_at src a).
Proof.
  unfold node_at, h5copy_into, copy_addr. cbn [nodes]. rewrite nth_app_shift.
  destruct (Nat.lt_ge_cases a (length (nodes src))) as [H|H].
  - rewrite (nth_indep _ empty_node (shift_node (length (nodes dst)) empty_node)) by (rewrite map_length; exact H).
    apply map_nth.
  - rewrite !nth_overflow; [reflexivity | exact H | rewrite map_length; exact H].
Qed.
Lemma node_at_copy_old dst src a : (a < length (nodes dst))%nat -> node_at (h5copy_into dst src) a = node_at dst a.
Proof. intros H. unfold node_at, h5copy_into. cbn [nodes]. apply app_nth1. exact H. Qed.
Lemma copy_keeps_destination dst src :
  firstn (length (nodes dst)) (nodes (h5copy_into dst src)) = nodes dst.
Proof. unfold h5copy_into. cbn [nodes]. rewrite firstn_app, Nat.sub_diag, firstn_all. cbn. apply app_nil_r. Qed.

(* a link a -> b of the source is a link copy(a) -> copy(b) of the copy, under the same name, in
   the same place; the copy has no other links; none of them leads to an old node *)
Lemma copy_internal_links dst src a :
  links (node_at (h5copy_into dst src) (copy_addr dst a)) =
  map (fun p => (fst p, copy_addr dst (snd p))) (links (node_at src a)).
Proof. rewrite node_at_copy. reflexivity. Qed.
Lemma copy_links_are_new dst src a k x :
  In (k, x) (links (node_at (h5copy_into dst src) (copy_addr dst a))) -> (length (nodes dst) <= x)%nat.
Proof. rewrite copy_internal_links. intros H. apply in_map_iff in H. destruct H as ([k' y] & E & _).
  injection E as _ <-. unfold copy_addr. cbn. lia. Qed.
Lemma copy_attrs dst src a : attrs (node_at (h5copy_into dst src) (copy_addr dst a)) = attrs (node_at src a).
Proof. rewrite node_at_copy. reflexivity. Qed.

(* ---- the view of any store that holds the shifted source nodes from address n on simulates the
   source's view, whatever else the store holds *)
Definition is_copy_of (t src : store) (n : nat) : Prop :=
  forall a, a < length (nodes src) -> node_at t (a + n) = shift_node n (node_at src a).

Lemma link_get_shift k n l : link_get k (map (fun p : tok * addr => (fst p, (snd p + n)%nat)) l) = option_map (fun x => (x + n)%nat) (link_get k l).
Proof. induction l as [|[k' x] l IH]; cbn; [reflexivity|]. destruct (tok_eqb k' k); [reflexivity | exact IH]. Qed.

Lemma copy_view_sim t src n : wf src -> is_copy_of t src n ->
  view_sim (fun a => a < length (nodes src)) (fun a => (a + n)%nat) (view_of src) (view_of t).
Proof.
  intros W C.
  assert (GA : forall a k, a < length (nodes src) -> get_attr t (a + n) k = get_attr src a k).
  { intros a k H. unfold get_attr. rewrite C by exact H. reflexivity. }
  assert (CH : forall a k, a < length (nodes src) -> child t (a + n) k = option_map (fun x => (x + n)%nat) (child src a k)).
  { intros a k H. unfold child. rewrite C by exact H. cbn [links shift_node]. apply link_get_shift. }
  assert (EI : forall a, a < length (nodes src) -> entity_id t (a + n) = entity_id src a).
  { intros a H. unfold entity_id, attr_tok. rewrite GA by exact H. reflexivity. }
  assert (WA : forall a k, a < length (nodes src) -> w_attr t (a + n) k = w_attr src a k).
  { intros a k H. unfold w_attr. rewrite GA by exact H. reflexivity. }
  repeat split; cbn [view_of v_attr v_link v_link_req v_payload v_list]; intros a k; intros; auto.
  - rewrite CH by assumption. destruct (child src a (TS k)) eqn:Ec; cbn; [rewrite EI|]; try reflexivity. eapply wf_child; eauto.
  - rewrite CH by assumption. destruct (child src a (TS k)) eqn:Ec; cbn; [rewrite EI|]; try reflexivity. eapply wf_child; eauto.
  - rewrite CH by assumption. destruct (child src a (TS k)) eqn:Ec; cbn; [rewrite WA|]; try reflexivity. eapply wf_child; eauto.
  - rewrite CH by assumption. unfold cont_links. destruct (child src a (TS k)) as [c|] eqn:Ec; cbn; [|reflexivity].
    rewrite C by (eapply wf_child; eauto). reflexivity.
  - unfold cont_links in *. destruct (child src a (TS k)) as [c|] eqn:Ec; [|contradiction].
    destruct p as [k' x]. eapply W. eassumption.
Qed.

Lemma h5copy_is_copy dst src : is_copy_of (h5copy_into dst src) src (length (nodes dst)).
Proof. intros a _. apply (node_at_copy dst src a). Qed.

(* ---- the walk of every entity kind from the copy equals the walk from the source *)
Section Iso.
  Variable wt : bool.
  Variables t src : store.
  Variable n : nat.
  Hypothesis W : wf src.
  Hypothesis C : is_copy_of t src n.
  Let S := copy_view_sim t src n W C.
  Theorem copy_block_walk a : a < length (nodes src) -> w_block wt (view_of t) (a + n) = w_block wt (view_of src) a.
  Proof. apply (w_block_sim wt _ _ _ _ S a). Qed.
  Theorem copy_data_array_walk a : a < length (nodes src) -> w_data_array wt (view_of t) (a + n) = w_data_array wt (view_of src) a.
  Proof. apply (w_data_array_sim wt _ _ _ _ S a). Qed.
  Theorem copy_tag_walk a : a < length (nodes src) -> w_tag wt (view_of t) (a + n) = w_tag wt (view_of src) a.
  Proof. apply (w_tag_sim wt _ _ _ _ S a). Qed.
  Theorem copy_multi_tag_walk a : a < length (nodes src) -> w_multi_tag wt (view_of t) (a + n) = w_multi_tag wt (view_of src) a.
  Proof. apply (w_multi_tag_sim wt _ _ _ _ S a). Qed.
  Theorem copy_section_walk fuel a : a < length (nodes src) -> w_section wt (view_of t) fuel (a + n) = w_section wt (view_of src) fuel a.
  Proof. apply (w_section_sim wt _ _ _ _ S fuel a). Qed.
  Theorem copy_property_walk a : a < length (nodes src) -> w_property wt (view_of t) (a + n) = w_property wt (view_of src) a.
  Proof. apply (w_property_sim wt _ _ _ _ S a). Qed.
End Iso.

(* ---- independence.  "t holds the copy" and "t agrees with s below n" survive every write that
   stays on the other side, and the creation of new nodes *)
Lemma copy_survives_write t src n w f : is_copy_of t src n -> (w < n \/ n + length (nodes src) <= w) ->
  is_copy_of (upd_node t w f) src n.
Proof. intros C H a Ha. rewrite node_at_upd_other by lia. apply C, Ha. Qed.
Lemma copy_survives_new_node t src n x : is_copy_of t src n -> n + length (nodes src) <= length (nodes t) ->
  is_copy_of (fst (new_node t x)) src n.
Proof. intros C H a Ha. rewrite node_at_new_old by lia. apply C, Ha. Qed.

Definition agree_below (t s : store) (n : nat) : Prop := forall a, (a < n)%nat -> node_at t a = node_at s a.
Lemma old_survives_copy_write t s n w f : agree_below t s n -> (n <= w)%nat -> agree_below (upd_node t w f) s n.
Proof. intros A H a Ha. rewrite node_at_upd_other by lia. apply A, Ha. Qed.
Lemma old_survives_new_node t s n x : agree_below t s n -> n <= length (nodes t) -> agree_below (fst (new_node t x)) s n.
Proof. intros A H a Ha. rewrite node_at_new_old by lia. apply A, Ha. Qed.
Lemma h5copy_agrees dst src : agree_below (h5copy_into dst src) dst (length (nodes dst)).
Proof. intros a H. apply node_at_copy_old, H. Qed.

Lemma old_view_sim t s : wf s -> agree_below t s (length (nodes s)) ->
  view_sim (fun a => (a < length (nodes s))%nat) (fun a => a) (view_of s) (view_of t).
Proof.
  intros W A.
  assert (GA : forall a k, (a < length (nodes s))%nat -> get_attr t a k = get_attr s a k).
  { intros a k H. unfold get_attr. rewrite A by exact H. reflexivity. }
  assert (CH : forall a k, (a < length (nodes s))%nat -> child t a k = child s a k).
  { intros a k H. unfold child. rewrite A by exact H. reflexivity. }
  assert (EI : forall a, (a < length (nodes s))%nat -> entity_id t a = entity_id s a).
  { intros a H. unfold entity_id, attr_tok. rewrite GA by exact H. reflexivity. }
  assert (WA : forall a k, (a < length (nodes s))%nat -> w_attr t a k = w_attr s a k).
  { intros a k H. unfold w_attr. rewrite GA by exact H. reflexivity. }
  repeat split; cbn [view_of v_attr v_link v_link_req v_payload v_list]; intros a k; intros; auto.
  - rewrite CH by assumption. destruct (child s a (TS k)) eqn:Ec; [rewrite EI|]; try reflexivity. eapply wf_child; eauto.
  - rewrite CH by assumption. destruct (child s a (TS k)) eqn:Ec; [rewrite EI|]; try reflexivity. eapply wf_child; eauto.
  - rewrite CH by assumption. destruct (child s a (TS k)) eqn:Ec; [rewrite WA|]; try reflexivity. eapply wf_child; eauto.
  - rewrite CH by assumption. unfold cont_links. destruct (child s a (TS k)) as [c|] eqn:Ec; [|reflexivity].
    rewrite A by (eapply wf_child; eauto). rewrite map_ext with (g := fun p => p) by (intros []; reflexivity).
    now rewrite map_id.
  - unfold cont_links in *. destruct (child s a (TS k)) as [c|] eqn:Ec; [|contradiction].
    destruct p as [k' x]. eapply W. eassumption.
Qed.

Section Old.
  Variable wt : bool.
  Variables t s : store.
  Hypothesis W : wf s.
  Hypothesis A : agree_below t s (length (nodes s)).
  Let S := old_view_sim t s W A.
  Theorem old_block_walk a : a < length (nodes s) -> w_block wt (view_of t) a = w_block wt (view_of s) a.
  Proof. apply (w_block_sim wt _ _ _ _ S a). Qed.
  Theorem old_data_array_walk a : a < length (nodes s) -> w_data_array wt (view_of t) a = w_data_array wt (view_of s) a.
  Proof. apply (w_data_array_sim wt _ _ _ _ S a). Qed.
  Theorem old_tag_walk a : a < length (nodes s) -> w_tag wt (view_of t) a = w_tag wt (view_of s) a.
  Proof. apply (w_tag_sim wt _ _ _ _ S a). Qed.
  Theorem old_multi_tag_walk a : a < length (nodes s) -> w_multi_tag wt (view_of t) a = w_multi_tag wt (view_of s) a.
  Proof. apply (w_multi_tag_sim wt _ _ _ _ S a). Qed.
  Theorem old_section_walk fuel a : a < length (nodes s) -> w_section wt (view_of t) fuel a = w_section wt (view_of s) fuel a.
  Proof. apply (w_section_sim wt _ _ _ _ S fuel a). Qed.
  Theorem old_property_walk a : a < length (nodes s) -> w_property wt (view_of t) a = w_property wt (view_of s) a.
  Proof. apply (w_property_sim wt _ _ _ _ S a). Qed.
  Theorem old_file_walk : 0 < length (nodes s) -> walk wt t = walk wt s.
  Proof. intros H. unfold walk. apply (walk_v_sim wt _ _ _ _ S H eq_refl). Qed.
End Old.

(* the copy is invisible until it is linked into the destination *)
Theorem unlinked_copy_invisible wt dst src : wf dst -> 0 < length (nodes dst) ->
  walk wt (h5copy_into dst src) = walk wt dst.
Proof. intros W H. apply old_file_walk; [exact W | apply h5copy_agrees | exact H]. Qed.

(* ---- fresh ids *)
Lemma nth_map_indexed {A B} (f : nat * A -> B) (l : list A) a d d' : a < length l ->
  nth a (map f (combine (seq 0 (length l)) l)) d' = f (a, nth a l d).
Proof.
  intros H. rewrite (nth_indep _ d' (f (0, d))) by (rewrite map_length, combine_length, seq_length; lia).
  rewrite map_nth. f_equal. rewrite combine_nth by apply seq_length. f_equal. apply seq_nth. exact H.
Qed.
Lemma regen_length s n0 base : length (nodes (regen_ids s n0 base)) = length (nodes s).
Proof. unfold regen_ids. cbn [nodes]. rewrite map_length, combine_length, seq_length. lia. Qed.
Lemma node_at_regen s n0 base a : a < length (nodes s) ->
  node_at (regen_ids s n0 base) a = if Nat.leb n0 a then regen_node s n0 base a (node_at s a) else node_at s a.
Proof. intros H. unfold node_at, regen_ids. cbn [nodes]. rewrite (nth_map_indexed _ _ a empty_node) by exact H. reflexivity. Qed.

(* nodes below n0 - the source, and everything else that existed - are not touched *)
Lemma regen_old s n0 base a : a < n0 -> node_at (regen_ids s n0 base) a = node_at s a.
Proof.
  intros H. destruct (Nat.lt_ge_cases a (length (nodes s))) as [Hl|Hl].
  - rewrite node_at_regen by exact Hl. destruct (Nat.leb_spec n0 a); [lia | reflexivity].
  - rewrite !node_at_oob; [reflexivity | exact Hl | rewrite regen_length; exact Hl].
Qed.
(* a node from n0 on that had an id has the fresh id of its address; the fresh ids are pairwise
   distinct and differ from every id generated before (those are TI j with j < base) and from
   every literal text *)
Lemma regen_new_id s n0 base a i : n0 <= a -> a < length (nodes s) -> entity_id s a = Some i ->
  entity_id (regen_ids s n0 base) a = Some (fresh_for n0 base a).
Proof.
  intros H Hl E. unfold entity_id, attr_tok, get_attr in *. rewrite node_at_regen by exact Hl.
  destruct (Nat.leb_spec n0 a); [|lia]. cbn [regen_node attrs].
  destruct (assoc_get k_id (attrs (node_at s a))) eqn:Eg; [|discriminate].
  rewrite assoc_get_set_same. reflexivity.
Qed.
Lemma regen_no_id s n0 base a : entity_id s a = None -> get_attr s a k_id = None ->
  entity_id (regen_ids s n0 base) a = None.
Proof.
  intros _ E. destruct (Nat.lt_ge_cases a (length (nodes s))) as [Hl|Hl].
  - unfold entity_id, attr_tok, get_attr in *. rewrite node_at_regen by exact Hl.
    destruct (Nat.leb n0 a); cbn [regen_node attrs]; rewrite !E; reflexivity.
  - unfold entity_id, attr_tok, get_attr. rewrite node_at_oob by (rewrite regen_length; exact Hl). reflexivity.
Qed.
Lemma fresh_injective n0 base a b : n0 <= a -> n0 <= b -> fresh_for n0 base a = fresh_for n0 base b -> a = b.
Proof. unfold fresh_for. intros Ha Hb E. injection E as E. lia. Qed.
Lemma fresh_is_new n0 base a j : (j < base)%N -> fresh_for n0 base a <> TI j.
Proof. unfold fresh_for. intros H E. injection E as E. lia. Qed.
Lemma fresh_not_text n0 base a l : fresh_for n0 base a <> TS l.
Proof. discriminate. Qed.
(* every other attribute, the link targets and their order, and the kind of object stay *)
Lemma regen_other_attr s n0 base a k : k <> k_id -> get_attr (regen_ids s n0 base) a k = get_attr s a k.
Proof.
  intros Hk. destruct (Nat.lt_ge_cases a (length (nodes s))) as [Hl|Hl].
  - unfold get_attr. rewrite node_at_regen by exact Hl. destruct (Nat.leb n0 a); [|reflexivity].
    cbn [regen_node attrs]. destruct (assoc_get k_id (attrs (node_at s a))); [|reflexivity].
    apply assoc_get_set_other. exact Hk.
  - unfold get_attr. rewrite !node_at_oob; [reflexivity | exact Hl | rewrite regen_length; exact Hl].
Qed.
Lemma regen_link_targets s n0 base a :
  map snd (links (node_at (regen_ids s n0 base) a)) = map snd (links (node_at s a)).
Proof.
  destruct (Nat.lt_ge_cases a (length (nodes s))) as [Hl|Hl].
  - rewrite node_at_regen by exact Hl. destruct (Nat.leb n0 a); [|reflexivity].
    cbn [regen_node links]. rewrite map_map. apply map_ext. intros [k x]. cbn. destruct (_ && _); reflexivity.
  - rewrite !node_at_oob; [reflexivity | exact Hl | rewrite regen_length; exact Hl].
Qed.
(* a link that was named by the id of its (copied) target is named by the target's new id *)
Lemma regen_link_names s n0 base a k x : n0 <= a -> a < length (nodes s) -> n0 <= x ->
  In (k, x) (links (node_at s a)) -> entity_id s x = Some k ->
  In (fresh_for n0 base x, x) (links (node_at (regen_ids s n0 base) a)).
Proof.
  intros Ha Hl Hx Hin E. rewrite node_at_regen by exact Hl. destruct (Nat.leb_spec n0 a); [|lia].
  cbn [regen_node links]. apply in_map_iff. exists (k, x). split; [|exact Hin]. cbn.
  destruct (Nat.leb_spec n0 x); [|lia]. rewrite E. cbn. rewrite tok_eqb_refl. reflexivity.
Qed.

(* ---- a refused copy: an existing name at the destination is refused before anything is written *)
Lemma ensure_group_existing s a k c : child s a k = Some c -> ensure_group s a k = (s, c).
Proof. unfold ensure_group. intros ->. reflexivity. Qed.
Lemma in_group_exists s c name : in_group s c name = true -> exists ca, c = Some ca.
Proof. destruct c; [eauto | discriminate]. Qed.

Lemma bind_ok {A B} (m : M A) (k : A -> M B) s s1 x : m s = (s1, inl x) -> bind m k s = k x s1.
Proof. intros E. unfold bind. rewrite E. reflexivity. Qed.

Theorem copy_refused_unchanged dh xh name keep children s d x c name' :
  nth_error (hs s) (N.to_nat dh) = Some d -> nth_error (hs s) (N.to_nat xh) = Some x ->
  copy_container (hk d) (hk x) = Some c ->
  match name with Some n => Some n | None => entity_name (sto s) (ha x) end = Some name' ->
  in_group (sto s) (child (sto s) (ha d) (TS (cgroup (hk d) c))) name' = true ->
  ro s = false ->
  api_copy dh xh name keep children s = (s, inr EOther).
Proof.
  intros Hd Hx Hc Hn Hdup Hro. unfold api_copy.
  rewrite (bind_ok (the_handle dh) _ s s d) by (unfold the_handle; rewrite Hd; reflexivity).
  rewrite (bind_ok (the_handle xh) _ s s x) by (unfold the_handle; rewrite Hx; reflexivity).
  rewrite Hc.
  rewrite (bind_ok (rd _) _ s s (entity_name (sto s) (ha x))) by reflexivity.
  rewrite Hn.
  destruct (in_group_exists _ _ _ Hdup) as [ca Eca].
  assert (E1 : (match hk d with
                | KFile => ret tt
                | _ => ca0 <- wr_ret (fun s1 => ensure_group s1 (ha d) (TS (cgroup (hk d) c))) ;; ret tt
                end) s = (s, inl tt)).
  { revert Eca. destruct (hk d); intros Eca; try reflexivity;
      unfold bind, wr_ret; rewrite Hro, (ensure_group_existing _ _ _ _ Eca); destruct s; cbn in *; subst; reflexivity. }
  rewrite (bind_ok _ _ s s tt E1).
  rewrite (bind_ok (rd _) _ s s true) by (unfold rd; rewrite Hdup; reflexivity).
  reflexivity.
Qed.
