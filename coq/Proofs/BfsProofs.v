(* Proofs/BfsProofs.v -- C13: the queue-based search returns exactly the nodes within the depth
   limit that satisfy the filter, each once, in breadth-first (level) order. *)
From Coq Require Import List Arith Lia Bool.
From NixV Require Import Pure.Bfs.
Import ListNotations.

Section P.
  Variable A : Type.
  Notation tree := (tree A).

  Lemma size_unfold (t : tree) : size t = S (fsize (kids t)).
  Proof. destruct t as [a cs]. reflexivity. Qed.
  Lemma fsize_app (a b : list tree) : fsize (a ++ b) = fsize a + fsize b.
  Proof. unfold fsize. induction a as [|x r IH]; cbn [app fold_right]; [reflexivity|]. rewrite IH. lia. Qed.
  Lemma fsize_cons (t : tree) ts : fsize (t :: ts) = S (fsize (kids t)) + fsize ts.
  Proof. unfold fsize at 1. cbn [fold_right]. rewrite size_unfold. reflexivity. Qed.
  Definition qsize (q : list (tree * nat)) := fsize (map fst q).
  Lemma qsize_app a b : qsize (a ++ b) = qsize a + qsize b.
  Proof. unfold qsize. now rewrite map_app, fsize_app. Qed.
  Lemma qsize_tag l (ts : list tree) : qsize (tag l ts) = fsize ts.
  Proof. unfold qsize, tag. rewrite map_map. cbn. now rewrite map_id. Qed.

  Lemma bfs_level limit l : S l <= limit -> forall (ts : list tree) q2 fuel,
    qsize (tag l ts ++ q2) <= fuel ->
    bfs fuel limit (tag l ts ++ q2) =
    map root ts ++ bfs (fuel - length ts) limit (q2 ++ tag (S l) (flat_map kids ts)).
  Proof.
    intros Hl. induction ts as [|t ts IH]; intros q2 fuel Hf.
    - cbn. rewrite Nat.sub_0_r, app_nil_r. reflexivity.
    - rewrite qsize_app, qsize_tag, fsize_cons in Hf. destruct fuel as [|f]; [lia|].
      cbn [tag map app bfs]. apply Nat.leb_le in Hl. rewrite Hl.
      change (map (fun t0 => (t0, l)) ts) with (tag l ts).
      rewrite <- app_assoc. rewrite IH.
      + cbn [map app flat_map length Nat.sub]. f_equal. unfold tag at 3. rewrite map_app.
        rewrite <- app_assoc. reflexivity.
      + rewrite !qsize_app, !qsize_tag in *. lia.
  Qed.

  Lemma bfs_last limit l : limit <= l -> forall (ts : list tree) fuel, length ts <= fuel ->
    bfs fuel limit (tag l ts) = map root ts.
  Proof.
    intros Hl. induction ts as [|t ts IH]; intros fuel Hf; [destruct fuel; reflexivity|].
    destruct fuel as [|f]; [cbn in Hf; lia|]. cbn [tag map bfs].
    assert (E : (S l <=? limit) = false) by (apply Nat.leb_gt; lia). rewrite E.
    f_equal. apply IH. cbn in Hf. lia.
  Qed.
  Lemma len_le_fsize (ts : list tree) : length ts <= fsize ts.
  Proof. induction ts as [|t r IH]; [cbn; lia|]. rewrite fsize_cons. cbn [length]. lia. Qed.

  Theorem bfs_levels : forall d limit l (ts : list tree) fuel, l + d = limit -> fsize ts <= fuel ->
    bfs fuel limit (tag l ts) = levels d ts.
  Proof.
    induction d as [|d IH]; intros limit l ts fuel Hd Hf.
    - cbn [levels]. rewrite app_nil_r. apply bfs_last; [lia|]. pose proof (len_le_fsize ts). lia.
    - cbn [levels]. rewrite <- (app_nil_r (tag l ts)). rewrite bfs_level.
      + cbn [app]. f_equal. apply IH; [lia|].
        clear -Hf. revert fuel Hf. induction ts as [|t r IHr]; intros fuel Hf; [cbn; lia|].
        rewrite fsize_cons in Hf. cbn [flat_map length]. rewrite fsize_app.
        assert (H : fsize r <= fuel - S (fsize (kids t))) by lia. specialize (IHr _ H).
        pose proof (len_le_fsize r). lia.
      + lia.
      + rewrite qsize_app, qsize_tag. unfold qsize. cbn. lia.
  Qed.

  (* a Section / Source as root: itself (depth 0) and [limit] levels below, filtered *)
  Theorem find_entity_root (t : tree) limit filt :
    find true t limit filt = filter filt (levels limit [t]).
  Proof.
    unfold find. f_equal. change [(t, 0)] with (tag 0 [t]).
    apply bfs_levels; [lia|]. unfold fsize. cbn. lia.
  Qed.
  (* a File / Block as root: the levels 1 .. limit; nothing for limit = 0 *)
  Theorem find_container_root (t : tree) limit filt :
    find false t limit filt =
    filter filt (match limit with O => [] | S d => levels d (kids t) end).
  Proof.
    unfold find. f_equal. destruct limit as [|d]; [reflexivity|]. cbn [Nat.leb].
    apply bfs_levels; [lia | lia].
  Qed.

  (* a limit at least as large as the tree: the whole subtree (what `limit=None` means) *)
  Fixpoint depth (t : tree) : nat := match t with T _ cs => S (fold_right (fun t n => Nat.max (depth t) n) 0 cs) end.
  Definition fdepth (ts : list tree) : nat := fold_right (fun t n => Nat.max (depth t) n) 0 ts.
  Lemma levels_nil d : levels d (@nil tree) = [].
  Proof. induction d as [|d IH]; [reflexivity|]. cbn. exact IH. Qed.
  Lemma levels_saturate : forall d (ts : list tree), fdepth ts <= S d -> forall d', d <= d' -> levels d' ts = levels d ts.
  Proof.
    induction d as [|d IH]; intros ts Hd d' Hle.
    - destruct d' as [|d']; [reflexivity|]. cbn [levels]. f_equal.
      assert (E : flat_map kids ts = []).
      { induction ts as [|[a cs] r IHr]; [reflexivity|]. cbn [fdepth fold_right depth] in Hd.
        cbn [flat_map kids]. destruct cs as [|c cs'].
        - cbn. apply IHr. unfold fdepth. lia.
        - exfalso. cbn [fold_right depth] in Hd. destruct c as [b bs]. cbn [depth] in Hd. lia. }
      rewrite E. apply levels_nil.
    - destruct d' as [|d']; [lia|]. cbn [levels]. f_equal. apply IH; [|lia].
      clear -Hd. induction ts as [|[a cs] r IHr]; [cbn; lia|].
      cbn [flat_map kids]. unfold fdepth in *. rewrite fold_right_app.
      cbn [fold_right depth] in Hd.
      assert (H1 : fold_right (fun t n => Nat.max (depth t) n) 0 r <= S (S d)) by lia.
      specialize (IHr H1).
      assert (G : forall l n0, fold_right (fun t n => Nat.max (depth t) n) n0 l =
                              Nat.max (fold_right (fun t n => Nat.max (depth t) n) 0 l) n0).
      { induction l as [|x l IHl]; intros n0; cbn; [lia|]. rewrite IHl. lia. }
      rewrite G. lia.
  Qed.
End P.
