"""C04, witness of the known finding block_content on the implementation: deleting a block removes the links to the
BLOCK only.  The one kind of link that may still lead from one block into another - a range / set dimension linked to an
array or a data-frame column (link lists refuse entities of other blocks) - keeps yielding the deleted block's data."""
import json
import os
import sys

import numpy as np
import nixio


def main():
    json.load(sys.stdin)
    path = os.path.join(os.getcwd(), "bc.nix")
    f = nixio.File.open(path, nixio.FileMode.Overwrite)
    a = f.create_block("a", "t")
    b = f.create_block("b", "t")
    p = a.create_data_array("p", "t", data=np.arange(3.0))
    df = a.create_data_frame("df", "t", col_dict={"x": float}, data=[(1.0,), (2.0,), (3.0,)])
    q = b.create_data_array("q", "t", data=np.zeros((3, 3, 3)))
    q.append_range_dimension().link_data_array(p, [-1])
    q.append_range_dimension().link_data_frame(df, 0)
    q.append_set_dimension().link_data_frame(df, 0)
    del f.blocks["a"]
    f.close()
    f = nixio.File.open(path, nixio.FileMode.ReadOnly)
    out = []
    for k, d in enumerate(f.blocks["b"].data_arrays["q"].dimensions):
        rec = {"dimension": k + 1, "kind": str(d.dimension_type)}
        try:
            vals = d.ticks if hasattr(d, "ticks") else d.labels
            rec["still_yields"] = [float(x) for x in vals]
        except Exception as exc:
            rec["raises"] = type(exc).__name__
        out.append(rec)
    rec_blocks = [bl.name for bl in f.blocks]
    f.close()
    os.remove(path)
    json.dump({"blocks_left": rec_blocks, "dimensions": out}, sys.stdout)


main()
