"""C18 -- format upgrade preserves content, is idempotent, resumable after interruption."""
import os
import random
import sys

sys.path.insert(0, os.path.dirname(os.path.dirname(os.path.abspath(__file__))))
import core  # noqa: E402
import translate as T  # noqa: E402
from coqlit import cstr, cZ, cN, cnat, cbool, clist  # noqa: E402

ID = "C18"
THEOREMS = ["c18_version_last", "c18_resume", "c18_result", "c18_idempotent", "c18_nothing_left",
            "c18_up_to_date_untouched", "c18_content", "c18_openable"]
HEADER = "From NixV Require Import Base.Prelude Gen.FileConsts Pure.Version Pure.Upgrade Pure.UpgradeCheck.\nOpen Scope Z_scope.\n"
DSTATE = {"alias": "DAlias", "linked": "DLinked", "ticks": "DTicks"}


def ostr(s):
    return "(@None str)" if s is None else "(Some %s)" % cstr(s)


def zl(l):
    return clist([cZ(x) for x in l], "Z")


def sl(l):
    return clist([cstr(x) for x in l], "str")


def pstate(p):
    if p["kind"] == "old":
        return "(POld %s %s %s (mkX %s %s %s %s %s))" % (zl(p["values"]), ostr(p["unit"]), ostr(p["definition"]),
                                                         zl(p["unc"]), sl(p["ref"]), sl(p["file"]), sl(p["enc"]), sl(p["chk"]))
    der = clist(["(%s, %s)" % (cN(c), ("(DZ %s)" % zl(v)) if c == 0 else ("(DS %s)" % sl(v))) for c, v in p["derived"]], "(N * dval)")
    ua = "(@None Z)" if p["unc_attr"] is None else "(Some %s)" % cZ(p["unc_attr"])
    return "(PNew %s %s %s %s %s)" % (zl(p["values"]), ostr(p["unit"]), ostr(p["definition"]), ua, der)


def ufile(a):
    dims = clist([DSTATE[d] for d in a["dims"]], "dstate")
    return "(mkU %s %s %s %s)" % (zl(a["version"]), cbool(a["has_id"]), clist([pstate(p) for p in a["props"]], "pstate"), dims)


def gen_spec(rnd, lib):
    older = [[1, 0, 0], [1, 1, 0], [1, 1, 1], [lib[0], lib[1], max(lib[2] - 1, 0)], [0, 9, 9]]
    r = rnd.random()
    version = rnd.choice(older) if r < 0.85 else (list(lib) if r < 0.93 else [lib[0], lib[1] + 1, 0])
    props = []
    for i in range(rnd.randint(0, 5)):
        # "properties of every value type": the four common ones, and the other widths with the extremes of their range
        vt = rnd.choice(["int", "float", "bool", "str"]) if rnd.random() < 0.7 else rnd.choice(WIDTHS)
        n = rnd.randint(1, 4)
        if vt == "bool":
            vals = [rnd.randint(0, 1) for _ in range(n)]
        elif vt in RANGES:
            lo, hi = RANGES[vt]
            vals = [rnd.choice([lo, hi, hi - 1, lo + 1, rnd.randint(lo, hi), rnd.randint(max(lo, -5), min(hi, 50))]) for _ in range(n)]
        elif vt == "int" and rnd.random() < 0.3:
            vals = [rnd.choice([-2 ** 63, 2 ** 63 - 1, rnd.randint(-2 ** 63, 2 ** 63 - 1), rnd.randint(-5, 50)]) for _ in range(n)]
        else:
            vals = [rnd.randint(-5, 50) for _ in range(n)]
        uk = rnd.random()
        unc = [0] * n if uk < 0.4 else ([rnd.choice([2, 3])] * n if uk < 0.7 else [rnd.randint(0, 3) for _ in range(n)])

        def strs():
            k = rnd.random()
            return [""] * n if k < 0.6 else [rnd.choice(["", "x", "ref"]) for _ in range(n)]
        props.append({"name": "p%d" % i, "vtype": vt, "values": vals, "new": rnd.random() < 0.2,
                      "unit": rnd.choice([None, "", "mV"]), "definition": rnd.choice([None, "", "def"]),
                      "unc": unc, "ref": strs(), "file": strs(), "enc": strs(), "chk": strs()})
    dims = [rnd.choice(["alias", "alias", "ticks", "linked"]) for _ in range(rnd.randint(0, 3))]
    return {"version": version, "has_id": rnd.random() < 0.4, "props": props, "dims": dims, "linker": rnd.random() < 0.4}


WIDTHS = ["uint64", "int32", "uint8", "int8", "uint32", "float32"]
RANGES = {"uint64": (0, 2 ** 64 - 1), "int32": (-2 ** 31, 2 ** 31 - 1), "uint8": (0, 255), "int8": (-128, 127), "uint32": (0, 2 ** 32 - 1)}


def n_steps(spec, lib):
    if tuple(spec["version"]) >= tuple(lib):
        return 0
    return (0 if spec["has_id"] else 1) + sum(1 for p in spec["props"] if not p["new"]) + \
        sum(1 for d in spec["dims"] if d == "alias") + 1


def run(ctx):
    rnd = random.Random(ctx.seed)
    thorough = ctx.tier == "thorough"
    st = core.proof_stage(ctx, [], ["Pure/UpgradeCheck.vo", "Props/C18.vo"], "Props/C18.v", THEOREMS)
    ctx.trusted_base = [
        "Coq 8.16.1 kernel; no native_compute",
        "hand-written micro-step model Pure/Upgrade.v of nixio/cmd/upgrade.py (collect_tasks, the per-object re-checks, the "
        "extras rules), tied to the code by crafted old-format files and interruption at every step (this run)",
        "interruption granularity = re-openings of the file for writing inside nixio.cmd.upgrade (patched from the harness: the "
        "k-th h5py.File(fname, 'a') raises); a crash INSIDE one property conversion is not an interruption point of the property",
        "library version translated from nixio/file.py (Gen/FileConsts.v); HDF5/h5py behaviour not modelled",
    ]
    ctx.assumptions = ["every property theorem: Closed under the global context"]
    try:
        lib = T.run_probe("probe_file.py", ctx.repo)["HDF_FF_VERSION"]
    except Exception as exc:
        st["broken"].append("cannot read the library version: %s" % exc)
        lib = [1, 2, 1]
    cases = []
    nfiles = 300 if thorough else 45
    for _ in range(nfiles):
        spec = gen_spec(rnd, lib)
        n = n_steps(spec, lib)
        for cut in list(range(0, n + 1)) + [None]:
            cases.append({"spec": spec, "cut": cut})
    impl = ctx.run_impl_cases("impl_upgrade.py", cases, jobs=8, timeout=3000)
    terms, inputs, results, failures = [], [], [], []
    for c, r in zip(cases, impl):
        n = n_steps(c["spec"], lib)
        cut = n if c["cut"] is None else c["cut"]
        inp = {"spec": c["spec"], "interrupted_after_steps": c["cut"]}
        if "none" in r["after_cut"]["dims"] + r["after_resume"]["dims"]:
            failures.append(("a dimension lost both its alias link and its new link", inp, r["after_resume"]))
            continue
        terms.append("(%s, %s, %s, %s, %s)" % (ufile(r["before"]), cnat(cut), ufile(r["after_cut"]), ufile(r["after_resume"]),
                                               cbool(r["tasks_left"] == 0)))
        inputs.append(inp)
        results.append(r)
        # python-side predicates on what nixio itself shows of the result
        v = r["view"]
        if tuple(c["spec"]["version"]) < tuple(lib):
            if v.get("open") != "ok" or v.get("version") != list(lib):
                failures.append(("the upgraded file does not open for writing", inp, v))
            elif "read_error" in v:
                failures.append(("the upgraded file cannot be read", inp, v))
            else:
                for p in c["spec"]["props"]:
                    want = [str(bool(x)) if p["vtype"] == "bool" else (str(float(x)) if p["vtype"] in ("float", "float32") else str(x)) for x in p["values"]]
                    if v["props"].get(p["name"]) != want:
                        failures.append(("a property value changed", inp, {"name": p["name"], "read": v["props"].get(p["name"]), "want": want}))
                    want_unit = p["unit"] if p["new"] else (p["unit"] or None)
                    if want_unit != v["units"].get(p["name"]):
                        failures.append(("a property unit changed", inp, {"name": p["name"], "read": v["units"].get(p["name"])}))
                for j, d in enumerate(c["spec"]["dims"]):
                    a = v["arrays"].get("da%d" % j)
                    if a is None or a["data"] != [float(x + j) for x in range(4)]:
                        failures.append(("array data changed", inp, a))
                    elif d == "alias" and a["ticks"] != a["data"]:
                        failures.append(("a self-referencing range dimension lost its ticks", inp, a))
        if not all(r["ret"]):
            if not (c["cut"] is not None and c["cut"] < n and r["ret"][1] and r["ret"][2]):
                failures.append(("file_upgrade reported failure", inp, r["ret"]))
        if not r["again_same"]:
            failures.append(("upgrading an up-to-date file changed it", inp, None))
    disagreements = []
    if core.vo_ok("Pure/UpgradeCheck.v"):
        verd, errs = core.eval_verdicts(ctx.workdir, HEADER, "upgrade_case", "check_upgrade", terms, tag="upg", shard_size=60)
        for e in errs:
            st["broken"].append("model evaluation failed: %s" % e)
        for i, code in verd:
            if code & 2:
                failures.append(("interrupted/resumed upgrade does not give the specified result", inputs[i],
                                 {"after_cut": results[i]["after_cut"], "after_resume": results[i]["after_resume"],
                                  "tasks_left": results[i]["tasks_left"]}))
            elif code & 1:
                disagreements.append((inputs[i], results[i]["after_cut"]))
    else:
        st["broken"].append("model Pure/UpgradeCheck.v does not build")
    if failures:
        failures.sort(key=lambda x: len(repr(x[1])))
        what, inp, r = failures[0]
        rp = ctx.write_replay("%s-seed%d.json" % (ID, ctx.seed), {"property": ID, "kind": what, "input": inp, "observed": r,
                                                                  "count": len(failures), "broken_obligations": st["broken"]})
        ctx.violation("%d upgrade cases fail, e.g. %s" % (len(failures), what), rp)
    elif disagreements:
        st["broken"].append("correspondence: model and implementation disagree on %d cases, e.g. %r" % (len(disagreements), disagreements[0]))
    ctx.coverage.update({
        "evaluations": len(cases), "distinct_nontrivial": len(set(repr(c) for c in cases if c["spec"]["props"] or c["spec"]["dims"])),
        "rule": "old-format files crafted with h5py: versions 0.9.9/1.0.0/1.1.0/1.1.1/lib-1 (and up-to-date / newer ones), with or "
                "without file id, 0-5 properties each old (compound: int/float/bool/text values, per-value uncertainty / reference / "
                "filename / encoder / checksum, unit and definition incl. empty) or already new, 0-3 range dimensions (alias / ticks / "
                "linked), optionally a second section whose `link` leads to the section with the properties and is visited first; for EVERY interruption point (after 0..n micro-steps, and none) the upgrade is cut, the file inspected, the "
                "upgrade re-run, inspected again, collect_tasks called, the result opened for writing with nixio and read, and a third "
                "upgrade run. non-trivial = the file has at least one property or dimension.",
        "files": nfiles, "disagreements": len(disagreements), "spec_failures": len(failures),
        "samples": [{"version": cases[0]["spec"]["version"], "has_id": cases[0]["spec"]["has_id"],
                     "n_props": len(cases[0]["spec"]["props"]), "dims": cases[0]["spec"]["dims"], "cut": cases[0]["cut"]}],
    })
    return st
