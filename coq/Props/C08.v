(* Props/C08.v -- tagged data is exactly the samples whose coordinates lie in the tagged region.
   ONLY property theorems.  Model: Pure/Tagging.v (tag.py / multi_tag.py / data_view.py) on top of
   Pure/Dims.v (per-dimension index arithmetic, C07) and Pure/Units.v (scaling, C09).
   Vocabulary (Proofs/TaggingProofs.v): coord d j = coordinate of stored sample j as the descriptor
   defines it; stored n j = 0 <= j < n; dim_fits d n = the descriptor describes n samples (positive
   interval / ascending ticks, one per sample / no labels or one per sample); off_band = the position
   is not inside the float tolerance band of a sample (where np.isclose decides: C07's known band);
   axis_meaning d n k ... a b = "the slice a:b of axis k holds exactly the stored samples whose
   coordinate lies in [start, stop] resp. [start, stop), where start = position * scaling(tag unit ->
   dimension unit), stop = start + extent * scaling; a missing or non-positive extent selects
   [start, start]; an axis beyond the tag's position is taken whole". *)
From Coq Require Import ZArith List Bool QArith.
From NixV Require Import Base.Prelude Pure.Regex Pure.Units Pure.Dims Pure.DimsCheck Pure.Tagging
  Proofs.DimsBase Proofs.TaggingProofs.
Import ListNotations.

(* ONE AXIS: a slice is exactly the set of stored samples in the region *)
Theorem c08_axis_exact : forall d n p e u rule a b s,
  dim_fits d n -> scale_for u d = inl s ->
  let '(start, stop, mode) := axis_region p e s rule in
  off_band d start -> off_band d stop ->
  axis_slice d n (Some p) e u rule = inl (Some (a, b)) ->
  (a < b)%Z /\ forall j, stored n j -> (in_itv mode start stop (coord d j) <-> (a <= j < b)%Z).
Proof. exact axis_exact. Qed.
Print Assumptions c08_axis_exact.

(* TAG and MULTI-TAG (a position = one row): the data returned is, on every axis, exactly that *)
Theorem c08_tag_data_exact : forall dims shape pos ext units rule s,
  Forall2 dim_fits dims shape -> tag_tagged_data dims shape pos ext units rule = TData s ->
  forall k d n, nth_error dims k = Some d -> nth_error shape k = Some n ->
    exists a b, nth_error s k = Some (a, b) /\ (b <= n)%Z /\ axis_meaning d n k pos ext units rule a b.
Proof. exact tag_data_exact. Qed.
Print Assumptions c08_tag_data_exact.
Theorem c08_mtag_data_exact : forall dims shape pos ext units rule s,
  Forall2 dim_fits dims shape -> mtag_tagged_data dims shape pos ext units rule = TData s ->
  forall k d n, nth_error dims k = Some d -> nth_error shape k = Some n ->
    exists a b, nth_error s k = Some (a, b) /\ (b <= n)%Z /\ axis_meaning d n k pos ext units rule a b.
Proof. exact mtag_data_exact. Qed.
Print Assumptions c08_mtag_data_exact.

(* NEVER OTHER DATA: an invalid (empty) view or an out-of-bounds error has a reason - on some axis
   no stored sample lies in the region, or the region contains a sample position beyond the stored
   ones *)
Theorem c08_no_data_reason : forall dims shape pos ext units rule,
  Forall2 dim_fits dims shape ->
  (tag_tagged_data dims shape pos ext units rule = TInvalid \/
   tag_tagged_data dims shape pos ext units rule = TErr EOutOfBounds \/
   mtag_tagged_data dims shape pos ext units rule = TInvalid) ->
  exists k d n, nth_error dims k = Some d /\ nth_error shape k = Some n /\
    (axis_no_sample d n k pos ext units rule \/ axis_runs_past d n k pos ext units rule).
Proof. exact no_data_reason. Qed.
Print Assumptions c08_no_data_reason.

(* FEATURES follow the link type *)
Theorem c08_feature_tagged : forall m posidx dims shape pos ext units rule s,
  Forall2 dim_fits dims shape -> feature_data m LTagged posidx dims shape pos ext units rule = TData s ->
  forall k d n, nth_error dims k = Some d -> nth_error shape k = Some n ->
    exists a b, nth_error s k = Some (a, b) /\ (b <= n)%Z /\ axis_meaning d n k pos ext units rule a b.
Proof. exact feature_tagged_exact. Qed.
Print Assumptions c08_feature_tagged.
Theorem c08_feature_indexed_untagged : forall m posidx dims shape pos ext units rule,
  feature_data m LUntagged posidx dims shape pos ext units rule = TData (whole shape) /\
  feature_data false LIndexed posidx dims shape pos ext units rule = TData (whole shape) /\
  (forall n sr, shape = n :: sr -> (0 <= posidx < n)%Z ->
     feature_data true LIndexed posidx dims shape pos ext units rule = TData ((posidx, posidx + 1)%Z :: whole sr)).
Proof. intros. split; [reflexivity|]. split; [reflexivity|]. intros n sr -> H. apply feature_indexed. exact H. Qed.
Print Assumptions c08_feature_indexed_untagged.

(* non-vacuity: 5 samples at 0, 0.5, ... 2 s; a tag at 500 ms with extent 1000 ms: samples 1 and 2
   (exclusive end), 1..3 (inclusive end) *)
Example c08_example :
  let d := DdSampled 0 (1 # 2) (Some [115]%N) in
  let ms := [109; 115]%N in
  dim_fits d 5 /\
  tag_tagged_data [d] [5%Z] [500 # 1] [1000 # 1] (Some [ms]) Exclusive = TData [(1, 3)%Z] /\
  tag_tagged_data [d] [5%Z] [500 # 1] [1000 # 1] (Some [ms]) Inclusive = TData [(1, 4)%Z] /\
  tag_tagged_data [d] [5%Z] [5000 # 1] [] (Some [ms]) Inclusive = TErr EOutOfBounds.
Proof. cbv zeta. split; [reflexivity|]. vm_compute. repeat split. Qed.
