(* Pure/Table.v -- a data frame as a table of named, typed columns (nixio/data_frame.py).
   Cells are opaque integers (bit patterns / pool indices); column names are pool indices. *)
From Coq Require Import ZArith List Bool.
From NixV Require Import Base.Prelude.
Import ListNotations.
Open Scope Z_scope.

Record table := mkT { t_cols : list (Z * Z);        (* (name, type code), in order *)
                      t_rows : list (list Z) }.      (* one list of cells per row *)

Definition ncols (t : table) : nat := length (t_cols t).
Definition nrows (t : table) : nat := length (t_rows t).
Definition row_ok (t : table) (r : list Z) : bool := Nat.eqb (length r) (ncols t).

Fixpoint set_nth {A} (l : list A) (n : nat) (v : A) : list A :=
  match l, n with
  | [], _ => []
  | _ :: r, O => v :: r
  | x :: r, S k => x :: set_nth r k v
  end.
Fixpoint col_index (name : Z) (cols : list (Z * Z)) (i : nat) : option nat :=
  match cols with
  | [] => None
  | (n, _) :: r => if Z.eqb n name then Some i else col_index name r (S i)
  end.

(* append_rows(data): every row must have one value per column *)
Definition append_rows (t : table) (rows : list (list Z)) : option table :=
  if forallb (row_ok t) rows then Some (mkT (t_cols t) (t_rows t ++ rows)) else None.

(* append_column(column, name, datatype): as many entries as rows; a new name *)
Definition append_column (t : table) (col : list Z) (name ty : Z) : option table :=
  if negb (Nat.eqb (length col) (nrows t)) then None
  else match col_index name (t_cols t) 0 with
       | Some _ => None
       | None => Some (mkT (t_cols t ++ [(name, ty)])
                           (map (fun p => fst p ++ [snd p]) (combine (t_rows t) col)))
       end.

(* write_rows(rows, index): same number of rows and indices, every index an existing row *)
Fixpoint write_rows_at (rows : list (list Z)) (new : list (list Z)) (index : list nat) : list (list Z) :=
  match new, index with
  | r :: nr, i :: ir => write_rows_at (set_nth rows i r) nr ir
  | _, _ => rows
  end.
(* h5py takes a list of row numbers only in strictly increasing order (TypeError otherwise): an
   unordered or repeated index list is REFUSED, it is not written in some other order *)
Fixpoint increasing (l : list nat) : bool :=
  match l with
  | a :: ((b :: _) as r) => Nat.ltb a b && increasing r
  | _ => true
  end.
Definition write_rows (t : table) (new : list (list Z)) (index : list nat) : option table :=
  if negb (Nat.eqb (length new) (length index)) then None
  else if negb (forallb (fun i => Nat.ltb i (nrows t)) index) then None
  else if negb (forallb (row_ok t) new) then None
  else if negb (increasing index) then None
  else Some (mkT (t_cols t) (write_rows_at (t_rows t) new index)).

(* write_cell(cell, position=(row, col)) *)
Definition write_cell (t : table) (r c : nat) (v : Z) : option table :=
  if negb (Nat.ltb r (nrows t)) || negb (Nat.ltb c (ncols t)) then None
  else Some (mkT (t_cols t) (set_nth (t_rows t) r (set_nth (nth r (t_rows t) []) c v))).

(* write_column(column, index=c): one value per row *)
Definition write_column (t : table) (col : list Z) (c : nat) : option table :=
  if negb (Nat.eqb (length col) (nrows t)) then None
  else if negb (Nat.ltb c (ncols t)) then None
  else Some (mkT (t_cols t) (map (fun p => set_nth (fst p) c (snd p)) (combine (t_rows t) col))).

Definition read_cell (t : table) (r c : nat) : Z := nth c (nth r (t_rows t) []) 0.
Definition read_column (t : table) (c : nat) : list Z := map (fun r => nth c r 0) (t_rows t).
