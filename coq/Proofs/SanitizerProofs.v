(* Proofs/SanitizerProofs.v -- idempotence of units.sanitizer (C09), for all strings. *)
From NixV Require Import Base.Prelude Pure.Regex Gen.Units Pure.Units.
From Coq Require Import Lia.
Open Scope N_scope.

Lemma strip_prefix_app p s r : strip_prefix p s = Some r -> s = p ++ r.
Proof.
  revert s; induction p as [|x p IH]; intros s H; cbn in *.
  - congruence.
  - destruct s as [|y s]; [discriminate|]. destruct (N.eqb x y) eqn:E; [|discriminate].
    apply N.eqb_eq in E. subst. f_equal. apply IH. exact H.
Qed.

(* (a) a pattern that does not occur is not replaced *)
Lemma replace_absent pat new : forall s f1 f2,
  (length s < f1)%nat -> (length s < f2)%nat ->
  contains_fuel f1 pat s = false -> replace_fuel f2 pat new s = s.
Proof.
  induction s as [|c t IH]; intros f1 f2 H1 H2 Hc.
  - destruct f2; reflexivity.
  - destruct f1 as [|f1]; [cbn in H1; lia|]. destruct f2 as [|f2]; [cbn in H2; lia|].
    cbn [contains_fuel] in Hc. cbn [replace_fuel].
    destruct (strip_prefix pat (c :: t)); [discriminate|].
    f_equal. apply (IH f1 f2); cbn in H1, H2; try lia. exact Hc.
Qed.

Lemma replace_absent' pat new s : contains pat s = false -> replace pat new s = s.
Proof. unfold contains, replace. apply replace_absent; lia. Qed.

(* (c) replacing introduces no character that is neither in the input nor in [new] *)
Lemma replace_no_new_char c old new : forall fuel s,
  ~ In c s -> ~ In c new -> ~ In c (replace_fuel fuel old new s).
Proof.
  induction fuel as [|f IH]; intros s Hs Hn; cbn [replace_fuel]; [exact Hs|].
  destruct s as [|x t]; [exact Hs|].
  destruct (strip_prefix old (x :: t)) as [rest|] eqn:E.
  - apply strip_prefix_app in E. intro Hin. apply in_app_or in Hin. destruct Hin as [Hin|Hin].
    + exact (Hn Hin).
    + revert Hin. apply IH; [|exact Hn]. intro Hr. apply Hs. rewrite E. apply in_or_app. right. exact Hr.
  - intro Hin. destruct Hin as [Hin|Hin].
    + apply Hs. left. exact Hin.
    + revert Hin. apply IH; [|exact Hn]. intro Hr. apply Hs. right. exact Hr.
Qed.

(* (b) replacing a single character removes it *)
Lemma replace_char_gone c new : forall fuel s,
  (length s < fuel)%nat -> ~ In c new -> ~ In c (replace_fuel fuel [c] new s).
Proof.
  induction fuel as [|f IH]; intros s Hl Hn; [lia|].
  cbn [replace_fuel]. destruct s as [|x t]; [intros []|].
  cbn [strip_prefix]. destruct (N.eqb c x) eqn:E.
  - intro Hin. apply in_app_or in Hin. destruct Hin as [Hin|Hin]; [exact (Hn Hin)|].
    revert Hin. apply IH; [cbn in Hl; lia | exact Hn].
  - intro Hin. destruct Hin as [Hin|Hin].
    + subst. rewrite N.eqb_refl in E. discriminate.
    + revert Hin. apply IH; [cbn in Hl; lia | exact Hn].
Qed.

(* (d) a character that does not occur is not contained as a one-letter pattern *)
Lemma not_in_contains c : forall s fuel, ~ In c s -> contains_fuel fuel [c] s = false.
Proof.
  induction s as [|x t IH]; intros fuel H; destruct fuel as [|f]; cbn; try reflexivity.
  destruct (N.eqb c x) eqn:E.
  - apply N.eqb_eq in E. subst. exfalso. apply H. left. reflexivity.
  - apply IH. intro Hin. apply H. right. exact Hin.
Qed.

Lemma sanitizer_clean s :
  ~ In 32 (sanitizer s) /\ ~ In 181 (sanitizer s) /\ ~ In 956 (sanitizer s).
Proof.
  unfold sanitizer, replace.
  set (r1 := replace_fuel _ [32] [] s).
  assert (H1 : ~ In 32 r1) by (apply replace_char_gone; [lia | intros []]).
  set (r2 := replace_fuel _ [109;117] [117] r1).
  assert (H2 : ~ In 32 r2) by (apply replace_no_new_char; [exact H1 | cbn; intros [E|[]]; discriminate]).
  set (r3 := replace_fuel _ [181] [117] r2).
  assert (H3 : ~ In 32 r3) by (apply replace_no_new_char; [exact H2 | cbn; intros [E|[]]; discriminate]).
  assert (H3' : ~ In 181 r3) by (apply replace_char_gone; [lia | cbn; intros [E|[]]; discriminate]).
  repeat split.
  - apply replace_no_new_char; [exact H3 | cbn; intros [E|[]]; discriminate].
  - apply replace_no_new_char; [exact H3' | cbn; intros [E|[]]; discriminate].
  - apply replace_char_gone; [lia | cbn; intros [E|[]]; discriminate].
Qed.

Lemma sanitizer_idem_partial s :
  contains [109;117] (sanitizer s) = false -> sanitizer (sanitizer s) = sanitizer s.
Proof.
  intros Hmu. destruct (sanitizer_clean s) as [H32 [H181 H956]].
  set (t := sanitizer s) in *. unfold sanitizer at 1.
  rewrite (replace_absent' [32] [] t) by (apply not_in_contains; exact H32).
  rewrite (replace_absent' [109;117] [117] t) by exact Hmu.
  rewrite (replace_absent' [181] [117] t) by (apply not_in_contains; exact H181).
  rewrite (replace_absent' [956] [117] t) by (apply not_in_contains; exact H956).
  reflexivity.
Qed.

Lemma sanitizer_idem_refuted : exists s, sanitizer (sanitizer s) <> sanitizer s.
Proof. exists [109;109;117]. vm_compute. discriminate. Qed.

(* non-vacuity of the partial theorem: "m µV" is cleaned to "muV"?  no: to "muV" would contain
   "mu"; a string that meets the hypothesis non-trivially is " µ V" -> "uV" *)
Example sanitizer_example :
  contains [109;117] (sanitizer [32;181;32;86]) = false /\ sanitizer [32;181;32;86] = [117;86].
Proof. vm_compute. split; reflexivity. Qed.
