(* Proofs/SlicesProofs.v -- C06: an index expression applied to a view selects, in the parent
   array, exactly what NumPy selects in the window's own coordinates, shifted by the window
   start; it is refused exactly when NumPy refuses it (negative steps: always refused). *)
From Coq Require Import ZArith List Bool Lia.
From NixV Require Import Base.Prelude Pure.Slices Pure.SlicesCheck.
Import ListNotations.
Open Scope Z_scope.

(* two outcomes correspond: both refused, or the view's selection is NumPy's shifted by a *)
Definition corr (a : Z) (np view : axsel + ierr) : Prop :=
  match np, view with
  | inl s, inl s' => s' = shift a s
  | inr _, inr _ => True
  | _, _ => False
  end.

Lemma indices_pos_bounds sa sb st n us ue k : 0 <= n -> indices sa sb st n = Some (us, ue, k) -> 0 < k ->
  0 <= us <= n /\ 0 <= ue <= n.
Proof.
  unfold indices. intros Hn H Hst. destruct (_ =? 0) eqn:E0; [discriminate|].
  destruct (0 <? _) eqn:Ep.
  - injection H as <- <- <-. unfold clamp_pos.
    destruct sa as [v|], sb as [w|];
      repeat match goal with |- context [if ?b then _ else _] => destruct b eqn:? end; lia.
  - injection H as _ _ H3. lia.
Qed.
Lemma indices_step sa sb st n us ue k : indices sa sb st n = Some (us, ue, k) -> k <> 0.
Proof.
  unfold indices. destruct (_ =? 0) eqn:E0; [discriminate|]. apply Z.eqb_neq in E0.
  destruct (0 <? _); intros H; injection H as _ _ <-; exact E0.
Qed.

(* one axis, integer index: wrap-around and bounds agree *)
Theorem int_axis a n u : 0 <= n -> corr a (np_axis n (IInt u)) (view_axis (a, a + n) (IInt u)).
Proof.
  intros Hn. unfold np_axis, view_axis, corr.
  destruct (u <? 0) eqn:Eu.
  - destruct ((u + n <? 0) || (n <=? u + n)) eqn:E1; destruct ((a + n + u <? a) || (a + n <=? a + n + u)) eqn:E2;
      try exact I; cbn [shift]; try (f_equal; lia);
      rewrite orb_true_iff, orb_false_iff in *; rewrite ?Z.ltb_lt, ?Z.leb_le, ?Z.ltb_ge, ?Z.leb_gt in *; lia.
  - destruct ((u <? 0) || (n <=? u)) eqn:E1; destruct ((u + a <? a) || (a + n <=? u + a)) eqn:E2;
      try exact I; cbn [shift]; try (f_equal; lia);
      rewrite orb_true_iff, orb_false_iff in *; rewrite ?Z.ltb_lt, ?Z.leb_le, ?Z.ltb_ge, ?Z.leb_gt in *; lia.
Qed.

(* one axis, slice *)
Theorem slice_axis a n sa sb st : 0 <= n ->
  corr a (np_axis n (ISlice sa sb st)) (view_axis (a, a + n) (ISlice sa sb st)).
Proof.
  intros Hn. unfold np_axis, view_axis, corr.
  replace (a + n - a) with n by lia.
  destruct (indices sa sb st n) as [[[us ue] k]|] eqn:Ei; [|exact I].
  pose proof (indices_step _ _ _ _ _ _ _ Ei) as Hk.
  destruct (k <? 0) eqn:Ek.
  - (* negative step: refused by both *)
    destruct (a + n <? a + (if ue <? 0 then n + ue else ue)); exact I.
  - apply Z.ltb_ge in Ek. assert (Hpos : 0 < k) by lia.
    destruct (indices_pos_bounds _ _ _ _ _ _ _ Hn Ei Hpos) as [Hs He].
    assert (E1 : (ue <? 0) = false) by (apply Z.ltb_ge; lia). rewrite E1.
    assert (E2 : (a + n <? a + ue) = false) by (apply Z.ltb_ge; lia). rewrite E2.
    assert (E4 : (a + us <? a) = false) by (apply Z.ltb_ge; lia). rewrite E4.
    cbn [shift]. destruct (ue <? us) eqn:E5.
    + assert (E6 : (a + ue <? a + us) = true) by (apply Z.ltb_lt; apply Z.ltb_lt in E5; lia).
      rewrite E6. reflexivity.
    + assert (E6 : (a + ue <? a + us) = false) by (apply Z.ltb_ge; apply Z.ltb_ge in E5; lia).
      rewrite E6. reflexivity.
Qed.

(* a negative step is refused, never reinterpreted *)
Theorem neg_step_refused w sa sb k : k < 0 -> exists e, view_axis w (ISlice sa sb (Some k)) = inr e.
Proof.
  intros Hk. unfold view_axis. destruct w as [a z].
  destruct (indices sa sb (Some k) (z - a)) as [[[us ue] k']|] eqn:Ei; [|eexists; reflexivity].
  assert (k' = k).
  { unfold indices in Ei. destruct (k =? 0); [discriminate|]. destruct (0 <? k); injection Ei as _ _ <-; reflexivity. }
  subst k'. destruct (z <? _); [eexists; reflexivity|].
  assert (E : (k <? 0) = true) by (apply Z.ltb_lt; exact Hk). rewrite E. eexists. reflexivity.
Qed.

Lemma axis_corr a n i : 0 <= n -> i <> IEll -> corr a (np_axis n i) (view_axis (a, a + n) i).
Proof. intros Hn Hi. destruct i; [apply int_axis | apply slice_axis | congruence]; exact Hn. Qed.

(* all axes *)
Definition wf_window (w : list (Z * Z)) : Prop := Forall (fun p => 0 <= fst p <= snd p) w.

Lemma map2_corr : forall (w : list (Z * Z)) (ex : list ix),
  wf_window w -> Forall (fun i => i <> IEll) ex -> (length ex <= length w)%nat ->
  match map2_err np_axis (widths w) ex, map2_err view_axis w ex with
  | inl l, inl l' => l' = shift_all w l
  | inr _, inr _ => True
  | _, _ => False
  end.
Proof.
  induction w as [|[a z] w IH]; intros ex Hw He Hl.
  - destruct ex; [reflexivity | cbn in Hl; lia].
  - destruct ex as [|i ex]; [reflexivity|].
    inversion Hw as [|p l Hp Hw']; subst. inversion He as [|j l' Hj He']; subst. cbn [fst snd] in Hp.
    cbn [widths map map2_err fst snd].
    pose proof (axis_corr a (z - a) i ltac:(lia) Hj) as C. replace (a + (z - a)) with z in C by lia.
    unfold corr in C.
    destruct (np_axis (z - a) i) as [s|e1]; destruct (view_axis (a, z) i) as [s'|e2]; try contradiction; [|exact I].
    specialize (IH ex Hw' He' ltac:(cbn in Hl; lia)). fold (widths w).
    destruct (map2_err np_axis (widths w) ex) as [l|e1]; destruct (map2_err view_axis w ex) as [l'|e2];
      try contradiction; [|exact I].
    cbn [shift_all]. subst. reflexivity.
Qed.

Lemma widths_length w : length (widths w) = length w.
Proof. unfold widths. apply map_length. Qed.

Lemma expand_no_ell rank e ex : expand rank e = Some ex -> Forall (fun i => i <> IEll) ex.
Proof.
  unfold expand. set (nell := length (filter is_ell e)).
  destruct (Nat.ltb 1 nell) eqn:E1; [discriminate|]. apply Nat.ltb_ge in E1.
  assert (Hfull : forall k, Forall (fun i => i <> IEll) (repeat full k)).
  { intros k. apply Forall_forall. intros x Hx. apply repeat_spec in Hx. subst. discriminate. }
  destruct (Nat.eqb nell 1) eqn:E2.
  - apply Nat.eqb_eq in E2. intros H. injection H as <-.
    (* exactly one ellipsis: it is replaced by the padding *)
    unfold nell in E2. clear E1 nell. revert E2. generalize (rank + 1 - length e)%nat as k.
    induction e as [|x r IH]; intros k E2; [cbn in E2; discriminate|].
    destruct x; cbn [expand_at].
    + constructor; [discriminate|]. apply IH. exact E2.
    + constructor; [discriminate|]. apply IH. exact E2.
    + apply Forall_app. split; [apply Hfull|].
      cbn in E2. injection E2 as E2. apply Forall_forall. intros y Hy Ey. subst y.
      assert (In IEll (filter is_ell r)) by (apply filter_In; split; [exact Hy | reflexivity]).
      destruct (filter is_ell r); [contradiction | discriminate].
  - apply Nat.eqb_neq in E2. assert (Z0 : nell = 0%nat) by lia. intros H. injection H as <-.
    apply Forall_app. split; [|apply Hfull].
    apply Forall_forall. intros y Hy Ey. subst y. unfold nell in Z0.
    assert (In IEll (filter is_ell e)) by (apply filter_In; split; [exact Hy | reflexivity]).
    destruct (filter is_ell e); [contradiction | discriminate].
Qed.

(* the n-dimensional statement: on a window inside the array, for every index tuple that has no
   more items than the view has axes, view[expr] addresses exactly the parent cells that NumPy's
   expr addresses in the window's own sub-array (shifted by the window start), and is refused
   exactly when NumPy refuses *)
Theorem view_is_numpy_on_window w e ex :
  wf_window w -> expand (length w) e = Some ex -> (length ex <= length w)%nat ->
  match np_norm (widths w) e, view_norm w e with
  | inl l, inl l' => l' = shift_all w l
  | inr _, inr _ => True
  | _, _ => False
  end.
Proof.
  intros Hw Hex Hl. unfold np_norm, view_norm. rewrite widths_length, Hex.
  assert (E : Nat.ltb (length w) (length ex) = false) by (apply Nat.ltb_ge; exact Hl). rewrite E.
  apply map2_corr; [exact Hw | eapply expand_no_ell; exact Hex | exact Hl].
Qed.

Example view_example :
  view_norm [(2, 7)] [ISlice (Some (-3)) None None] = inl [ARange 4 7 1] /\
  np_norm [5] [ISlice (Some (-3)) None None] = inl [ARange 2 5 1] /\
  gather [10] [ARange 4 7 1] = ([3], [4; 5; 6]).
Proof. vm_compute. repeat split. Qed.
