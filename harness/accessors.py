"""Reflection sweep over the read accessors of every entity of a file (C11: "reads return the same results as in a
writable session").  Every public property of every reachable object and a short list of argument-free reader methods
is evaluated; the answers are canonicalised to plain JSON.  Nothing here knows what the answers should be: the caller
compares the sweep of a read-only session with the sweep of a writable session on a byte-identical copy."""
import numpy as np

READER_METHODS = ["inherited_properties", "find_sections", "find_sources", "find_related", "keys", "items", "values",
                  "validate"]
SKIP = {"file", "pprint", "mode", "auto_update_timestamps"}          # back reference to the File object / prints / the open mode itself


def canon(v, depth=0):
    if depth > 4:
        return "..."
    if v is None or isinstance(v, (bool, int, str)):
        return v
    if isinstance(v, float):
        return repr(float(v))           # numpy's float64 is a float too, and prints differently
    if isinstance(v, bytes):
        return "bytes:" + v.hex()
    if isinstance(v, (np.generic,)):
        return canon(v.item(), depth + 1)
    if isinstance(v, np.ndarray):
        return ["nd", list(v.shape), str(v.dtype), [canon(x, depth + 1) for x in v.ravel()[:64].tolist()]]
    if isinstance(v, np.dtype) or isinstance(v, type):
        return str(v)
    if isinstance(v, dict):
        return {"dict": sorted([[repr(canon(k, depth + 1)), canon(x, depth + 1)] for k, x in list(v.items())[:64]], key=repr)}
    ident = getattr(v, "id", None)
    if isinstance(ident, str):
        return "entity:" + type(v).__name__ + ":" + ident
    if hasattr(v, "dimension_type") and hasattr(v, "index"):
        return "dimension:" + type(v).__name__ + ":" + str(v.index)
    if hasattr(v, "__iter__"):
        out = []
        try:
            for k, x in enumerate(v):
                if k >= 64:
                    break
                out.append(canon(x, depth + 1))
        except Exception as exc:
            out.append("iteration raised " + type(exc).__name__)
        return [type(v).__name__, out]
    if hasattr(v, "name") and hasattr(v, "value"):       # enum member
        return "enum:" + str(v)
    return "object:" + type(v).__name__


def read_all(o):
    """{accessor name: canonical answer or 'raise:<class>'} for one object"""
    out = {}
    cls = type(o)
    for name in sorted(dir(cls)):
        if name.startswith("_") or name in SKIP:
            continue
        attr = None
        for k in cls.__mro__:
            if name in k.__dict__:
                attr = k.__dict__[name]
                break
        if isinstance(attr, property):
            try:
                out[name] = canon(getattr(o, name))
            except Exception as exc:
                out[name] = "raise:" + type(exc).__name__
        elif name in READER_METHODS and callable(getattr(o, name, None)):
            try:
                out[name + "()"] = canon(getattr(o, name)())
            except Exception as exc:
                out[name + "()"] = "raise:" + type(exc).__name__
    return out


def entities(f):
    """(label, object) for every entity, dimension, feature and property of the file"""
    out = [("file", f)]

    def sources(prefix, cont):
        for s in cont:
            lab = prefix + "/src:" + str(s.name)
            out.append((lab, s))
            sources(lab, s.sources)

    def sections(prefix, cont):
        for s in cont:
            lab = prefix + "/sec:" + str(s.name)
            out.append((lab, s))
            for p in s.props:
                out.append((lab + "/prop:" + str(p.name), p))
            sections(lab, s.sections)
    for b in f.blocks:
        bl = "blk:" + str(b.name)
        out.append((bl, b))
        for g in b.groups:
            out.append((bl + "/grp:" + str(g.name), g))
        for a in b.data_arrays:
            al = bl + "/da:" + str(a.name)
            out.append((al, a))
            try:
                for d in a.dimensions:
                    out.append((al + "/dim:%s" % d.index, d))
            except Exception:
                pass
        for fr in b.data_frames:
            out.append((bl + "/df:" + str(fr.name), fr))
        for kind, cont in (("tag", b.tags), ("mtag", b.multi_tags)):
            for t in cont:
                tl = bl + "/%s:%s" % (kind, t.name)
                out.append((tl, t))
                try:
                    for k, ft in enumerate(t.features):
                        out.append((tl + "/feat:%d" % k, ft))
                except Exception:
                    pass
        sources(bl, b.sources)
    sections("", f.sections)
    return out


def sweep(f):
    res = {}
    for lab, o in entities(f):
        for k, v in read_all(o).items():
            res[lab + "." + k] = v
    return res


def linked_objects(f):
    """(label, object) for every object reached through a LINK (not through its owning container)"""
    out = []

    def each(lab, fn):
        try:
            for k, x in enumerate(fn()):
                out.append(("%s[%d]" % (lab, k), x))
        except Exception:
            pass

    def one(lab, fn):
        try:
            x = fn()
        except Exception:
            return
        if x is not None:
            out.append((lab, x))
    for lab, o in entities(f):
        kind = type(o).__name__
        if kind in ("Block", "Group", "DataArray", "Tag", "MultiTag", "Source", "DataFrame"):
            one(lab + ".metadata", lambda: o.metadata)
        if kind == "Section":
            one(lab + ".link", lambda: o.link)
        if kind == "Group":
            for attr in ("data_arrays", "tags", "multi_tags", "data_frames", "sources"):
                each(lab + "." + attr, lambda a=attr: getattr(o, a))
        if kind in ("DataArray", "Tag", "MultiTag"):
            each(lab + ".sources", lambda: o.sources)
        if kind in ("Tag", "MultiTag"):
            each(lab + ".references", lambda: o.references)
        if kind == "MultiTag":
            one(lab + ".positions", lambda: o.positions)
            one(lab + ".extents", lambda: o.extents)
        if kind == "Feature":
            one(lab + ".data", lambda: o.data)
    return out


def path_sweep(f):
    """every object reached through a link must answer every read accessor like the object reached through the
    owning container; returns (number of accessor answers compared, list of differences)"""
    base = {}
    for lab, o in entities(f):
        ident = getattr(o, "id", None)
        if isinstance(ident, str):
            base.setdefault((type(o).__name__, ident), (lab, read_all(o)))
    n, diffs = 0, []
    for lab, o in linked_objects(f):
        key = (type(o).__name__, getattr(o, "id", None))
        if key not in base:
            diffs.append([lab, "<reached through a link but not through any container>", str(key)])
            continue
        blab, want = base[key]
        got = read_all(o)
        for k in sorted(set(want) | set(got)):
            n += 1
            if want.get(k, "absent") != got.get(k, "absent"):
                diffs.append([lab + "." + k, want.get(k, "absent"), got.get(k, "absent")])
    return n, diffs


def ro_mutators(f):
    """C11, read-only session: every settable attribute (reflection: class properties with a setter) of every entity,
    dimension, feature and property is assigned (a) None where it currently has a value and (b) the value it already
    has; either is a write and must be refused with an error.  Returns (number of attempts, list of calls that
    returned normally)."""
    n, silent = 0, []
    for lab, o in entities(f):
        cls = type(o)
        for name in sorted(dir(cls)):
            if name.startswith("_") or name in SKIP:
                continue
            attr = None
            for k in cls.__mro__:
                if name in k.__dict__:
                    attr = k.__dict__[name]
                    break
            if not isinstance(attr, property) or attr.fset is None:
                continue
            try:
                cur = getattr(o, name)
            except Exception:
                continue
            if cur is None or (hasattr(cur, "__len__") and not isinstance(cur, str) and len(cur) == 0):
                continue                      # nothing stored: clearing it again would not be a write
            for what, val in (("None", None), ("its current value", cur)):
                n += 1
                try:
                    setattr(o, name, val)
                except Exception:
                    continue
                silent.append([lab + "." + name, what])
    return n, silent


def decorate(f):
    """writable session on a scratch copy: give every optional attribute that is still unset a value through the public
    setter (the first of a few candidates the setter accepts), so that a later read-only session finds something to clear"""
    n = 0
    for lab, o in entities(f):
        cls = type(o)
        for name in sorted(dir(cls)):
            if name.startswith("_") or name in SKIP:
                continue
            attr = None
            for k in cls.__mro__:
                if name in k.__dict__:
                    attr = k.__dict__[name]
                    break
            if not isinstance(attr, property) or attr.fset is None:
                continue
            try:
                if getattr(o, name) is not None:
                    continue
            except Exception:
                continue
            for val in ("mV", 1.5, [1.5], "x"):
                try:
                    setattr(o, name, val)
                    if getattr(o, name) is not None:
                        n += 1
                        break
                except Exception:
                    continue
    return n
