(* Props/C14.v -- validation reports every catalogued inconsistency, nothing on consistent files.
   ONLY property theorems.  Model: Pure/Validator.v (nixio/validator.py on an abstract description
   of the file's arrays with their descriptors, tags, multi-tags and other entities); the
   declarative notions (file_ok, dim_ok, units_ok, increasing ...) are in Proofs/ValidatorProofs.v.
   An entity without id cannot be opened through the API at all, so "no ID set" has no model. *)
From Coq Require Import ZArith List Bool Lia.
From NixV Require Import Base.Prelude Pure.Regex Pure.Units Pure.Validator Proofs.ValidatorProofs.
Import ListNotations.
Open Scope Z_scope.

(* NOTHING ON CONSISTENT FILES: every array has one descriptor per data dimension (Forall2) with
   matching tick / label counts, strictly increasing ticks, positive sampling intervals and atomic
   SI units; every tag's position / extent / unit lengths match its references, with convertible
   units; every entity has name, type and date  ==>  every object's report is empty *)
Theorem c14_consistent_silent : forall f, file_ok f -> forall l, In l (check_file f) -> l = [].
Proof. exact consistent_file_silent. Qed.
Print Assumptions c14_consistent_silent.

(* EXACTLY THE OBJECTS THAT HAVE IT.  Entities: *)
Theorem c14_entity_errors : forall e,
  (In ENoName (check_entity e) <-> has_name e = false) /\
  (In ENoType (check_entity e) <-> has_type e = false) /\
  (In ENoDate (check_entity e) <-> has_date e = false) /\
  (forall x, In x (check_entity e) -> x = ENoName \/ x = ENoType \/ x = ENoDate).
Proof. exact entity_errors. Qed.
Print Assumptions c14_entity_errors.

(* descriptors: an error of dimension idx is in the array's report exactly when the idx-th
   descriptor, against the idx-th extent, has that inconsistency *)
Theorem c14_dimension_errors : forall e ds shape,
  In e (check_dims 1 ds shape) <->
  exists k d n, nth_error ds k = Some d /\ nth_error shape k = Some n /\
    let idx := 1 + Z.of_nat k in
    (e = ETicksCount idx /\ exists t u, d = DRange t u /\ length t <> n) \/
    (e = ENoTicks idx /\ exists u, d = DRange [] u) \/
    (e = EUnsortedTicks idx /\ exists t u, d = DRange t u /\ t <> [] /\ ~ increasing t) \/
    (e = ELabelsCount idx /\ exists nl, d = DSet nl /\ nl <> 0%nat /\ nl <> n) \/
    (e = ENoInterval idx /\ exists u, d = DSampled None u \/ d = DSampled (Some 0) u) \/
    (e = ENegInterval idx /\ exists z u, d = DSampled (Some z) u /\ z < 0) \/
    (e = EDimUnit idx /\ match d with DSet _ => False | DSampled _ u | DRange _ u => unit_not_atomic u end).
Proof.
  intros e ds shape. rewrite check_dims_in. split; intros (k & d & n & H1 & H2 & H3); exists k, d, n; repeat split; auto.
  - apply dim_errors in H3. exact H3.
  - apply dim_errors. exact H3.
Qed.
Print Assumptions c14_dimension_errors.

(* missing or surplus descriptors *)
Theorem c14_descriptor_count : forall a,
  In EDimMismatch (check_array a) <-> length (ar_dims a) <> length (ar_shape a).
Proof. exact array_dimension_mismatch. Qed.
Print Assumptions c14_descriptor_count.

(* tags: every error of a tag's report, and when *)
Theorem c14_tag_errors : forall f t e, let refs := ref_arrays f (tg_refs t) in
  In e (check_tag f t) <->
  In e (check_entity (tg_ent t)) \/
  (e = ENoPosition /\ tg_npos t = 0%nat) \/
  (e = EPosDim /\ refs <> [] /\ exists a, In a refs /\ rank a <> tg_npos t) \/
  (e = EPosExt /\ refs <> [] /\ tg_next t <> 0%nat /\ tg_next t <> tg_npos t) \/
  (e = EExtDim /\ refs <> [] /\ tg_next t <> 0%nat /\ exists a, In a refs /\ rank a <> tg_next t) \/
  (e = EUnitsCount /\ refs <> [] /\ exists a, In a refs /\ length (tg_units t) <> length (dim_units a)) \/
  (e = EUnitsIncompatible /\ refs <> [] /\ units_match (tg_units t) (map dim_units refs) = false) \/
  (e = EUnitNotSI /\ exists u, In u (tg_units t) /\ u <> [] /\ is_si u = false).
Proof.
  intros f t e refs. unfold refs. rewrite (tag_errors f t e).
  rewrite !some_ref_differs, some_unit_not_si.
  assert (X : existsb (fun a => negb (Nat.eqb (length (dim_units a)) (length (tg_units t)))) (ref_arrays f (tg_refs t)) = true
              <-> exists a, In a (ref_arrays f (tg_refs t)) /\ length (tg_units t) <> length (dim_units a)).
  { rewrite existsb_exists. split; intros (a & Ha & H); exists a; split; auto.
    - apply negb_true_iff, Nat.eqb_neq in H. auto.
    - apply negb_true_iff, Nat.eqb_neq. auto. }
  rewrite X. tauto.
Qed.
Print Assumptions c14_tag_errors.

Theorem c14_mtag_errors : forall f t e, let refs := ref_arrays f (mt_refs t) in
  In e (check_mtag f t) <->
  In e (check_entity (mt_ent t)) \/
  (e = ENoPositions /\ (mt_pos t = None \/ exists sh, mt_pos t = Some sh /\ nonempty_arr sh = false)) \/
  (e = EPositionsDim /\ refs <> [] /\ exists sh, mt_pos t = Some sh /\
     existsb (fun a => negb (Nat.eqb (second_dim sh) (rank a))) refs = true) \/
  (e = EPositionsExtents /\ refs <> [] /\ exists sh esh, mt_pos t = Some sh /\ mt_ext t = Some esh /\
     nonempty_arr esh = true /\ shape_eqb sh esh = false) \/
  (e = EExtentsDim /\ refs <> [] /\ exists esh, mt_ext t = Some esh /\ nonempty_arr esh = true /\
     existsb (fun a => negb (Nat.eqb (second_dim esh) (rank a))) refs = true) \/
  (e = EUnitsCount /\ refs <> [] /\ existsb (fun a => negb (Nat.eqb (length (dim_units a)) (length (mt_units t)))) refs = true) \/
  (e = EUnitsIncompatible /\ refs <> [] /\ units_match (mt_units t) (map dim_units refs) = false) \/
  (e = EUnitNotSI /\ existsb (fun u => match u with [] => false | _ => negb (is_si u) end) (mt_units t) = true).
Proof. exact mtag_errors. Qed.
Print Assumptions c14_mtag_errors.

(* non-vacuity: a consistent file (an array with a range descriptor in ms, a tag on it in s, a
   multi-tag with 2 positions), and the same file with the ticks reversed *)
Definition ms : str := [109; 115]%N.
Definition sec : str := [115]%N.
Definition okent := mkEnt true true true.
Definition ex_file (ticks : list Z) : nfile :=
  mkFile [mkArr okent [3%nat] [DRange ticks (Some ms)]]
         [mkTag okent 1 1 [sec] [0%nat]] [mkMTag okent (Some [2%nat; 1%nat]) None [ms] [0%nat]] [okent].
Example c14_example :
  file_ok (ex_file [1; 2; 5]) /\ check_file (ex_file [1; 2; 5]) = [[]; []; []; []] /\
  check_file (ex_file [5; 2; 1]) = [[EUnsortedTicks 1]; []; []; []].
Proof.
  split; [|split; vm_compute; reflexivity].
  unfold file_ok, ex_file. cbn [f_arrays f_tags f_mtags f_others]. repeat split.
  - repeat constructor; cbn; try discriminate; try reflexivity.
    intros i Hi. cbn in Hi. destruct i as [|[|i]]; cbn; lia.
  - constructor; [|constructor]. unfold tag_ok. cbn. split; [repeat split; reflexivity|]. split; [discriminate|].
    split; [intros a [<-|[]]; reflexivity|]. split; [intros _; right; reflexivity|]. split.
    + intros u [<-|[]] _. vm_compute. reflexivity.
    + intros a [<-|[]]. constructor; [|constructor]. right. vm_compute. reflexivity.
  - constructor; [|constructor]. unfold mtag_ok. cbn. split; [repeat split; reflexivity|]. split.
    + exists [2%nat; 1%nat]. split; [reflexivity|]. split; [reflexivity|]. split; [intros a [<-|[]]; reflexivity|]. intros _. exact I.
    + split.
      * intros u [<-|[]] _. vm_compute. reflexivity.
      * intros a [<-|[]]. constructor; [|constructor]. right. vm_compute. reflexivity.
  - repeat constructor.
Qed.
