(* Proofs/DimsSet.v -- C07 for the category (set) dimension, and soundness of the executable
   oracle [holds_index] with respect to the declarative order specification. *)
From Coq Require Import QArith Qround Qabs ZArith List Bool Lia Lqa.
From NixV Require Import Base.Prelude Pure.Dims Pure.DimsCheck Proofs.DimsBase.
Import ListNotations.
Open Scope Q_scope.

(* samples of a set dimension: 0..n-1 with n labels, every index >= 0 without labels *)
Definition set_dom (n : nat) (i : Z) : Prop := (0 <= i)%Z /\ (n = 0%nat \/ (i < Z.of_nat n)%Z).

Lemma set_mono n i j : set_dom n i -> set_dom n j -> (i <= j)%Z -> inject_Z i <= inject_Z j.
Proof. intros _ _ H. apply (proj1 (inj_le _ _)). exact H. Qed.

Lemma sand_set_leq n p i : set_dom n i -> inject_Z i <= p -> p < inject_Z i + 1 ->
  last_le inject_Z (set_dom n) p i.
Proof.
  intros D H1 H2. split; [exact D|]. split; [exact H1|]. intros j _ Hj. apply inj_lt_succ. lra.
Qed.
Lemma sand_set_less n p i : set_dom n i -> inject_Z i < p -> p <= inject_Z i + 1 ->
  last_lt inject_Z (set_dom n) p i.
Proof.
  intros D H1 H2. split; [exact D|]. split; [exact H1|]. intros j _ Hj. apply inj_lt_succ. lra.
Qed.
Lemma sand_set_geq n p i : set_dom n i -> p <= inject_Z i -> (i = 0%Z \/ inject_Z i - 1 < p) ->
  first_ge inject_Z (set_dom n) p i.
Proof.
  intros D H1 H2. split; [exact D|]. split; [exact H1|].
  intros j Dj Hj. destruct H2 as [->|H2]; [exact (proj1 Dj)|].
  assert (A : (i - 1 <= j - 1)%Z); [|lia]. apply inj_lt_succ. rewrite !inj_sub1. lra.
Qed.

Theorem set_index_of_spec n p m :
  band_set p = false ->
  spec_index inject_Z (set_dom n) p m (set_index_of n p m).
Proof.
  unfold band_set, band_at, set_index_of. intros Hsep.
  destruct (Qltb p 0) eqn:Eneg.
  { apply Qltb_true in Eneg. destruct m; cbn.
    - intros j [Dj _] Hj. apply inj_le in Dj. change (inject_Z 0) with 0 in Dj. lra.
    - intros j [Dj _] Hj. apply inj_le in Dj. change (inject_Z 0) with 0 in Dj. lra.
    - apply sand_set_geq; [|change (inject_Z 0) with 0; lra | left; reflexivity].
      (* index 0 exists: with labels n >= 1 *)
      split; [lia|]. destruct n; [left; reflexivity | right; lia]. }
  apply Qltb_false in Eneg.
  destruct (Qeqb p 0 && is_less m) eqn:Ez.
  { apply andb_prop in Ez. destruct Ez as [Ez Em]. destruct m; try discriminate. cbn.
    apply Qeqb_true in Ez. intros j [Dj _] Hj. apply inj_le in Dj.
    change (inject_Z 0) with 0 in Dj. lra. }
  destruct (negb (Nat.eqb n 0) && Qltb (inject_Z (Z.of_nat n) - 1) p) eqn:Etop.
  { apply andb_prop in Etop. destruct Etop as [En Et]. apply negb_true_iff in En.
    apply Nat.eqb_neq in En. apply Qltb_true in Et.
    assert (Dl : set_dom n (Z.of_nat n - 1)%Z) by (split; [lia | right; lia]).
    assert (Top : forall j, set_dom n j -> (j <= Z.of_nat n - 1)%Z).
    { intros j [_ [H|H]]; [contradiction | lia]. }
    destruct m; cbn.
    - split; [exact Dl|]. split; [rewrite inj_sub1; exact Et|]. intros j Dj _. apply Top. exact Dj.
    - split; [exact Dl|]. split; [rewrite inj_sub1; lra|]. intros j Dj _. apply Top. exact Dj.
    - intros j Dj Hj. pose proof (Top j Dj) as T. apply inj_le in T. rewrite inj_sub1 in T. lra. }
  (* p <= n - 1 when there are labels *)
  assert (Below : n = 0%nat \/ p <= inject_Z (Z.of_nat n) - 1).
  { destruct (Nat.eqb n 0) eqn:En; [left; apply Nat.eqb_eq; exact En|]. right.
    cbn in Etop. apply Qltb_false in Etop. exact Etop. }
  destruct (floor_bounds p) as [F1 F2]. set (r := Qfloor p) in *.
  assert (Rnn : (0 <= r)%Z).
  { apply inj_lt_succ. change (inject_Z 0) with 0. lra. }
  assert (Sep : p == inject_Z r \/ isclose p (inject_Z r) = false).
  { destruct (Qeqb p (inject_Z r)) eqn:E; [left; apply Qeqb_true; exact E|].
    right. cbn in Hsep. destruct (isclose p (inject_Z r)); [discriminate | reflexivity]. }
  assert (Dr : set_dom n r).
  { split; [exact Rnn|]. destruct Below as [B|B]; [left; exact B|]. right.
    assert (A : (r <= Z.of_nat n - 1)%Z); [|lia]. apply (proj2 (inj_le _ _)). rewrite inj_sub1. lra. }
  destruct (isclose p (inject_Z r)) eqn:Ec.
  { destruct Sep as [E|E]; [|discriminate]. destruct m; cbn.
    - assert (R1 : (1 <= r)%Z).
      { destruct (Z.eq_dec r 0) as [R0|R0]; [|lia]. exfalso.
        rewrite R0 in E. change (inject_Z 0) with 0 in E.
        assert (Q0 : Qeqb p 0 = true) by (apply Qeqb_true; exact E).
        rewrite Q0 in Ez. discriminate. }
      apply sand_set_less; [|rewrite inj_sub1; lra | rewrite inj_sub1; lra].
      destruct Dr as [_ Dr]. split; [lia|]. destruct Dr as [Dr|Dr]; [left; exact Dr | right; lia].
    - apply sand_set_leq; [exact Dr | lra | lra].
    - apply sand_set_geq; [exact Dr | lra | right; lra]. }
  pose proof (isclose_false_ne _ _ Ec) as Ne.
  assert (Lt : inject_Z r < p).
  { apply Qle_lteq in F1. destruct F1 as [L|L]; [exact L|]. exfalso. apply Ne. symmetry. exact L. }
  destruct m; cbn.
  - apply sand_set_less; [exact Dr | exact Lt | lra].
  - apply sand_set_leq; [exact Dr | lra | lra].
  - apply sand_set_geq; [|rewrite inj_add1; lra | right; rewrite inj_add1; lra].
    split; [lia|]. destruct Below as [B|B]; [left; exact B|]. right.
    assert (A : (r < Z.of_nat n - 1)%Z); [|lia]. apply (proj2 (inj_lt _ _)). rewrite inj_sub1. lra.
Qed.

Theorem set_range_spec n p q m : p <= q -> band_set p = false -> band_set q = false ->
  exists r, set_range_indices n p q m = rres_of r /\
            spec_range inject_Z (set_dom n) p q m r.
Proof.
  intros Hpq Hp Hq. unfold set_range_indices.
  assert (E : Qltb q p = false) by (apply Qltb_false; exact Hpq). rewrite E.
  eexists. split; [reflexivity|]. apply range_from_index.
  - apply set_mono.
  - apply set_index_of_spec. exact Hp.
  - apply set_index_of_spec. exact Hq.
Qed.

(* ---------------- soundness of the executable oracle used on implementation traces *)
Definition idx_dom (n : option Z) (i : Z) : Prop :=
  (0 <= i)%Z /\ match n with Some k => (i < k)%Z | None => True end.

Lemma in_idx_true n i : in_idx n i = true <-> idx_dom n i.
Proof.
  unfold in_idx, idx_dom. rewrite andb_true_iff, Z.leb_le.
  destruct n as [k|]; [rewrite Z.ltb_lt|]; tauto.
Qed.
Lemma in_idx_false n i : in_idx n i = false <-> ~ idx_dom n i.
Proof.
  split; intro H.
  - intro D. apply in_idx_true in D. congruence.
  - destruct (in_idx n i) eqn:E; [apply in_idx_true in E; contradiction | reflexivity].
Qed.

Theorem oracle_sound (c : Z -> Q) (n : option Z) (p : Q) (m : imode) (r : option Z) :
  (forall i j, idx_dom n i -> idx_dom n j -> (i <= j)%Z -> c i <= c j) ->
  holds_index c n p m r = true -> spec_index c (idx_dom n) p m r.
Proof.
  intros Mono H. unfold holds_index in H.
  assert (Empty : forall k, n = Some k -> (k <=? 0)%Z = true -> forall j, ~ idx_dom n j).
  { intros k -> Hk j [J1 J2]. apply Z.leb_le in Hk. lia. }
  destruct m, r as [i|]; cbn.
  - (* Less, Some *)
    apply andb_prop in H. destruct H as [H H3]. apply andb_prop in H. destruct H as [H1 H2].
    apply in_idx_true in H1. apply Qltb_true in H2.
    split; [exact H1|]. split; [exact H2|]. intros j Dj Hj.
    destruct (Z_lt_le_dec i j) as [L|L]; [|exact L]. exfalso.
    apply orb_prop in H3. destruct H3 as [H3|H3].
    + apply negb_true_iff, in_idx_false in H3. apply H3.
      destruct Dj as [J1 J2]. destruct H1 as [I1 I2]. split; [lia|]. destruct n; [lia | exact I].
    + apply Qleb_true in H3.
      assert (D1 : idx_dom n (i + 1)%Z).
      { destruct Dj as [J1 J2]. destruct H1 as [I1 I2]. split; [lia|]. destruct n; [lia | exact I]. }
      pose proof (Mono _ _ D1 Dj ltac:(lia)). lra.
  - (* Less, None *)
    intros j Dj Hj. apply orb_prop in H. destruct H as [H|H].
    + destruct n as [k|]; [exact (Empty k eq_refl H j Dj) | discriminate].
    + apply Qleb_true in H.
      assert (D0 : idx_dom n 0%Z).
      { destruct Dj as [J1 J2]. split; [lia|]. destruct n; [lia | exact I]. }
      pose proof (Mono _ _ D0 Dj (proj1 Dj)). lra.
  - (* Leq, Some *)
    apply andb_prop in H. destruct H as [H H3]. apply andb_prop in H. destruct H as [H1 H2].
    apply in_idx_true in H1. apply Qleb_true in H2.
    split; [exact H1|]. split; [exact H2|]. intros j Dj Hj.
    destruct (Z_lt_le_dec i j) as [L|L]; [|exact L]. exfalso.
    apply orb_prop in H3. destruct H3 as [H3|H3].
    + apply negb_true_iff, in_idx_false in H3. apply H3.
      destruct Dj as [J1 J2]. destruct H1 as [I1 I2]. split; [lia|]. destruct n; [lia | exact I].
    + apply Qltb_true in H3.
      assert (D1 : idx_dom n (i + 1)%Z).
      { destruct Dj as [J1 J2]. destruct H1 as [I1 I2]. split; [lia|]. destruct n; [lia | exact I]. }
      pose proof (Mono _ _ D1 Dj ltac:(lia)). lra.
  - (* Leq, None *)
    intros j Dj Hj. apply orb_prop in H. destruct H as [H|H].
    + destruct n as [k|]; [exact (Empty k eq_refl H j Dj) | discriminate].
    + apply Qltb_true in H.
      assert (D0 : idx_dom n 0%Z).
      { destruct Dj as [J1 J2]. split; [lia|]. destruct n; [lia | exact I]. }
      pose proof (Mono _ _ D0 Dj (proj1 Dj)). lra.
  - (* Geq, Some *)
    apply andb_prop in H. destruct H as [H H3]. apply andb_prop in H. destruct H as [H1 H2].
    apply in_idx_true in H1. apply Qleb_true in H2.
    split; [exact H1|]. split; [exact H2|]. intros j Dj Hj.
    destruct (Z_lt_le_dec j i) as [L|L]; [|exact L]. exfalso.
    apply orb_prop in H3. destruct H3 as [H3|H3].
    + apply Z.eqb_eq in H3. destruct Dj. lia.
    + apply Qltb_true in H3.
      assert (D1 : idx_dom n (i - 1)%Z).
      { destruct Dj as [J1 J2]. destruct H1 as [I1 I2]. split; [lia|]. destruct n; [lia | exact I]. }
      pose proof (Mono _ _ Dj D1 ltac:(lia)). lra.
  - (* Geq, None *)
    destruct n as [k|]; [|discriminate].
    intros j Dj Hj. apply orb_prop in H. destruct H as [H|H].
    + exact (Empty k eq_refl H j Dj).
    + apply Qltb_true in H.
      assert (D1 : idx_dom (Some k) (k - 1)%Z) by (destruct Dj as [J1 J2]; split; lia).
      pose proof (Mono _ _ Dj D1 ltac:(destruct Dj; lia)). lra.
Qed.

Example set_nonvacuous :
  band_set (5 # 2) = false /\ set_index_of 4 (5 # 2) Geq = Some 3%Z /\
  set_index_of 4 (5 # 2) Less = Some 2%Z /\ set_index_of 4 (7 # 2) Geq = None.
Proof. vm_compute. repeat split. Qed.
