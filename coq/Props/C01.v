(* Props/C01.v -- array data is stored and returned exactly (type, shape, values).
   ONLY property theorems, over Pure/Array.v: a shape, the row-major list of cells (opaque bit
   patterns) and an element type.  What h5py/HDF5 do with chunks, compression and fill values
   is tied by correspondence on histories (all 12 element types, 27 compression triples). *)
From Coq Require Import ZArith List.
From NixV Require Import Base.Prelude Pure.Slices Pure.Array Proofs.ArrayProofs Proofs.ArrayProofs2.
Import ListNotations.
Open Scope Z_scope.

(* what is assigned to a region of distinct existing cells is what reading that region returns,
   in order; shape and number of cells do not change *)
Theorem c01_read_after_write_region : forall a sels vals,
  NoDup (map Z.to_nat (offsets_of (a_shape a) sels)) ->
  (forall o, In o (offsets_of (a_shape a) sels) -> (Z.to_nat o < length (a_cells a))%nat) ->
  length vals = length (offsets_of (a_shape a) sels) ->
  read_region (write_region a sels vals) sels = vals /\
  a_shape (write_region a sels vals) = a_shape a /\
  length (a_cells (write_region a sels vals)) = length (a_cells a).
Proof. exact read_after_write_region. Qed.
Print Assumptions c01_read_after_write_region.

(* ... and every cell outside the region keeps its value *)
Theorem c01_region_frame : forall a sels vals k,
  (forall o, In o (offsets_of (a_shape a) sels) -> Z.to_nat o <> k) ->
  nth k (a_cells (write_region a sels vals)) 0 = nth k (a_cells a) 0.
Proof. exact region_frame. Qed.
Print Assumptions c01_region_frame.

(* the same with the hypotheses derived: for a well-formed array (non-negative extents, one cell per
   multi-index) and ANY selection whose items lie within the extents (integers 0 <= i < n, ranges
   0 <= a, b <= n with a positive step - what C06's normalisation produces), the selected cells are
   pairwise distinct and exist; so the assigned values read back, and every cell outside the
   selection keeps its value *)
Theorem c01_region_inbounds : forall a sels vals,
  arr_wf a -> Forall2 sel_ok sels (a_shape a) -> length vals = length (offsets_of (a_shape a) sels) ->
  read_region (write_region a sels vals) sels = vals /\
  a_shape (write_region a sels vals) = a_shape a /\
  length (a_cells (write_region a sels vals)) = length (a_cells a) /\
  (forall k, (forall o, In o (offsets_of (a_shape a) sels) -> Z.to_nat o <> k) ->
     nth k (a_cells (write_region a sels vals)) 0 = nth k (a_cells a) 0).
Proof. exact read_after_write_region_inbounds. Qed.
Print Assumptions c01_region_inbounds.
Theorem c01_selection_cells_distinct : forall shape sels, nonneg shape -> Forall2 sel_ok sels shape ->
  NoDup (map Z.to_nat (offsets_of shape sels)) /\ (forall o, In o (offsets_of shape sels) -> 0 <= o < sizeZ shape).
Proof. exact inbounds_selection_offsets. Qed.
Print Assumptions c01_selection_cells_distinct.

Theorem c01_write_all : forall a vals,
  read_all (write_all a vals) = vals /\ a_shape (write_all a vals) = a_shape a.
Proof. exact write_all_read_all. Qed.
Print Assumptions c01_write_all.

(* the cells are enumerated row-major: the k-th multi-index is the one whose offset is k
   (every rank, every shape incl. zero-length axes) *)
Theorem c01_row_major : forall shape, nonneg shape -> forall idx, in_bounds shape idx = true ->
  nth_error (all_indices shape) (Z.to_nat (flat_index shape idx)) = Some idx.
Proof. exact row_major. Qed.
Print Assumptions c01_row_major.

(* resize: cells whose index survives keep their value, new cells hold the fill value *)
Theorem c01_resize_keeps : forall a new_shape idx, nonneg new_shape -> in_bounds new_shape idx = true ->
  nth (Z.to_nat (flat_index new_shape idx)) (a_cells (resize a new_shape)) 0 =
  (if in_bounds (a_shape a) idx then nth (Z.to_nat (flat_index (a_shape a) idx)) (a_cells a) 0 else 0) /\
  a_shape (resize a new_shape) = new_shape.
Proof. exact resize_keeps. Qed.
Print Assumptions c01_resize_keeps.

(* no operation changes the element type *)
Theorem c01_type_fixed : forall a,
  (forall v, a_dtype (write_all a v) = a_dtype a) /\
  (forall s v, a_dtype (write_region a s v) = a_dtype a) /\
  (forall s, a_dtype (resize a s) = a_dtype a) /\
  (forall ds d ax a', append a ds d ax = Some a' -> a_dtype a' = a_dtype a).
Proof. exact type_fixed. Qed.
Print Assumptions c01_type_fixed.
