"""C19 -- timestamps: creation time is fixed, update time follows attribute changes."""
import json
import os
import random
import subprocess
import sys

sys.path.insert(0, os.path.dirname(os.path.dirname(os.path.abspath(__file__))))
import core  # noqa: E402
import storeprop  # noqa: E402
from coqlit import cstr, cZ  # noqa: E402

ID = "C19"
THEOREMS = ["c19_roundtrip", "c19_table_complete", "c19_force", "c19_created_fixed", "c19_auto_off",
            "c19_auto_on_self", "c19_auto_on_others"]
PROFILE = {"weights": {"set_attr": 10, "set_link": 5, "set_auto": 1.5, "force": 2, "create": 8, "append": 3, "remove": 1,
                       "delete": 1, "reopen": 0.8, "lookup": 2, "bad": 0.5, "probe": 0, "probe_link": 0}}
RULE = ("histories with the library clock replaced by a counter (nixio.util.now_int patched: op i runs at second 900 + (37 (1000+i) mod 211): the clock jumps back every few operations), the "
        "auto-update switch toggled at random points and kept across reopen, every modelled setter on every entity kind, "
        "force_created_at/force_updated_at with boundary and random seconds in [0, 2100) on every kind and on the File itself; "
        "created_at/updated_at of EVERY entity and of the file "
        "are part of the walk compared with the model after every operation, and the trace predicates below are applied to the "
        "implementation's own timestamps; plus the calendar stream: time_to_str/str_to_time on day boundaries, leap days and "
        "random seconds under two TZ settings.")
SETTER_OPS = ("set_attr",)
TOUCHING_LINKS = ("RPositions", "RExtents", "RFeatureData", "RSectionLink")


def predicate(h):
    out = []
    auto = True
    for i, (op, res) in enumerate(zip(h["ops"], h["results"])):
        if op[0] == "set_auto":
            auto = bool(op[1])
        if i == 0:
            continue
        prev, cur = h["infos"][i - 1].get("stamps", {}), h["infos"][i].get("stamps", {})
        now = 900 + ((1000 + i) * 37) % 211          # nixrun.clock_of / Observe.clock_of
        forced = None
        if op[0] == "force" and res[0] == "ok":
            forced = (h["handle_ids"][i] if "handle_ids" in h else None, op[2], op[3])
        target = h["target_ids"][i] if "target_ids" in h else None
        if op[0] == "force" and op[1] == 0:
            target = "file"             # handle 0 is the File; its timestamps are recorded under this key
        for eid, (c1, u1) in cur.items():
            if eid not in prev:
                continue
            c0, u0 = prev[eid]
            is_forced = op[0] == "force" and res[0] == "ok" and eid == target
            if c1 != c0 and not (is_forced and op[2]):
                out.append(("creation time changed", i, {"op": op, "entity": eid, "from": c0, "to": c1}))
            if isinstance(u0, int) and isinstance(u1, int) and u1 < u0 and not is_forced and u0 <= now:
                out.append(("update time moved backwards", i, {"op": op, "entity": eid, "from": u0, "to": u1}))
            if not auto and u1 != u0 and not is_forced:
                out.append(("update time changed with automatic timestamps disabled", i, {"op": op, "entity": eid}))
            if auto and op[0] == "set_attr" and res[0] == "ok" and eid != target and u1 != u0:
                out.append(("a setter changed ANOTHER entity's update time", i, {"op": op, "entity": eid}))
        if auto and op[0] == "set_attr" and res[0] == "ok" and target in cur and cur[target][1] != now:
            out.append(("a setter did not set the entity's update time to the current time", i,
                        {"op": op, "updated_at": cur[target][1], "clock": now}))
        if op[0] == "force" and res[0] == "ok" and target in cur:
            got = cur[target][0 if op[2] else 1]
            if got != op[3]:
                out.append(("a forced timestamp does not read back", i, {"op": op, "read": got}))
    return out


def run(ctx):
    st = storeprop.run(ctx, ID, THEOREMS, "Props/C19.v", PROFILE, (28, 40), 80, 700, predicate, RULE, with_times=True,
                       extra_targets=["Pure/CalendarCheck.vo"])
    # ---- calendar stream
    rnd = random.Random(ctx.seed)
    thorough = ctx.tier == "thorough"
    secs = [0, 1, 59, 60, 3599, 3600, 86399, 86400, 951782399, 951782400, 951868799, 951868800, 4102444799,
            68169600, 68255999, 1078012800, 4107542399 - 5097600]
    for y in range(0, 130, 7):
        secs += [y * 31556952, y * 31556952 + 86400 * 59]
    secs += [rnd.randint(0, 4102444799) for _ in range(200000 if thorough else 20000)]
    secs = [s for s in secs if 0 <= s < 4102444800]
    results = {}
    for tz in ("UTC", "Asia/Tokyo"):
        env = ctx.impl_env()
        env["TZ"] = tz
        p = subprocess.run([core.PY, os.path.join(core.HERE, "impl_time.py")], input=json.dumps({"seconds": secs}),
                           env=env, capture_output=True, text=True, cwd=ctx.workdir)
        if p.returncode != 0:
            st["broken"].append("impl_time.py failed under TZ=%s: %s" % (tz, p.stderr[-500:]))
            continue
        results[tz] = json.loads(p.stdout)
    fails = []
    if len(results) == 2 and results["UTC"] != results["Asia/Tokyo"]:
        k = [i for i in range(len(secs)) if results["UTC"][i] != results["Asia/Tokyo"][i]][0]
        fails.append(("timestamp text depends on the time zone", secs[k], [results["UTC"][k], results["Asia/Tokyo"][k]]))
    if "UTC" in results and core.vo_ok("Pure/CalendarCheck.v"):
        terms = ["(%s, %s, %s)" % (cZ(t), cstr(r[0]), cZ(r[1])) for t, r in zip(secs, results["UTC"])]
        verd, errs = core.eval_verdicts(ctx.workdir,
                                        "From NixV Require Import Base.Prelude Gen.Touch Pure.Calendar Pure.CalendarCheck.\n",
                                        "time_case", "check_time", terms, tag="cal", shard_size=4000)
        for e in errs:
            st["broken"].append("calendar model evaluation failed: %s" % e)
        dis = 0
        for i, code in verd:
            if code & 2:
                fails.append(("time_to_str/str_to_time do not round-trip", secs[i], results["UTC"][i]))
            elif code & 1:
                dis += 1
                st["broken"].append("calendar correspondence: model and implementation disagree at t=%d -> %r" % (secs[i], results["UTC"][i]))
    # ---- setter sweep: every attribute the property lists, several kinds of value, both settings
    sweep = ctx.run_impl("impl_touchsweep.py", {})
    for e in sweep:
        if not e["ok"]:
            fails.append(("setter does not follow the timestamp rule", e["setter"] + (" (auto on)" if e["auto"] else " (auto off)"), e))
    ctx.coverage["setter_sweep_cases"] = len(sweep)
    if fails and not ctx.violations:
        rp = ctx.write_replay("%s-calendar-seed%d.json" % (ID, ctx.seed), {"property": ID, "kind": fails[0][0],
                                                                              "input": {"case": fails[0][1]}, "observed": fails[0][2]})
        ctx.violation("%d failures, e.g. %s: %r -> %r" % (len(fails), fails[0][0], fails[0][1], fails[0][2]), rp)
    ctx.coverage["calendar_seconds"] = len(secs)
    ctx.coverage["evaluations"] += len(secs)
    return st


def replay(ctx):
    if "history" in ctx.replay.get("input", {}):
        return storeprop.replay(ctx, ID, predicate, with_times=True)
    print("calendar replay: run impl_time.py on", ctx.replay["input"])
    return 0
