(* Pure/DimLink.v -- a range and a set dimension of a host array that may be linked to a vector of a
   target array (nixio/dimensions.py: Dimension.link_data_array, remove_link, DimensionLink,
   RangeDimension.ticks/unit/label, SetDimension.labels).  Values are integers (the harness
   uses small floats).  DataFrame links are not modelled. *)
From Coq Require Import ZArith List Bool.
From NixV Require Import Base.Prelude.
Import ListNotations.
Open Scope Z_scope.

Record target := mkTarget { t_unit : option str; t_label : option str; t_shape : list Z; t_cells : list Z }.
Record rdim := mkR { r_ticks : option (list Z); r_unit : option str; r_label : option str; r_link : option (list Z) }.
Record sdim := mkS { s_labels : option (list Z); s_link : option (list Z) }.
Record dstate := mkDS { tg : target; rd : rdim; sd : sdim }.

Inductive derr := EIncompat | EValue | ERuntime | EIndex.

(* DimensionLink.values: data[index with -1 -> slice(None)] of a row-major array of rank 1 or 2 *)
Definition nthZ (l : list Z) (i : Z) : option Z := if i <? 0 then None else nth_error l (Z.to_nat i).
Fixpoint gather_opt (l : list (option Z)) : option (list Z) :=
  match l with [] => Some [] | Some x :: r => option_map (cons x) (gather_opt r) | None :: _ => None end.
Definition zseq (n : Z) : list Z := map Z.of_nat (seq 0 (Z.to_nat n)).
Definition link_values (t : target) (idx : list Z) : option (list Z) :=
  match t_shape t, idx with
  | [n], [-1] => Some (t_cells t)
  | [r; c], [-1; k] => if (k <? 0) || (c <=? k) then None
                       else gather_opt (map (fun i => nthZ (t_cells t) (i * c + k)) (zseq r))
  | [r; c], [k; -1] => if (k <? 0) || (r <=? k) then None
                       else gather_opt (map (fun j => nthZ (t_cells t) (k * c + j)) (zseq c))
  | _, _ => None
  end.

(* the two tests of link_data_array *)
Definition count_neg1 (idx : list Z) : nat := length (filter (Z.eqb (-1)) idx).
Definition count_neg (idx : list Z) : nat := length (filter (fun z => z <? 0) idx).
Definition link_check (t : target) (idx : list Z) : option derr :=
  if negb (Nat.eqb (length (t_shape t)) (length idx)) then Some EIncompat
  else if negb (Nat.eqb (count_neg1 idx) 1) || negb (Nat.eqb (count_neg idx) 1) then Some EValue
  else None.

(* np.any(np.diff(ticks) < 0) *)
Fixpoint descends (l : list Z) : bool :=
  match l with a :: ((b :: _) as r) => (b <? a) || descends r | _ => false end.

Inductive dop :=
| RSetTicks (l : list Z) | RLink (idx : list Z) | RUnlink | RSetUnit (u : str) | RSetLabel (u : str)
| SSetLabels (l : list Z) | SLink (idx : list Z) | SUnlink
| TSetUnit (u : option str) | TSetLabel (u : option str) | TSetCell (i : nat) (v : Z).

Definition set_nthZ (l : list Z) (i : nat) (v : Z) : list Z :=
  firstn i l ++ match skipn i l with [] => [] | _ :: r => v :: r end.

Definition dstep (s : dstate) (o : dop) : dstate * option derr :=
  let t := tg s in let r := rd s in let d := sd s in
  match o with
  | RSetTicks l =>
      if descends l then (s, Some EValue)
      else (mkDS t (mkR (Some l) (r_unit r) (r_label r) None) d, None)
  | RLink idx =>
      match link_check t idx with
      | Some e => (s, Some e)
      | None => (mkDS t (mkR None (r_unit r) (r_label r) (Some idx)) d, None)
      end
  | RUnlink => match r_link r with
               | None => (s, Some ERuntime)
               | Some _ => (mkDS t (mkR (r_ticks r) (r_unit r) (r_label r) None) d, None)
               end
  | RSetUnit u => match r_link r with
                  | Some _ => (mkDS (mkTarget (Some u) (t_label t) (t_shape t) (t_cells t)) r d, None)
                  | None => (mkDS t (mkR (r_ticks r) (Some u) (r_label r) None) d, None)
                  end
  | RSetLabel u => match r_link r with
                   | Some _ => (mkDS (mkTarget (t_unit t) (Some u) (t_shape t) (t_cells t)) r d, None)
                   | None => (mkDS t (mkR (r_ticks r) (r_unit r) (Some u) None) d, None)
                   end
  | SSetLabels l => match s_link d with
                    | Some _ => (s, Some ERuntime)
                    | None => (mkDS t r (mkS (Some l) None), None)
                    end
  | SLink idx => match link_check t idx with
                 | Some e => (s, Some e)
                 | None => (mkDS t r (mkS (s_labels d) (Some idx)), None)
                 end
  | SUnlink => match s_link d with
               | None => (s, Some ERuntime)
               | Some _ => (mkDS t r (mkS (s_labels d) None), None)
               end
  | TSetUnit u => (mkDS (mkTarget u (t_label t) (t_shape t) (t_cells t)) r d, None)
  | TSetLabel u => (mkDS (mkTarget (t_unit t) u (t_shape t) (t_cells t)) r d, None)
  | TSetCell i v => (mkDS (mkTarget (t_unit t) (t_label t) (t_shape t) (set_nthZ (t_cells t) i v)) r d, None)
  end.

(* what the dimension reports *)
Definition get_ticks (s : dstate) : option (list Z) :=             (* None = reading raises *)
  match r_link (rd s) with
  | Some idx => link_values (tg s) idx
  | None => Some (match r_ticks (rd s) with Some l => l | None => [] end)
  end.
Definition get_unit (s : dstate) : option str :=
  match r_link (rd s) with Some _ => t_unit (tg s) | None => r_unit (rd s) end.
Definition get_label (s : dstate) : option str :=
  match r_link (rd s) with Some _ => t_label (tg s) | None => r_label (rd s) end.
Definition get_labels (s : dstate) : option (list Z) :=
  match s_link (sd s) with
  | Some idx => link_values (tg s) idx
  | None => Some (match s_labels (sd s) with Some l => l | None => [] end)
  end.
