"""C01 -- array data is stored and returned exactly (type, shape, values)."""
import os
import random
import struct
import sys

sys.path.insert(0, os.path.dirname(os.path.dirname(os.path.abspath(__file__))))
import core  # noqa: E402
from coqlit import cZ, cN, cnat, cbool, clist  # noqa: E402
from props.c06 import ix, zl  # noqa: E402

ID = "C01"
THEOREMS = ["c01_read_after_write_region", "c01_region_frame", "c01_write_all", "c01_resize_keeps",
            "c01_row_major", "c01_type_fixed", "c01_region_inbounds", "c01_selection_cells_distinct"]
HEADER = ("From Coq Require Import ZArith List QArith.\nFrom NixV Require Import Base.Prelude Pure.Slices Pure.SlicesCheck "
          "Pure.Array Pure.ArrayCheck.\nImport ListNotations.\nOpen Scope Z_scope.\n")
DT = ["int8", "int16", "int32", "int64", "uint8", "uint16", "uint32", "uint64", "float32", "float64", "bool", "text"]
POOL = ["", "a", "äöü", "x" * 50, "日本", " ", "line\nbreak", "0",
        # texts that a well-meant clean-up would change: decomposed / precomposed pairs (both in the pool, so one read as the
        # other is seen), compatibility characters, jamo, case, outer blanks, a BOM, tabs, an astral character
        "e\u0301", "\u00e9", "\u212b", "\u00c5", "\u1100\u1161", "\uac00", "A", "a ", " a", "\ufeffa", "\ta\t", "\U0001F600",
        "\ufb01", "fi", "\u00df", "SS", "a\r\n"]


def f64(x):
    return struct.unpack("<Q", struct.pack("<d", x))[0]


def f32(x):
    return struct.unpack("<I", struct.pack("<f", x))[0]


def cell(rnd, dt):
    if dt == "text":
        return rnd.randrange(len(POOL))
    if dt == "bool":
        return rnd.randint(0, 1)
    if dt == "float64":
        return rnd.choice([f64(0.0), f64(-0.0), f64(float("inf")), f64(float("-inf")), 0x7FF8000000000000, 1, f64(1.5),
                           f64(-2.25), f64(1e308), f64(5e-324), rnd.getrandbits(64) & 0x7FEFFFFFFFFFFFFF])
    if dt == "float32":
        return rnd.choice([f32(0.0), f32(-0.0), f32(float("inf")), 0x7FC00000, 1, f32(1.5), f32(-3.75), rnd.getrandbits(31) & 0x7F7FFFFF])
    bits = int(dt.replace("uint", "").replace("int", ""))
    if dt.startswith("uint"):
        return rnd.choice([0, 1, 2 ** bits - 1, rnd.randrange(2 ** bits)])
    return rnd.choice([0, -1, 2 ** (bits - 1) - 1, -2 ** (bits - 1), rnd.randrange(-2 ** (bits - 1), 2 ** (bits - 1))])


def size(shape):
    n = 1
    for x in shape:
        n *= x
    return n


def gen_case(rnd, thorough):
    dt = rnd.choice(DT)
    rank = rnd.randint(1, 4 if thorough else 3)
    shape = [rnd.choice([0, 1, 2, 3, 4, 5]) if rnd.random() < 0.9 else 0 for _ in range(rank)]
    if rnd.random() < 0.08:
        shape = [1] * rank                 # a single element at any rank
    if size(shape) > 200:
        shape = [min(x, 3) for x in shape]
    cells = [cell(rnd, dt) for _ in range(size(shape))]
    ops = []
    cur = list(shape)
    import numpy as np
    for _ in range(rnd.randint(2, 25 if thorough else 9)):
        r = rnd.random()
        if r < 0.2:
            ops.append(["write_all", [cell(rnd, dt) for _ in range(size(cur))], rnd.random() < 0.5])
        elif r < 0.5:
            from props.c06 import gen_expr
            e = gen_expr(rnd, cur if all(cur) else [max(x, 1) for x in cur])
            e = [it for it in e]
            # selection size by NumPy on a dummy (positive steps only for the values; others are refusals)
            try:
                idx = tuple(i[1] if i[0] == "int" else (slice(i[1], i[2], i[3]) if i[0] == "slice" else Ellipsis) for i in e)
                sel = np.zeros(cur, dtype=np.int8)[idx]
                sshape = list(np.shape(sel))
                n = int(np.size(sel))
            except Exception:
                sshape, n = [1], 1
            if rnd.random() < 0.4:
                v = cell(rnd, dt)
                ops.append(["write_region", e, [v] * n, v, sshape])
            else:
                ops.append(["write_region", e, [cell(rnd, dt) for _ in range(n)], None, sshape])
        elif r < 0.7:
            axis = rnd.randrange(rank)
            ds = list(cur)
            ds[axis] = rnd.randint(0, 3)
            bad = rnd.random() < 0.15
            if bad:
                k = rnd.randrange(rank)
                if k != axis:
                    ds[k] += 1
                else:
                    ds = ds + [1]
            ops.append(["append", ds, [cell(rnd, dt) for _ in range(size(ds))], axis])
            if not bad:
                cur[axis] += ds[axis]
        elif r < 0.85:
            ns = [rnd.randint(0, 5) for _ in range(rank)]
            if size(ns) <= 250:
                ops.append(["resize", list(ns)])
                cur = list(ns)
        else:
            ops.append(["reopen", rnd.random() < 0.3])
            if ops[-1][1]:
                ops.append(["reopen", False])
    comp = [rnd.choice(["no", "deflate", "auto"]) for _ in range(3)]
    return {"dtype": dt, "shape": shape, "cells": cells, "pool": POOL, "ops": ops, "comp": comp,
            "create": rnd.choice(["data", "data+shape", "dtype+shape"])}


def numpy_spec(c, obs):
    """the property read with NumPy as the reference (cells are opaque integers): returns (step, what) for the first
    step whose observation is not what the calls so far determine, else None.  Used to name the failing input when
    model and implementation disagree."""
    import numpy as np
    a = np.array(c["cells"], dtype=object).reshape(c["shape"])
    for i, op in enumerate(c["ops"]):
        o = obs[i + 1]
        refused = bool(o[0])
        k = op[0]
        exp = a
        try:
            if k == "write_all":
                exp = np.array(op[1], dtype=object).reshape(a.shape)
            elif k == "write_region":
                idx = tuple(it[1] if it[0] == "int" else (slice(it[1], it[2], it[3]) if it[0] == "slice" else Ellipsis) for it in op[1])
                exp = a.copy()
                sel = exp[idx]
                if any(it[0] == "slice" and it[3] is not None and it[3] < 0 for it in op[1]):
                    raise ValueError("negative step")
                exp[idx] = np.array(op[2], dtype=object).reshape(np.shape(sel)) if np.ndim(sel) else op[2][0]
            elif k == "append":
                blk = np.array(op[2], dtype=object).reshape(op[1])
                if blk.ndim != a.ndim or any(x != y for j, (x, y) in enumerate(zip(blk.shape, a.shape)) if j != op[3]):
                    raise ValueError("shape mismatch")
                exp = np.concatenate([a, blk], axis=op[3])
            elif k == "resize":
                exp = np.zeros(op[1], dtype=object)
                common = tuple(slice(0, min(x, y)) for x, y in zip(a.shape, op[1]))
                exp[common] = a[common]
        except Exception:
            if not refused:
                return i, "%s with an invalid argument was accepted" % k
            exp = a
        else:
            if refused and not (k == "reopen"):
                if list(o[1]) != list(a.shape) or list(o[2]) != [int(x) for x in a.ravel()]:
                    return i, "a refused %s changed the array" % k
                return i, "a valid %s was refused" % k
        if not refused and (list(o[1]) != list(exp.shape) or list(o[2]) != [int(x) for x in exp.ravel()]):
            return i, "after %s the array does not have the shape / values the calls determine" % k
        if refused and (list(o[1]) != list(a.shape) or list(o[2]) != [int(x) for x in a.ravel()]):
            return i, "a refused %s changed the array" % k
        if not refused:
            a = exp
    return None


def aop(op, dtshape=None):
    if op[0] == "write_all":
        return "(AWriteAll %s)" % zl(op[1])
    if op[0] == "write_region":
        return "(AWriteRegion %s %s)" % (clist([ix(i) for i in op[1]], "ix"), zl(op[2]))
    if op[0] == "append":
        return "(AAppend %s %s %s)" % (zl(op[1]), zl(op[2]), cnat(op[3]))
    if op[0] == "resize":
        return "(AResize %s)" % zl(op[1])
    return "AReopen"


def obs_lit(o):
    return "(%s, %s, %s, %s)" % (cbool(o[0]), zl(o[1]), zl(o[2]), cN(o[3]))


def run(ctx):
    rnd = random.Random(ctx.seed)
    thorough = ctx.tier == "thorough"
    st = core.proof_stage(ctx, [], ["Pure/ArrayCheck.vo", "Props/C01.vo"], "Props/C01.v", THEOREMS)
    ctx.trusted_base = [
        "Coq 8.16.1 kernel; no native_compute",
        "hand-written model Pure/Array.v (row-major cells, region write through NumPy-normalised selections, HDF5 resize, "
        "DataSet.append) tied to nixio/h5py by correspondence on histories (this run); cells are opaque bit patterns",
        "numpy casting is not modelled: only values of the array's own element type are written",
        "h5py/libhdf5 (chunking, gzip, fill values) are exercised, not proven",
    ]
    ctx.assumptions = ["every property theorem: Closed under the global context"]
    n = 3000 if thorough else 260
    cases = [gen_case(rnd, thorough) for _ in range(n)]
    impl = ctx.run_impl_cases("impl_array.py", cases, jobs=8, timeout=3000)
    terms, inputs, failures, all_obs = [], [], [], []
    for c, r in zip(cases, impl):
        inp = {"dtype": c["dtype"], "shape": c["shape"], "create": c["create"], "compression": c["comp"], "ops": c["ops"]}
        if "create_error" in r:
            failures.append(("creation of a supported array was refused", inp, r))
            continue
        obs = r["obs"]
        first = obs[0]
        if first[1] != c["shape"] or first[2] != c["cells"] or first[3] not in (DT.index(c["dtype"]), 97):
            failures.append(("data read right after creation differs from what was given", inp, {"shape": first[1], "dtype_code": first[3]}))
            continue
        want_comp = "gzip" if (c["comp"][2] == "deflate" or (c["comp"][2] == "auto" and (c["comp"][1] == "deflate" or (c["comp"][1] == "auto" and c["comp"][0] == "deflate")))) else None
        if r["compression"] != want_comp:
            failures.append(("compression setting not resolved array > block > file", inp, {"stored": r["compression"], "expected": want_comp}))
        for o in obs:
            if o[3] != DT.index(c["dtype"]):
                failures.append(("reading a single element fails or returns something else" if o[3] == 97 else
                                 "two objects of the one array report different shapes or cells" if o[3] == 96 else
                                 "the whole read does not have the shape the array reports" if o[3] == 95 else
                                 "element type / len / size / read_direct inconsistent", inp, {"code": o[3]}))
                break
        arr = "(mkArr %s %s %s)" % (zl(c["shape"]), zl(c["cells"]), cN(DT.index(c["dtype"])))
        terms.append("(%s, %s, %s)" % (arr, clist([aop(o) for o in c["ops"]], "aop"), clist([obs_lit(o) for o in obs[1:]], "aobs")))
        inputs.append(inp)
        all_obs.append((c, obs))
    disagreements = []
    if core.vo_ok("Pure/ArrayCheck.v"):
        verd, errs = core.eval_verdicts(ctx.workdir, HEADER, "array_case", "check_array", terms, tag="arr", shard_size=60)
        for e in errs:
            st["broken"].append("model evaluation failed: %s" % e)
        for i, code in verd:
            try:
                sf = numpy_spec(*all_obs[i])
            except Exception:
                sf = None
            if sf is not None:
                step, what = sf
                failures.append((what, dict(inputs[i], ops=inputs[i]["ops"][:step + 1]), {"step": step, "read_shape": all_obs[i][1][step + 1][1]}))
            else:
                disagreements.append(inputs[i])
    else:
        st["broken"].append("model Pure/ArrayCheck.v does not build")
    if failures:
        failures.sort(key=lambda x: len(repr(x[1])))
        what, inp, r = failures[0]
        rp = ctx.write_replay("%s-seed%d.json" % (ID, ctx.seed), {"property": ID, "kind": what, "input": inp, "observed": r,
                                                                  "count": len(failures), "broken_obligations": st["broken"]})
        ctx.violation("%d array histories violate C01, e.g. %s" % (len(failures), what), rp)
    elif disagreements:
        disagreements.sort(key=lambda x: len(repr(x)))
        st["broken"].append("correspondence: the array model and the implementation disagree on %d histories, e.g. %r"
                            % (len(disagreements), disagreements[0]))
    ctx.coverage.update({
        "evaluations": sum(len(c["ops"]) + 1 for c in cases),
        "distinct_nontrivial": len(set(repr((c["dtype"], c["shape"], c["ops"])) for c in cases if c["ops"])),
        "rule": "histories on one array: 12 element types (8 integer, 2 float, bool, text) x 3 creation variants x 27 file/block/"
                "array compression triples (random), rank 1-3 (4 in thorough) with zero-length axes, values from type extremes / "
                "NaN / inf / -0.0 / denormals / non-ASCII and long text; ops: whole write (write_direct, [:]=), region assignment "
                "with the index expressions of C06 (scalar and array values), append along every axis (incl. mismatching shapes), "
                "resize, reopen read-only and read-write; after every op shape, ALL cells (bit patterns), dtype, len, size and "
                "read_direct are compared with the model. Operations alternate between two Python objects of the one "
                "array and every observation is made through both.",
        "histories": len(cases), "disagreements": len(disagreements), "spec_failures": len(failures),
        "dtype_histogram": {d: sum(1 for c in cases if c["dtype"] == d) for d in DT},
        "samples": [{"dtype": cases[0]["dtype"], "shape": cases[0]["shape"], "ops": [o[0] for o in cases[0]["ops"]]}],
    })
    return st
