#!/bin/bash
# seedtest.sh <property id> <seed worktree> <name> [check ids...]
# confirms the seeded change (tests unchanged, demo fails with / passes without), stores it under
# /verif/seeded/<name>/, runs the given checks against /repo with the change applied, and undoes it.
set -u
PID=$1; WT=$2; NAME=$3; shift 3; CHECKS="${@:-$PID}"
OUT=/verif/seeded/$NAME
mkdir -p $OUT
cp $WT/SEED/patch.diff $OUT/patch.diff
cp $WT/SEED/demo.py $OUT/demo.py
cp $WT/SEED/notes.txt $OUT/notes.txt 2>/dev/null
cd /repo
if ! git diff --quiet; then echo "repo not clean"; exit 2; fi
git apply $OUT/patch.diff || { echo "patch does not apply"; exit 2; }
PYTHONPATH=/repo /venv/bin/python $OUT/demo.py > $OUT/demo_with.txt 2>&1; DW=$?
TESTS=$(/venv/bin/python -m pytest -q -p no:cacheprovider -n 8 nixio 2>&1 | tail -1)
RES=""
cd /verif
for c in $CHECKS; do
  ./check $c > $OUT/check_$c.txt 2>&1; RC=$?
  RES="$RES $c:exit$RC"
  grep -h "VIOLATION" $OUT/check_$c.txt | head -2
done
git -C /repo checkout -- .
PYTHONPATH=/repo /venv/bin/python $OUT/demo.py > $OUT/demo_without.txt 2>&1; DO=$?
echo "seed=$NAME demo_with=$DW demo_without=$DO tests='$TESTS' checks:$RES"
cat > $OUT/meta.json <<EOT
{"property": "$PID", "name": "$NAME", "demo_exit_with_change": $DW, "demo_exit_without_change": $DO,
 "tests_with_change": "$TESTS", "checks_run": "$RES",
 "how": "git -C /repo apply patch.diff; PYTHONPATH=/repo /venv/bin/python demo.py; ./check <id>; git -C /repo checkout -- ."}
EOT
