"""Coq literals for operation histories (alphabet of coq/Nix/Api.v) and the correspondence run."""
import os
import sys

sys.path.insert(0, os.path.dirname(os.path.abspath(__file__)))
import core  # noqa: E402
from coqlit import cstr, cZ, cN, clist, cbool  # noqa: E402

HEADER = "From NixV Require Import Base.Prelude H5.Store Nix.Api Nix.Observe Nix.Check.\n"


def tok(s):
    return "(TS %s)" % cstr(s)


def opt_tok(s):
    return "(@None tok)" if s is None else "(Some %s)" % tok(s)


def key(k):
    if k[0] == "name":
        return "(KeyName %s)" % tok(k[1])
    if k[0] == "pos":
        return "(KeyPos %s)" % cZ(k[1])
    if k[0] == "obj":
        return "(KeyObj %s)" % cN(k[1])
    if k[0] == "idof":
        return "(KeyIdOf %s)" % cN(k[1])
    raise ValueError(k)


def op_lit(op):
    t = op[0]
    if t == "create":
        return "(OCreate %s %s %s %s %s)" % (cN(op[1]), op[2], tok(op[3]), tok(op[4]), clist([cZ(x) for x in op[5]], "Z"))
    if t == "create_mtag":
        return "(OCreateMTag %s %s %s %s)" % (cN(op[1]), tok(op[2]), tok(op[3]), cN(op[4]))
    if t == "create_feature":
        return "(OCreateFeature %s %s %s)" % (cN(op[1]), cN(op[2]), tok(op[3]))
    if t == "lookup":
        return "(OLookup %s %s %s)" % (cN(op[1]), op[2], key(op[3]))
    if t == "lookup_link":
        return "(OLookupLink %s %s %s)" % (cN(op[1]), op[2], key(op[3]))
    if t == "delete":
        return "(ODelete %s %s %s)" % (cN(op[1]), op[2], key(op[3]))
    if t == "append":
        return "(OAppend %s %s %s)" % (cN(op[1]), op[2], cN(op[3]))
    if t == "remove":
        return "(ORemove %s %s %s)" % (cN(op[1]), op[2], key(op[3]))
    if t == "set_link":
        return "(OSetLink %s %s %s)" % (cN(op[1]), op[2], "(@None N)" if op[3] is None else "(Some %s)" % cN(op[3]))
    if t == "set_attr":
        return "(OSetAttr %s %s %s)" % (cN(op[1]), op[2], opt_tok(op[3]))
    if t == "find":
        lim = "(@None Z)" if op[2] is None else "(Some %s)" % cZ(op[2])
        f = op[3]
        flt = "FAll" if f[0] == "all" else ("(FName %s)" % tok(f[1]) if f[0] == "name" else "(FType %s)" % tok(f[1]))
        return "(OFind %s %s %s)" % (cN(op[1]), lim, flt)
    if t == "parent":
        return "(OParent %s %s)" % (cN(op[1]), op[2])
    if t == "referring":
        return "(OReferring %s %s)" % (cN(op[1]), op[2])
    if t == "force":
        return "(OForce %s %s %s)" % (cN(op[1]), cbool(op[2]), cZ(op[3]))
    if t == "probe":
        return "(OProbe %s %s)" % (cN(op[1]), op[2])
    if t == "probe_link":
        return "(OProbeLink %s %s)" % (cN(op[1]), op[2])
    if t == "copy":
        return "(OCopy %s %s %s %s %s)" % (cN(op[1]), cN(op[2]), opt_tok(op[3]), cbool(op[4]), cbool(op[5]))
    if t == "set_auto":
        return "(OSetAuto %s)" % cbool(op[1])
    if t == "reopen":
        return "(OReopen %s)" % cbool(op[1])
    raise ValueError(op)


def history_lit(h):
    ops = clist([op_lit(tuple(o)) for o in h["ops"]], "op")
    tr = clist(["(%s, %s)" % (cZ(a), cZ(b)) for a, b in h["trace"]], "(Z * Z)")
    return "(%s, %s)" % (ops, tr)


def check_histories(ctx, hists, with_times, tag="hist", shard_size=40):
    """returns ([(history index, step, 'result'|'walk')], errors)"""
    terms = [history_lit(h) for h in hists]
    verd, errs = core.eval_verdicts(ctx.workdir, HEADER, "history_case",
                                    "check_history %s" % cbool(with_times), terms, tag=tag, shard_size=shard_size)
    out = []
    for i, code in verd:
        step = (code - 1) // 2
        out.append((i, step, "result" if code % 2 == 1 else "walk"))
    return out, errs
