(* Proofs/ArrayProofs2.v -- the hypotheses of the region theorem, DERIVED: a selection whose items are
   within the extents (an integer 0 <= i < n, a range 0 <= a, b <= n with a positive step)
   addresses pairwise distinct cells, all of them inside the array. *)
From Coq Require Import ZArith List Bool QArith Lia.
From NixV Require Import Base.Prelude Pure.Slices Pure.Array Proofs.ArrayProofs.
Import ListNotations.
Open Scope Z_scope.

Definition sel_ok (s : axsel) (n : Z) : Prop :=
  match s with
  | AInt i => 0 <= i < n
  | ARange a b k => 0 <= a /\ b <= n /\ 0 < k
  end.

Lemma range_list_in fuel : forall a b k x, 0 < k -> In x (range_list fuel a b k) -> a <= x < b.
Proof.
  induction fuel as [|f IH]; intros a b k x Hk H; cbn in H; [contradiction|].
  destruct (Z.ltb_spec a b); [|contradiction]. destruct H as [<-|H]; [lia|].
  apply IH in H; [lia|exact Hk].
Qed.
Lemma range_list_nodup fuel : forall a b k, 0 < k -> NoDup (range_list fuel a b k).
Proof.
  induction fuel as [|f IH]; intros a b k Hk; cbn; [constructor|].
  destruct (Z.ltb_spec a b); [|constructor]. constructor; [|apply IH, Hk].
  intros Hin. apply (range_list_in f (a + k) b k a Hk) in Hin. lia.
Qed.
Lemma sel_indices_ok s n x : sel_ok s n -> In x (sel_indices s) -> 0 <= x < n.
Proof.
  destruct s as [i|a b k]; cbn.
  - intros H [<-|[]]. exact H.
  - intros (Ha & Hb & Hk) Hin. apply range_list_in in Hin; [lia|exact Hk].
Qed.
Lemma sel_indices_nodup s n : sel_ok s n -> NoDup (sel_indices s).
Proof.
  destruct s as [i|a b k]; cbn.
  - intros _. constructor; [intros []|constructor].
  - intros (_ & _ & Hk). apply range_list_nodup, Hk.
Qed.

(* every multi-index of the product is within the shape *)
Lemma product_in_bounds sels shape : Forall2 sel_ok sels shape ->
  forall idx, In idx (product (map sel_indices sels)) -> in_bounds shape idx = true.
Proof.
  induction 1 as [|s n sels shape Hs _ IH]; intros idx Hin; cbn in Hin.
  - destruct Hin as [<-|[]]. reflexivity.
  - apply in_flat_map in Hin. destruct Hin as (x & Hx & Hin). apply in_map_iff in Hin. destruct Hin as (r & <- & Hr).
    apply in_bounds_cons. split; [eapply sel_indices_ok; eauto|apply IH, Hr].
Qed.
Lemma NoDup_app_intro {A} (l1 l2 : list A) : NoDup l1 -> NoDup l2 -> (forall x, In x l1 -> ~ In x l2) -> NoDup (l1 ++ l2).
Proof.
  induction 1 as [|x l1 Hx H1 IH]; intros H2 Hd; cbn; [exact H2|].
  constructor.
  - rewrite in_app_iff. intros [H|H]; [contradiction|]. apply (Hd x); [now left|exact H].
  - apply IH; [exact H2|]. intros y Hy. apply Hd. now right.
Qed.
Lemma NoDup_map_cons (x : Z) (P : list (list Z)) : NoDup P -> NoDup (map (cons x) P).
Proof. induction 1 as [|p P Hp _ IH]; cbn; constructor; [|exact IH].
  intros Hin. apply in_map_iff in Hin. destruct Hin as (q & E & Hq). injection E as <-. contradiction. Qed.
Lemma NoDup_product_step (l : list Z) (P : list (list Z)) : NoDup l -> NoDup P ->
  NoDup (flat_map (fun x => map (cons x) P) l).
Proof.
  intros Hl HP. induction Hl as [|x l Hx Hl IH]; cbn; [constructor|].
  apply NoDup_app_intro; [apply NoDup_map_cons, HP | exact IH|].
  intros idx H1 H2. apply in_map_iff in H1. destruct H1 as (q & <- & _).
  apply in_flat_map in H2. destruct H2 as (y & Hy & H2). apply in_map_iff in H2. destruct H2 as (q' & E & _).
  injection E as -> _. contradiction.
Qed.
Lemma product_nodup sels shape : Forall2 sel_ok sels shape -> NoDup (product (map sel_indices sels)).
Proof.
  induction 1 as [|s n sels shape Hs _ IH]; cbn.
  - constructor; [intros []|constructor].
  - apply NoDup_product_step; [eapply sel_indices_nodup; eauto | exact IH].
Qed.

Lemma NoDup_map_inj_in {A B} (f : A -> B) (l : list A) :
  (forall x y, In x l -> In y l -> f x = f y -> x = y) -> NoDup l -> NoDup (map f l).
Proof.
  intros Hinj. induction 1 as [|x l Hx Hl IH]; cbn; constructor.
  - intros Hin. apply in_map_iff in Hin. destruct Hin as (y & E & Hy).
    assert (y = x) by (apply Hinj; [now right | now left | exact E]). subst. contradiction.
  - apply IH. intros a b Ha Hb. apply Hinj; now right.
Qed.

(* the row-major offset is injective on the multi-indices of a shape *)
Lemma flat_index_injective shape : nonneg shape -> forall i j,
  in_bounds shape i = true -> in_bounds shape j = true -> flat_index shape i = flat_index shape j -> i = j.
Proof.
  intros Hn i j Hi Hj E. pose proof (row_major shape Hn i Hi) as A. pose proof (row_major shape Hn j Hj) as B.
  rewrite E in A. rewrite A in B. now injection B.
Qed.

Theorem inbounds_selection_offsets shape sels : nonneg shape -> Forall2 sel_ok sels shape ->
  NoDup (map Z.to_nat (offsets_of shape sels)) /\
  (forall o, In o (offsets_of shape sels) -> 0 <= o < sizeZ shape).
Proof.
  intros Hn Hs. unfold offsets_of, gather. cbn [snd].
  assert (B : forall idx, In idx (product (map sel_indices sels)) -> in_bounds shape idx = true)
    by (apply product_in_bounds; exact Hs).
  split.
  - rewrite map_map. apply NoDup_map_inj_in; [|eapply product_nodup; eauto].
    intros i j Hi Hj E. apply (flat_index_injective shape Hn); [apply B, Hi | apply B, Hj |].
    pose proof (flat_index_range shape Hn i (B i Hi)). pose proof (flat_index_range shape Hn j (B j Hj)).
    apply Z2Nat.inj; lia.
  - intros o Hin. apply in_map_iff in Hin. destruct Hin as (idx & <- & Hidx). apply flat_index_range; [exact Hn | apply B, Hidx].
Qed.

(* the region theorem with its hypotheses discharged: a well-formed array, a selection within the
   extents, as many values as selected cells *)
Definition arr_wf (a : arr) : Prop := nonneg (a_shape a) /\ Z.of_nat (length (a_cells a)) = sizeZ (a_shape a).
Theorem read_after_write_region_inbounds a sels vals :
  arr_wf a -> Forall2 sel_ok sels (a_shape a) -> length vals = length (offsets_of (a_shape a) sels) ->
  read_region (write_region a sels vals) sels = vals /\
  a_shape (write_region a sels vals) = a_shape a /\
  length (a_cells (write_region a sels vals)) = length (a_cells a) /\
  (forall k, (forall o, In o (offsets_of (a_shape a) sels) -> Z.to_nat o <> k) ->
     nth k (a_cells (write_region a sels vals)) 0 = nth k (a_cells a) 0).
Proof.
  intros [Hn Hl] Hs Hv. destruct (inbounds_selection_offsets (a_shape a) sels Hn Hs) as [ND IR].
  destruct (read_after_write_region a sels vals ND) as (A & B & C); [|exact Hv|].
  - intros o Ho. specialize (IR o Ho). lia.
  - repeat split; auto. intros k Hk. apply region_frame. exact Hk.
Qed.
