"""C17 child / reader.
child:  JSON {"mode":"child", seed, len, profile, path, side, final} on stdin: runs a generated history
        on `path`, grows and rewrites arrays (compressed and not), records the state (walk + array
        contents) in `side` (fsynced), calls flush() or close(), and kills itself with SIGKILL.
reader: JSON {"mode":"read", path, rw} -> the state found in the file."""
import hashlib
import json
import os
import random
import signal
import sys

import numpy as np
import nixio

import nixrun
import nixwalk


def arrays_state(f):
    out = {}
    for b in f.blocks:
        for a in b.data_arrays:
            d = np.asarray(a[:])
            out[b.name + "/" + a.name] = [list(d.shape), str(d.dtype), hashlib.sha256(np.ascontiguousarray(d).tobytes()).hexdigest()]
    return out


def state(f):
    return {"walk": nixwalk.walk(f, False, set()), "arrays": arrays_state(f)}


def child(req):
    rnd = random.Random(req["seed"])
    # the file-level compression setting is part of "every operation history"
    comp = rnd.choice([None, nixio.Compression.No, nixio.Compression.DeflateNormal])
    r = nixrun.Runner(req["path"], False, compression=comp)
    g = nixrun.Gen(rnd, r, req.get("profile", {}))
    ops = []
    for k in range(req["len"]):
        op = g.next_op()
        ops.append(op)
        res = r.run_op(op)
        if op[0] == "reopen":
            g.dead = set()
        g.note(op, res)
        g.refresh_dead()
        if rnd.random() < 0.1 and not r.readonly:
            r.f.flush()                      # earlier flushes in the history
    f = r.f
    if r.readonly:
        f.close()
        f = nixio.File.open(req["path"], nixio.FileMode.ReadWrite)
    variant = req.get("variant")
    if variant in ("empty", "emptied"):
        # flush points at which the file holds no entity at all: right after creation, and after everything was deleted
        if variant == "emptied":
            for blk in list(f.blocks):
                del f.blocks[blk.name]
            for sec in list(f.sections):
                del f.sections[sec.name]
        st = state(f)
        st["ops"] = ops
        st["trace"] = r.trace
        with open(req["side"], "w") as fh:
            json.dump(st, fh)
            fh.flush()
            os.fsync(fh.fileno())
        f.flush()
        os.kill(os.getpid(), signal.SIGKILL)
    # arrays grown by appends, compressed and uncompressed, rewritten in part
    b = f.create_block("durable block", "t")
    for i, comp in enumerate([nixio.Compression.No, nixio.Compression.DeflateNormal]):
        a = b.create_data_array("grow%d" % i, "t", data=np.arange(rnd.randint(1, 4000), dtype=np.float64), compression=comp)
        for _ in range(rnd.randint(0, 4)):
            a.append(np.full(rnd.randint(1, 3000), float(rnd.randint(0, 99))))
        if len(a) > 10:
            a[3:8] = np.array([-1.0, -2.0, -3.0, -4.0, -5.0])
        m = b.create_data_array("mat%d" % i, "t", data=np.zeros((rnd.randint(1, 30), 7), dtype=np.int32), compression=comp)
        for _ in range(rnd.randint(0, 3)):
            m.append(np.ones((rnd.randint(1, 40), 7), dtype=np.int32) * rnd.randint(1, 9), axis=0)
    if req["final"] == "flush" and rnd.random() < 0.6:
        # a flush, then only small writes that need no new space in the file, then the flush under test
        for a in b.data_arrays:
            a.unit = "mV"
        b.definition = "d0"
        f.flush()
        grow = rnd.random() < 0.3
        for a in b.data_arrays:
            if a.name.startswith("grow") and len(a) > 10:
                a[1:4] = np.array([7.5, 8.5, 9.5])
                if grow:
                    a.append(np.array([1.0, 2.0, 3.0, 4.0, 5.0]))
            a.unit = "uV"
        b.definition = "d1"
    st = state(f)
    st["ops"] = ops
    st["trace"] = r.trace
    with open(req["side"], "w") as fh:
        json.dump(st, fh)
        fh.flush()
        os.fsync(fh.fileno())
    if req["final"] == "flush":
        f.flush()
        if rnd.random() < 0.5:
            state(f)                         # "then only reads" (c17_flush_then_kill)
    else:
        f.close()
        if rnd.random() < 0.5:
            # "then ANY calls" (c17_close_then_anything): on a closed file every call is refused and none reaches the bytes
            for call in (lambda: b.create_data_array("late", "t", data=[1.0]), lambda: setattr(b, "definition", "late"),
                         lambda: f.create_block("late", "t"), lambda: f.create_section("late", "t"), lambda: f.flush(),
                         lambda: f.close()):
                try:
                    call()
                except BaseException:
                    pass
    os.kill(os.getpid(), signal.SIGKILL)


def main():
    req = json.load(sys.stdin)
    if req["mode"] == "child":
        child(req)
        return
    out = {}
    try:
        f = nixio.File.open(req["path"], nixio.FileMode.ReadWrite if req["rw"] else nixio.FileMode.ReadOnly)
        out = state(f)
        f.close()
    except Exception as exc:
        out = {"error": type(exc).__name__ + ": " + str(exc)[:200]}
    json.dump(out, sys.stdout)


main()
