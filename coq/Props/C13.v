(* Props/C13.v -- tree searches, parents and 'referring' lists reflect the stored structure.
   ONLY property theorems.  find: Pure/Bfs.v is the queue-and-level-counter algorithm of
   nixio/util/find.py on rose trees; in the API model (Nix/Api.v) find_sections / find_sources run
   it on the tree materialised from the store.  [levels d ts] is the specification: the roots
   of the forest ts, then their children, ... for d further levels (breadth-first order). *)
From Coq Require Import List Arith.
From NixV Require Import Pure.Bfs Proofs.BfsProofs Proofs.BfsProofs2.
Import ListNotations.

(* Section.find_sections / Source.find_sources: the entity itself (depth 0) and everything down
   to the requested depth, filtered, each once, in breadth-first order *)
Theorem c13_find_from_entity : forall (A : Type) (t : tree A) limit filt,
  find true t limit filt = filter filt (levels limit [t]).
Proof. exact find_entity_root. Qed.
Print Assumptions c13_find_from_entity.

(* File.find_sections / Block.find_sources: depth 1 .. limit; limit 0 finds nothing *)
Theorem c13_find_from_container : forall (A : Type) (t : tree A) limit filt,
  find false t limit filt = filter filt (match limit with O => [] | S d => levels d (kids t) end).
Proof. exact find_container_root. Qed.
Print Assumptions c13_find_from_container.

(* a limit beyond the depth of the tree (what "no limit" amounts to) gives the whole subtree *)
Theorem c13_no_limit : forall (A : Type) d (ts : list (tree A)), fdepth A ts <= S d ->
  forall d', d <= d' -> levels d' ts = levels d ts.
Proof. exact levels_saturate. Qed.
Print Assumptions c13_no_limit.

(* the queue algorithm itself, for every queue of one level, fuel and limit *)
Theorem c13_queue_is_level_order : forall (A : Type) d limit l (ts : list (tree A)) fuel,
  l + d = limit -> fsize ts <= fuel -> bfs fuel limit (tag l ts) = levels d ts.
Proof. exact bfs_levels. Qed.
Print Assumptions c13_queue_is_level_order.

(* raising the limit only appends: what a smaller limit found stays, in place, at the front *)
Theorem c13_larger_limit_extends : forall (A : Type) (t : tree A) limit limit' filt, limit <= limit' ->
  exists more, find true t limit' filt = find true t limit filt ++ more.
Proof. exact find_entity_prefix. Qed.
Print Assumptions c13_larger_limit_extends.

(* limit 0 from an entity: the entity alone (if it passes the filter) *)
Theorem c13_limit_zero_entity : forall (A : Type) (t : tree A) filt, find true t 0 filt = filter filt [root t].
Proof. exact find_entity_limit0. Qed.
Print Assumptions c13_limit_zero_entity.

(* nothing is found twice or invented: never more results than the subtree has nodes *)
Theorem c13_result_bounded : forall (A : Type) (t : tree A) limit filt, length (find true t limit filt) <= size t.
Proof. exact find_length. Qed.
Print Assumptions c13_result_bounded.
