"""Implementation runner for operation histories over the entity graph (C02-C05, C11-C13, C19).

Executes ops (the alphabet of coq/Nix/Api.v) on the real nixio, through a table of handles
(Python entity objects, several per entity: the multi-handle discipline), records after every
op the digest of the result and of the canonical walk, and can generate histories online
(the next op is chosen knowing what currently exists).  Run as a subprocess:
JSON {"seed", "n", "profile", "len", "times"} -> JSON list of histories."""
import gc
import json
import os
import random
import sys

import numpy as np
import nixio
from nixio.exceptions import DuplicateName

import nixwalk

COUNTS = {}          # signature -> how often generated in this process (all histories of a run)
CLOCK = [1000]


def clock_of(n):
    """coq/Nix/Observe.v clock_of: not monotone on purpose"""
    return 900 + (n * 37) % 211


nixio.util.now_int = lambda: CLOCK[0]
nixio.util.util.now_int = lambda: CLOCK[0]

ERR = {"dup": 1, "badname": 2, "type": 3, "index": 4, "key": 5, "runtime": 6, "readonly": 7, "other": 8}

CKINDS = ["CBlocks", "CSections", "CGroups", "CDataArrays", "CTags", "CMultiTags", "CSources",
          "CProperties", "CFeatures", "CDataFrames"]
CONT_ATTR = {"CBlocks": "blocks", "CSections": "sections", "CGroups": "groups", "CDataArrays": "data_arrays",
             "CTags": "tags", "CMultiTags": "multi_tags", "CSources": "sources", "CProperties": "props",
             "CFeatures": "features", "CDataFrames": "data_frames"}
CONT_ITEM = {"CBlocks": "Block", "CSections": "Section", "CGroups": "Group", "CDataArrays": "DataArray",
             "CTags": "Tag", "CMultiTags": "MultiTag", "CSources": "Source", "CProperties": "Property",
             "CFeatures": "Feature", "CDataFrames": "DataFrame"}
HAS_CONT = {"File": ["CBlocks", "CSections"], "Block": ["CGroups", "CDataArrays", "CTags", "CMultiTags", "CSources", "CDataFrames"],
            "Source": ["CSources"], "Section": ["CSections", "CProperties"], "Tag": ["CFeatures"],
            "MultiTag": ["CFeatures"]}
LIST_ATTR = {"LDataArrays": "data_arrays", "LTags": "tags", "LMultiTags": "multi_tags",
             "LReferences": "references", "LSources": "sources", "LDataFrames": "data_frames"}
LIST_ITEM = {"LDataArrays": "DataArray", "LTags": "Tag", "LMultiTags": "MultiTag", "LReferences": "DataArray",
             "LSources": "Source", "LDataFrames": "DataFrame"}
HAS_LIST = {"Group": ["LDataArrays", "LTags", "LMultiTags", "LSources", "LDataFrames"], "Tag": ["LReferences", "LSources"],
            "MultiTag": ["LReferences", "LSources"], "DataArray": ["LSources"]}
ATTRS = {"AType": "type", "ADefinition": "definition", "ALabel": "label", "AUnit": "unit",
         "ARepository": "repository", "AReference": "reference"}


def classify(exc, readonly):
    if readonly:
        return ERR["readonly"]
    if isinstance(exc, DuplicateName):
        return ERR["dup"]
    if isinstance(exc, ValueError):
        return ERR["badname"]
    if isinstance(exc, TypeError):
        return ERR["type"]
    if isinstance(exc, IndexError):
        return ERR["index"]
    if isinstance(exc, KeyError):
        return ERR["key"]
    if isinstance(exc, RuntimeError):
        return ERR["runtime"]
    return ERR["other"]


class Runner(object):
    def __init__(self, path, with_times=False, compression=None):
        self.path = path
        self.with_times = with_times
        CLOCK[0] = 1000                 # Api.file_birth: the second at which the file is created
        if compression is None:
            self.f = nixio.File.open(path, nixio.FileMode.Overwrite)
        else:
            self.f = nixio.File.open(path, nixio.FileMode.Overwrite, compression=compression)
        self.readonly = False
        self.handles = [("File", self.f, None)]     # (kind, object, cached id)
        self.digest = nixwalk.Digest()
        self.trace = []
        self.walks = []
        self.step = 0
        self.ro_sha = None
        self.ro_violations = []
        self.infos = []
        self.target_ids = []
        self.pairs = []
        self.copy_event = None
        self.last_all_ids = set()
        self.track_pairs = False
        self.accessor_sweep = False
        self.ro_sweep = []
        self.reopen_sweep = False
        self.reopen_diffs = []
        self.path_sweep = False
        self.path_diffs = []

    def sha(self):
        import hashlib
        with open(self.path, "rb") as fh:
            return hashlib.sha256(fh.read()).hexdigest()

    def close(self):
        try:
            self.f.close()
        except Exception:
            pass
        self.check_ro_bytes()

    def do_path_sweep(self):
        """C05: an object reached through a link answers every read accessor like the object reached through its container"""
        if self.path_sweep:
            import accessors
            n, diffs = accessors.path_sweep(self.f)
            self.path_diffs.append({"step": self.step, "compared": n, "diffs": diffs[:5], "ndiffs": len(diffs)})

    def check_ro_bytes(self):
        """after a read-only session the bytes on disk must be what they were when it began"""
        if self.ro_sha is not None:
            if self.sha() != self.ro_sha:
                self.ro_violations.append(self.step)
            self.ro_sha = None

    def obj(self, h):
        return self.handles[h][1]

    def kind(self, h):
        return self.handles[h][0]

    def new_handle(self, kind, o):
        self.handles.append((kind, o, o.id))
        return len(self.handles) - 1

    def key(self, k):
        if k[0] == "name":
            return k[1]
        if k[0] == "pos":
            return k[1]
        if k[0] == "obj":
            return self.obj(k[1])
        if k[0] == "idof":
            return self.handles[k[1]][2]
        raise ValueError(k)

    def do(self, op):
        """returns None or the new handle number; raises what the API raises"""
        t = op[0]
        if t == "create":
            _, ph, c, name, typ, pl = op
            p = self.obj(ph)
            if c == "CBlocks":
                o = p.create_block(name, typ)
            elif c == "CSections":
                o = p.create_section(name, typ)
            elif c == "CGroups":
                o = p.create_group(name, typ)
            elif c == "CDataArrays":
                o = p.create_data_array(name, typ, data=np.array(pl, dtype=float))
            elif c == "CTags":
                o = p.create_tag(name, typ, [float(x) for x in pl])
            elif c == "CDataFrames":
                o = p.create_data_frame(name, typ, col_dict={"c": np.int64}, data=[(int(x),) for x in pl])
            elif c == "CSources":
                o = p.create_source(name, typ)
            elif c == "CProperties":
                o = p.create_property(name, [int(x) for x in pl])
            else:
                raise RuntimeError("bad create")
            return self.new_handle(CONT_ITEM[c], o)
        if t == "create_mtag":
            _, ph, name, typ, posh = op
            o = self.obj(ph).create_multi_tag(name, typ, self.obj(posh))
            return self.new_handle("MultiTag", o)
        if t == "create_feature":
            _, th, dh, lt = op
            o = self.obj(th).create_feature(self.obj(dh), lt)
            return self.new_handle("Feature", o)
        if t == "copy":
            _, dh, xh, name, keep, children = op
            d, x, dk, xk = self.obj(dh), self.obj(xh), self.kind(dh), self.kind(xh)
            kw = {} if name is None else {"name": name}
            pre_ids = set(self.digest.known_ids) | set(self.last_all_ids)
            src_before = (self.subwalk(xk, x), self.subwalk(xk, x, xk == "Section" and not children))
            self.src_dups = self.sub_dups
            self.src_defined = self.sub_defined
            if dk == "File" and xk == "Block":
                o = d.create_block(copy_from=x, keep_copy_id=keep, **kw)
            elif dk == "Block" and xk == "DataArray":
                o = d.create_data_array(copy_from=x, keep_copy_id=keep, **kw)
            elif dk == "Block" and xk == "Tag":
                o = d.create_tag(copy_from=x, keep_copy_id=keep, **kw)
            elif dk == "Block" and xk == "MultiTag":
                o = d.create_multi_tag(copy_from=x, keep_copy_id=keep, **kw)
            elif dk == "Block" and xk == "DataFrame":
                o = d.create_data_frame(copy_from=x, keep_copy_id=keep, **kw)
            elif dk in ("File", "Section") and xk == "Section":
                o = d.copy_section(x, children=children, keep_id=keep, **kw)
            elif dk == "Section" and xk == "Property":
                o = d.create_property(copy_from=x, keep_copy_id=keep, **kw)
            else:
                raise TypeError("not a copy call")
            self.copy_event = self.after_copy(op, d, x, o, xk, pre_ids, src_before)
            if keep:
                self.any_kept = True
            return self.new_handle(xk, o)
        if t == "lookup":
            _, ph, c, k = op
            o = getattr(self.obj(ph), CONT_ATTR[c])[self.key(k)]
            return self.new_handle(CONT_ITEM[c], o)
        if t == "lookup_link":
            _, ph, l, k = op
            o = getattr(self.obj(ph), LIST_ATTR[l])[self.key(k)]
            return self.new_handle(LIST_ITEM[l], o)
        if t == "delete":
            _, ph, c, k = op
            del getattr(self.obj(ph), CONT_ATTR[c])[self.key(k)]
            return None
        if t == "append":
            _, ph, l, xh = op
            lst = getattr(self.obj(ph), LIST_ATTR[l])
            try:
                self.append_info = [self.obj(xh).id, any(y.id == self.obj(xh).id for y in lst)]
            except Exception:
                self.append_info = None
            lst.append(self.obj(xh))
            try:
                items = list(lst)
                self.alias_info = self.same_h5(items[-1], self.obj(xh)) if items else "the list is empty after the append"
            except Exception as exc:
                self.alias_info = "reading the list back raised " + type(exc).__name__
            return None
        if t == "remove":
            _, ph, l, k = op
            del getattr(self.obj(ph), LIST_ATTR[l])[self.key(k)]
            return None
        if t == "set_link":
            _, ph, r, xh = op
            p = self.obj(ph)
            x = None if xh is None else self.obj(xh)
            if r == "RMetadata":
                if x is None:
                    del p.metadata
                else:
                    p.metadata = x
            elif r == "RPositions":
                p.positions = x
            elif r == "RExtents":
                p.extents = x
            elif r == "RFeatureData":
                p.data = x
            elif r == "RSectionLink":
                p.link = x
            if x is not None:
                try:
                    got = {"RMetadata": lambda: p.metadata, "RPositions": lambda: p.positions, "RExtents": lambda: p.extents,
                           "RFeatureData": lambda: p.data, "RSectionLink": lambda: p.link}[r]()
                    self.alias_info = self.same_h5(got, x)
                except Exception as exc:
                    self.alias_info = "reading the link back raised " + type(exc).__name__
            return None
        if t == "set_attr":
            _, ph, a, v = op
            setattr(self.obj(ph), ATTRS[a], v)
            return None
        if t == "set_auto":
            self.f.auto_update_timestamps = op[1]
            return None
        if t == "force":
            o = self.obj(op[1])
            if op[2]:
                o.force_created_at(op[3])
            else:
                o.force_updated_at(op[3])
            return None
        if t == "find":
            _, ph, limit, flt = op
            o = self.obj(ph)
            fn = self.filter_fn(flt)
            kw = {} if limit is None else {"limit": limit}
            if self.kind(ph) in ("File", "Section"):
                r = o.find_sections(fn, **kw)
            else:
                r = o.find_sources(fn, **kw)
            self.oracle = self.oracle_find(o, self.kind(ph), limit, fn)
            return ("toks", [x.id for x in r])
        if t == "parent":
            _, ph, w = op
            o = self.obj(ph)
            if w == "PBlock":
                x = o.parent_block
                self.oracle = None
            elif self.kind(ph) == "Section":
                x = o.parent
                self.oracle = self.oracle_parent("sections", o.id)
            else:
                x = o.parent_source
                self.oracle = self.oracle_parent("sources", o.id)
            return ("toks", [None if x is None else x.id])
        if t == "referring":
            _, ph, c = op
            o = self.obj(ph)
            attr = {"CBlocks": "referring_blocks", "CGroups": "referring_groups", "CDataArrays": "referring_data_arrays",
                    "CTags": "referring_tags", "CMultiTags": "referring_multi_tags", "CSources": "referring_sources"}[c]
            r = getattr(o, attr)
            self.oracle = self.oracle_referring(o, self.kind(ph), c)
            return ("toks", [x.id for x in r])
        if t in ("probe", "probe_link"):
            cont = getattr(self.obj(op[1]), CONT_ATTR[op[2]] if t == "probe" else LIST_ATTR[op[2]])
            items = list(cont)
            n = len(cont)
            toks = [n] + [x.id for x in items]

            def res(fn):
                try:
                    return [1, fn().id]
                except Exception as exc:
                    return [2, classify(exc, False)]
            for z in range(-n - 1, n + 1):
                toks += res(lambda: cont[z])
            for x in items:
                nm, i = x.name, x.id
                if nm is None or i is None:
                    toks.append(None)
                else:
                    toks += res(lambda: cont[nm]) + res(lambda: cont[i]) + [int(nm in cont), int(i in cont)]
            return ("toks", toks)
        if t == "reopen":
            auto = self.f.auto_update_timestamps
            before = None
            self.do_path_sweep()
            if self.reopen_sweep:
                import accessors
                before = accessors.sweep(self.f)
            self.f.close()
            gc.collect()
            self.check_ro_bytes()
            self.readonly = bool(op[1])
            rw_sweep = None
            if self.readonly and self.accessor_sweep:
                # every read accessor of every entity, in a WRITABLE session on a byte-identical copy ...
                import shutil
                import accessors
                cp = self.path + ".rwcopy.nix"
                shutil.copyfile(self.path, cp)
                deco = None
                try:
                    g = nixio.File.open(cp, nixio.FileMode.ReadWrite, auto_update_timestamps=auto)
                    rw_sweep = accessors.sweep(g)
                    # ... then, still on the copy: every unset optional attribute gets a value, and a read-only session on
                    # the decorated copy must refuse to clear or rewrite any of them, leaving its bytes alone
                    ndeco = accessors.decorate(g)
                    g.close()
                    import hashlib
                    with open(cp, "rb") as fh:
                        sha0 = hashlib.sha256(fh.read()).hexdigest()
                    g = nixio.File.open(cp, nixio.FileMode.ReadOnly)
                    nmut, silent = accessors.ro_mutators(g)
                    g.close()
                    with open(cp, "rb") as fh:
                        same = hashlib.sha256(fh.read()).hexdigest() == sha0
                    deco = {"decorated": ndeco, "mutators": nmut, "silent": silent[:5], "nsilent": len(silent), "bytes_unchanged": same}
                finally:
                    os.remove(cp)
            if self.readonly:
                self.ro_sha = self.sha()
            self.f = nixio.File.open(self.path, nixio.FileMode.ReadOnly if op[1] else nixio.FileMode.ReadWrite,
                                     auto_update_timestamps=auto)
            self.handles = [("File", self.f, None)]
            if before is not None:
                import accessors
                after = accessors.sweep(self.f)
                diffs = [[k, before.get(k, "absent"), after.get(k, "absent")]
                         for k in sorted(set(before) | set(after)) if before.get(k, "absent") != after.get(k, "absent")]
                self.reopen_diffs.append({"step": self.step, "accessors": len(after), "diffs": diffs[:5], "ndiffs": len(diffs)})
            if rw_sweep is not None:
                # ... and in the read-only session: the answers must be the same
                import accessors
                ro_sweep = accessors.sweep(self.f)
                diffs = [[k, rw_sweep.get(k, "absent"), ro_sweep.get(k, "absent")]
                         for k in sorted(set(rw_sweep) | set(ro_sweep)) if rw_sweep.get(k, "absent") != ro_sweep.get(k, "absent")]
                nmut, silent = accessors.ro_mutators(self.f)
                self.ro_sweep.append({"step": self.step, "accessors": len(ro_sweep), "diffs": diffs[:5], "ndiffs": len(diffs),
                                      "mutators": nmut, "silent": silent[:5], "nsilent": len(silent), "decorated_copy": deco})
            return 0
        raise RuntimeError("unknown op %r" % (op,))

    # ---- C20: model-free observations around a copy
    SUB = {"Block": "block", "DataArray": "data_array", "Tag": "tag", "MultiTag": "multi_tag", "Section": "section",
           "Property": "prop", "DataFrame": "data_frame"}

    def subwalk(self, kind, o, shallow=False):
        w = nixwalk.Walker(False, set())
        w.no_subsections = shallow
        try:
            toks = getattr(w, self.SUB[kind])(o)
        except Exception as exc:
            toks = ["walk failed: " + type(exc).__name__]
        # two entities may share an id once a kept-id copy has been made inside this file
        self.sub_dups = bool(w.dup_ids) or getattr(self, "any_kept", False)
        self.sub_defined = set(w.defined)          # the entities the subtree OWNS (without the targets of its links)
        self.sub_dup_ids = list(w.dup_ids)         # ids that two entities OF THIS SUBTREE carry
        return toks, set(w.defined) | set(t for _, _, t in w.linked if isinstance(t, str))

    @staticmethod
    def name_positions(toks):
        """positions of NAME tokens in a walk: the token after [open, kind] of every entity but a feature (whose header has
        no name). A name may look like an id - an entity created without a name is named by its id - and is kept by a copy."""
        out = set()
        for k in range(2, len(toks)):
            if toks[k - 2] == nixwalk.OPEN and isinstance(toks[k - 1], int) and 100 <= toks[k - 1] <= 110 \
                    and toks[k - 1] != nixwalk.KIND["Feature"]:
                out.add(k)
        return out

    def after_copy(self, op, d, x, o, xk, pre_ids, src_before):
        _, dh, xh, name, keep, children = op
        shallow = (xk == "Section" and not children)
        src, src_ids = src_before[1]
        cp, cp_ids = self.subwalk(xk, o)
        cp_own = self.sub_defined
        cp_dup = self.sub_dup_ids
        ev = {"step": self.step - 1, "keep": bool(keep), "shallow": shallow, "problems": []}
        want_name = name if name is not None else x.name
        if o.name != want_name:
            ev["problems"].append("the returned entity is named %r, not %r" % (o.name, want_name))
        try:
            same_obj = (o._h5group.group.name if xk != "Property" else o._h5dataset.dataset.name) == \
                (x._h5group.group.name if xk != "Property" else x._h5dataset.dataset.name)
        except Exception:
            same_obj = False
        if same_obj:
            ev["problems"].append("the returned entity is the source itself")
        if not keep and cp_dup:
            # whatever the source looked like (its ids may be ambiguous after kept-id copies): FRESH ids are unique
            ev["problems"].append("two entities of the copy share a fresh id")
        # same content modulo the top name and (fresh ids) an injective renaming onto new ids
        if len(src) != len(cp):
            ev["problems"].append("the copy's walk has %d tokens, the source's %d" % (len(cp), len(src)))
        else:
            ren = {}
            names_at = self.name_positions(src)
            for k, (a, b) in enumerate(zip(src, cp)):
                if k == 2 or k in names_at:
                    continue                  # names (the top one may be replaced, the others are kept as they are)
                if isinstance(a, str) and a in src_ids:
                    if keep:
                        if a != b:
                            ev["problems"].append("an id was not kept")
                            break
                    else:
                        if (ren.setdefault(a, b) != b and not self.src_dups) or not isinstance(b, str):
                            ev["problems"].append("ids are not renamed consistently")
                            break
                elif a != b:
                    ev["problems"].append("the copy differs from the source at token %d: %r vs %r" % (k, b, a))
                    break
            if not keep and not ev["problems"]:
                new = list(ren.values())
                if len(set(new)) != len(new) and not self.src_dups:
                    ev["problems"].append("two entities of the copy share a fresh id")
                if any(v in pre_ids for v in new):
                    ev["problems"].append("a 'fresh' id of the copy already existed in the file")
        if xk == "Block":
            try:
                ns, bs = self.internal_links(x)
            except Exception:
                ns, bs = -1, -1           # the source itself is not walkable (e.g. a multi-tag that lost its positions)
            try:
                if bs != 0:
                    raise StopIteration
                nc, bc = self.internal_links(o)
                ev["internal_links"] = [ns, bs, nc, bc]
                if bs == 0 and (nc != ns or bc != 0):
                    ev["problems"].append("%d of the copy's %d internal links (source: %d) designate entities outside the copy"
                                          % (bc, nc, ns))
            except StopIteration:
                pass
            except Exception as exc:
                ev["problems"].append("walking the copy's internal links failed: %s" % type(exc).__name__)
            if not getattr(self, "any_kept", False) and not keep and not self.linklists_coherent(x):
                for p in self.linklists_coherent(o)[:2]:
                    ev["problems"].append("in the copy, " + p)
        ev["inside_source"] = (self.subwalk(xk, x)[0] != src_before[0][0])
        if not ev["inside_source"] and len(self.pairs) < 4:
            self.pairs.append({"step": ev["step"], "keep": bool(keep), "kind": xk, "src": x, "cp": o, "shallow": shallow,
                               "src_id": x.id, "cp_id": o.id, "src_ids": sorted(src_ids), "cp_ids": sorted(cp_ids),
                               "src_own": sorted(getattr(self, "src_defined", src_ids)), "cp_own": sorted(cp_own)})
        return ev

    def cross_file_phase(self, path2):
        """C20 across files (no model: the theorems hold for any destination store; this phase ties
        them to the code): every block and top-level section is copied into a second file with kept
        and with fresh ids; content, internal links and independence are checked on the real files"""
        problems = []
        n = 0
        if self.readonly:
            return {"copies": 0, "problems": []}
        f2 = nixio.File.open(path2, nixio.FileMode.Overwrite)
        try:
            # a fixed addition to the first block: a data frame that is member of a group (data frames are not part of
            # the generated histories), next to an array member
            blocks = list(self.f.blocks)
            if blocks:
                try:
                    b0 = blocks[0]
                    xdf = b0.create_data_frame("x-frame", "t", col_dict={"c": int}, data=[(1,), (2,)])
                    xg = b0.create_group("x-group", "t")
                    xg.data_frames.append(xdf)
                    if len(b0.data_arrays):
                        xg.data_arrays.append(b0.data_arrays[0])
                except Exception as exc:
                    problems.append("could not add a data frame to a group: %s" % type(exc).__name__)
            whole_before = nixwalk.walk(self.f, False, set())
            for kind, items in (("Block", list(self.f.blocks)), ("Section", list(self.f.sections))):
                for x in items[:3]:
                    for keep in (True, False):
                        nm = x.name if keep else "fresh " + x.name[:20]
                        if "/" in nm:
                            continue
                        src = self.subwalk(kind, x)
                        dups = self.sub_dups
                        try:
                            o = f2.create_block(name=nm, copy_from=x, keep_copy_id=keep) if kind == "Block" else \
                                f2.copy_section(x, keep_id=keep, name=nm)
                        except Exception as exc:
                            problems.append("cross-file copy of %s %r (keep=%s) raised %s: %s" % (kind, x.name, keep, type(exc).__name__, str(exc)[:60]))
                            continue
                        n += 1
                        cp = self.subwalk(kind, o)
                        if not keep and self.sub_dup_ids:
                            problems.append("cross-file copy of %s %r: two entities of the copy share a fresh id" % (kind, x.name))
                            continue
                        if len(cp[0]) != len(src[0]):
                            problems.append("cross-file copy of %s %r: %d tokens, source %d" % (kind, x.name, len(cp[0]), len(src[0])))
                            continue
                        if dups and not keep:
                            # ids inside the source are not unique (an earlier kept-id copy inside this file - the recorded
                            # finding): renewing them renames links by ONE old-id -> new-id table, which is ambiguous, and
                            # members named by such an id change their place; only the size is compared
                            continue
                        ren = {}
                        names_at = self.name_positions(src[0])
                        for k, (a, b) in enumerate(zip(src[0], cp[0])):
                            if k == 2 or k in names_at:
                                continue
                            if isinstance(a, str) and a in src[1]:
                                if keep and a != b:
                                    problems.append("cross-file copy: an id was not kept")
                                    break
                                if not keep and ((ren.setdefault(a, b) != b and not dups) or b in src[1]):
                                    problems.append("cross-file copy of %s %r: ids not renamed consistently to new ids (token %d)" % (kind, x.name, k))
                                    break
                            elif a != b:
                                problems.append("cross-file copy of %s %r differs at token %d" % (kind, x.name, k))
                                break
                        if kind == "Block" and not dups and not self.linklists_coherent(x):
                            for pr in self.linklists_coherent(o)[:2]:
                                problems.append("cross-file block copy (keep=%s): %s" % (keep, pr))
                        if kind == "Block":
                            try:
                                ns, bs = self.internal_links(x)
                                if bs == 0:
                                    nc, bc = self.internal_links(o)
                                    if (nc, bc) != (ns, 0):
                                        problems.append("cross-file block copy: %d of %d internal links leave the copy" % (bc, nc))
                            except Exception:
                                pass
                        # independence: change the copy, the source file must not move; and vice versa
                        try:
                            o.definition = "changed in the copy"
                            if kind == "Block" and len(o.data_arrays):
                                o.data_arrays[0].label = "lbl2"
                                del o.data_arrays[0]
                            if kind == "Section" and len(o.props):
                                del o.props[0]
                        except Exception as exc:
                            problems.append("mutating the cross-file copy raised %s" % type(exc).__name__)
                        if nixwalk.walk(self.f, False, set()) != whole_before:
                            problems.append("a change to the cross-file copy of %s %r is visible in the source file" % (kind, x.name))
                            whole_before = nixwalk.walk(self.f, False, set())
            copies_before = nixwalk.walk(f2, False, set())
            for x in list(self.f.blocks)[:2] + list(self.f.sections)[:2]:
                try:
                    x.definition = "changed in the source"
                except Exception:
                    pass
            if nixwalk.walk(f2, False, set()) != copies_before:
                problems.append("a change to the source is visible in the cross-file copies")
        finally:
            f2.close()
        try:
            os.remove(path2)
        except OSError:
            pass
        return {"copies": n, "problems": problems}

    @staticmethod
    def linklists_coherent(b):
        """every member of every link list of a block's groups, tags and multi-tags can be found in that list by
        membership test, by id and by name; returns the list of problems"""
        out = []
        owners = [(g, ("data_arrays", "tags", "multi_tags", "sources", "data_frames")) for g in b.groups] + \
                 [(t, ("references", "sources")) for t in list(b.tags) + list(b.multi_tags)] + \
                 [(a, ("sources",)) for a in b.data_arrays]
        for o, attrs in owners:
            for attr in attrs:
                try:
                    lst = getattr(o, attr)
                    members = list(lst)
                except Exception as exc:
                    out.append("%s.%s cannot be listed: %s" % (type(o).__name__, attr, type(exc).__name__))
                    continue
                for m in members:
                    try:
                        ok = (m in lst) and (m.id in lst) and lst[m.id].id == m.id and lst[m.name].id is not None
                    except Exception as exc:
                        ok = False
                    if not ok:
                        out.append("%s.%s: a listed member cannot be found by membership / id / name" % (type(o).__name__, attr))
        return out

    @staticmethod
    def internal_links(b):
        """for a block: does every link list entry / positions / extents / feature data designate, as an HDF5 object,
        an entity of this very block?  returns (links checked, links that leave the block)"""
        def h5(e):
            return e._h5group.group
        own = {}
        for attr in ("data_arrays", "tags", "multi_tags"):
            own[attr] = [h5(e) for e in getattr(b, attr)]
        srcs = []

        def rec(items):
            for x in items:
                srcs.append(h5(x))
                rec(x.sources)
        rec(b.sources)
        own["sources"] = srcs
        n = bad = 0

        def chk(e, attr):
            nonlocal n, bad
            n += 1
            if not any(h5(e) == o for o in own[attr]):
                bad += 1
        for g in b.groups:
            for attr in ("data_arrays", "tags", "multi_tags", "sources"):
                for e in getattr(g, attr):
                    chk(e, attr)
        for t in list(b.tags) + list(b.multi_tags):
            for e in t.references:
                chk(e, "data_arrays")
            for ft in t.features:
                chk(ft.data, "data_arrays")
            for e in t.sources:
                chk(e, "sources")
        for t in b.multi_tags:
            chk(t.positions, "data_arrays")
            if t.extents is not None:
                chk(t.extents, "data_arrays")
        for a in b.data_arrays:
            for e in a.sources:
                chk(e, "sources")
        return n, bad

    def pair_hashes(self):
        out = []
        # never observe through the object of an entity that is gone (a stale object re-creates groups)
        self.pairs = [p for p in self.pairs if p["src_id"] in self.last_defined and p["cp_id"] in self.last_defined]
        for p in self.pairs:
            wa, ia = self.subwalk(p["kind"], p["src"], False)
            own_a = self.sub_defined
            wb, ib = self.subwalk(p["kind"], p["cp"], False)
            own_b = self.sub_defined
            # a link made LATER from one side into the other (a section of the source linked to a section of the copy)
            # ties them together again: what then happens to the target shows on both sides, legitimately
            cross = bool(((ia - own_a) & own_b) or ((ib - own_b) & own_a))
            out.append([p["step"], p["keep"], hash(repr(wa)) & 0xffffffff, hash(repr(wb)) & 0xffffffff, p["src_ids"], p["cp_ids"],
                        p.get("src_own", p["src_ids"]), p.get("cp_own", p["cp_ids"]), cross])
        return out

    # ---- model-free oracles for C13: plain recursion over the containers of fresh objects
    def filter_fn(self, flt):
        if flt[0] == "all":
            return lambda x: True
        if flt[0] == "name":
            return lambda x: x.name == flt[1]
        return lambda x: x.type == flt[1]

    def oracle_find(self, o, kind, limit, fn):
        attr = "sections" if kind in ("File", "Section") else "sources"
        lim = 10 ** 9 if limit is None else limit
        level = [o] if kind in ("Section", "Source") else None
        out = []
        depth = 0
        if level is None:
            level = list(getattr(o, attr))
            depth = 1
        while level and depth <= lim:
            out += [x.id for x in level if fn(x)]
            level = [c for x in level for c in getattr(x, attr)]
            depth += 1
        if kind in ("Section", "Source") and lim < 0:
            out = [o.id] if fn(o) else []
        return out

    def oracle_parent(self, attr, eid):
        """id of the entity whose container holds eid, None at top level"""
        def rec(parent, items):
            for x in items:
                if x.id == eid:
                    return (parent.id if parent is not None else None, True)
                r = rec(x, getattr(x, attr))
                if r[1]:
                    return r
            return (None, False)
        if attr == "sections":
            return [rec(None, self.f.sections)[0]]
        for b in self.f.blocks:
            r = rec(None, b.sources)
            if r[1]:
                return [r[0]]
        return [None]

    def oracle_referring(self, o, kind, c):
        out = []

        def all_sources(items):
            for x in items:
                yield x
                for y in all_sources(x.sources):
                    yield y
        if kind == "Section":
            for b in self.f.blocks:
                cand = {"CBlocks": [b], "CGroups": list(b.groups), "CDataArrays": list(b.data_arrays), "CTags": list(b.tags),
                        "CMultiTags": list(b.multi_tags), "CSources": list(all_sources(b.sources))}[c]
                for x in cand:
                    m = x.metadata
                    if m is not None and m.id == o.id:
                        out.append(x.id)
        else:
            b = o.parent_block
            cand = {"CDataArrays": list(b.data_arrays), "CTags": list(b.tags), "CMultiTags": list(b.multi_tags)}[c]
            for x in cand:
                if o.id in [y.id for y in x.sources]:
                    out.append(x.id)
        return out

    @staticmethod
    def same_h5(a, b):
        """None when a and b are the same HDF5 object (not merely objects with the same id attribute), else what differs"""
        ha = a._h5dataset.dataset if hasattr(a, "_h5dataset") else a._h5group.group
        hb = b._h5dataset.dataset if hasattr(b, "_h5dataset") else b._h5group.group
        if ha == hb:                      # h5py compares object identity (the file and the object's address)
            return None
        return "the entity reached through the link (%r) is not the entity that was linked (%r)" % (
            getattr(a, "name", None), getattr(b, "name", None))

    def run_op(self, op):
        self.oracle = "n/a"
        self.copy_event = None
        self.append_info = None
        self.alias_info = None
        tid = None
        if op[0] in ("set_attr", "set_link", "force", "append", "remove", "create", "create_mtag", "create_feature", "delete") \
                and op[1] < len(self.handles):
            tid = self.handles[op[1]][2]
        self.target_ids.append(tid)
        CLOCK[0] = clock_of(1000 + self.step)
        self.step += 1
        ids = self.digest.known_ids
        try:
            h = self.do(op)
            probe_toks = None
            if isinstance(h, tuple) and h[0] == "toks":
                rt = [3] + h[1]
                probe_toks = h[1]
                h = None
            elif h is None:
                rt = [0]
            else:
                i = self.handles[h][2]
                if isinstance(i, str):
                    ids.add(i)
                rt = [1, i]
            res = ("ok", h) if probe_toks is None else ("toks", probe_toks, self.oracle)
        except Exception as exc:
            code = classify(exc, self.readonly)
            rt = [2, code]
            res = ("err", code, type(exc).__name__ + ": " + str(exc)[:80])
        w, info = nixwalk.walk_info(self.f, self.with_times, ids)
        self.last_defined = info.pop("_defined_set")
        self.last_all_ids = set(ids)
        if self.append_info is not None:
            info["append"] = self.append_info
        if self.alias_info is not None:
            info["alias"] = self.alias_info
        if self.track_pairs:
            info["copy"] = self.copy_event
            if op[0] == "reopen":
                self.pairs = []
            info["pairs"] = self.pair_hashes()
        self.infos.append(info)
        hr = self.digest.hash_stream(rt)
        hw = self.digest.hash_stream(w)
        self.trace.append((hr, hw))
        self.walks.append(w)
        return res


# ---------------------------------------------------------------------------- generator

NAMES = ["a", "b", "c", "x y", "äö", "data_arrays", "metadata", "N" * 40, "zz", "A", "..", ".a", " ", "a\\b",
         "0123456789abcdef0123456789abcdef"]
TYPES = ["t", "nix.x", "ü"]


class Gen(object):
    """online generator: knows what exists through the runner's handle table and its own
    bookkeeping of live entities"""

    def __init__(self, rnd, runner, profile):
        self.rnd = rnd
        self.r = runner
        self.profile = profile
        self.dead = set()
        self.retry = None
        self.link_handles = {}     # handle -> (owner handle, list kind) for handles obtained from a link list
        self.ncopies = 0
        self.kept = False          # a copy with kept ids exists: ids are no longer unique in the file

    def live(self, kinds):
        return [i for i, (k, o, _) in enumerate(self.r.handles) if k in kinds and i not in self.dead]

    def name(self):
        if self.profile.get("small_names"):
            return self.rnd.choice(["a", "b", "c", "d"])
        if self.profile.get("uuid_names") and self.rnd.random() < 0.1:
            return "0123456789abcdef0123456789abcdef"
        return self.rnd.choice(NAMES[:-1])

    def payload(self):
        return [self.rnd.randint(-3, 9) for _ in range(self.rnd.randint(1, 4))]

    def key_for(self, h, allow_obj=True):
        """a key designating the entity of handle h: name / id / object"""
        k, o, i = self.r.handles[h]
        r = self.rnd.random()
        if r < 0.35 and k != "Feature":
            try:
                n = o.name
                if n != i and n not in self.r.digest.known_ids:
                    return ("name", n)
            except Exception:
                pass
        if r < 0.7:
            return ("idof", h)
        if allow_obj:
            return ("obj", h)
        return ("idof", h)

    def next_op(self):
        rnd = self.rnd
        if self.retry is not None:
            op, self.retry = self.retry, None
            if op[1] not in self.dead:
                return op
        w = dict(create=10, mtag=2, feature=2, lookup=3, lookup_link=1, delete=2, append=5, remove=2,
                 set_link=3, set_attr=4, reopen=0.5, bad=1, set_auto=0.2, probe=1, probe_link=0.5, force=0,
                 find=0, parent=0, referring=0, copy=0)
        w.update(self.profile.get("weights", {}))
        kinds = list(w)
        # coverage guidance: of a few candidate ops, take the one whose signature (operation x kinds of the entities
        # involved x variant) has been exercised least so far in this run
        cands = []
        for _ in range(50):
            t = rnd.choices(kinds, [w[k] for k in kinds])[0]
            op = self.try_make(t)
            if op is not None:
                cands.append(op)
                if len(cands) >= self.profile.get("candidates", 3):
                    break
        if not cands:
            return ("create", 0, "CBlocks", self.name() + str(rnd.randint(0, 99)), "t", [])
        cands.sort(key=lambda o: COUNTS.get(self.signature(o), 0))
        op = cands[0]
        COUNTS[self.signature(op)] = COUNTS.get(self.signature(op), 0) + 1
        if op[0] == "copy":
            self.ncopies += 1
            if op[4]:
                self.kept = True
        elif self.retry is not None and op[0] != "create":
            self.retry = None             # the retry belonged to a candidate that was not taken
        return op

    def signature(self, op):
        t = op[0]
        k = self.r.kind

        def kk(key):
            return key[0] if isinstance(key, (list, tuple)) else "?"
        try:
            if t == "create":
                return (t, k(op[1]), op[2], op[3] == "", "/" in op[3], op[4] == "")
            if t == "create_feature":
                return (t, k(op[1]), op[3])
            if t in ("lookup", "delete"):
                return (t, k(op[1]), op[2], kk(op[3]))
            if t == "append":
                return (t, k(op[1]), op[2], k(op[3]))
            if t in ("remove", "lookup_link"):
                return (t, k(op[1]), op[2], kk(op[3]))
            if t == "set_link":
                return (t, k(op[1]), op[2], op[3] is None)
            if t == "set_attr":
                return (t, k(op[1]), op[2], op[3] is None)
            if t == "copy":
                return (t, k(op[1]), k(op[2]), op[3] is None, op[4], op[5])
            if t in ("probe", "probe_link", "referring", "find", "parent"):
                return (t, k(op[1]), op[2])
            if t == "force":
                return (t, k(op[1]), op[2])
        except Exception:
            pass
        return (t,)

    def try_make(self, t):
        rnd = self.rnd
        if t == "create":
            parents = self.live(["File", "Block", "Source", "Section"])
            ph = rnd.choice(parents)
            pk = self.r.kind(ph)
            c = rnd.choice([x for x in HAS_CONT[pk] if x not in ("CMultiTags", "CFeatures")])
            return ("create", ph, c, self.name(), rnd.choice(TYPES), self.payload())
        if t == "copy":
            if self.ncopies >= self.profile.get("max_copies", 4):
                return None
            pairs = [("File", ["Block"]), ("Block", ["DataArray", "Tag", "MultiTag", "DataFrame"]), ("File", ["Section"]),
                     ("Section", ["Section"]), ("Section", ["Property"])]
            dk, xks = rnd.choice(pairs)
            ds, xs = self.live([dk]), self.live(xks)
            if not ds or not xs:
                return None
            keep = True if self.kept else (rnd.random() < 0.4)
            name = None if rnd.random() < 0.35 else "cp%d" % rnd.randint(0, 5)
            return ("copy", rnd.choice(ds), rnd.choice(xs), name, keep, rnd.random() < 0.6)
        if t == "mtag":
            bs = self.live(["Block"])
            das = self.live(["DataArray"])
            if not bs or not das:
                return None
            return ("create_mtag", rnd.choice(bs), self.name(), rnd.choice(TYPES), rnd.choice(das))
        if t == "feature":
            ts = self.live(["Tag", "MultiTag"])
            das = self.live(["DataArray"])
            dfs = self.live(["DataFrame"])
            if dfs and rnd.random() < 0.35:
                das = dfs                      # a data frame as feature data (refused for "tagged")
            if not ts or not das:
                return None
            return ("create_feature", rnd.choice(ts), rnd.choice(das), rnd.choice(["tagged", "untagged", "indexed"]))
        if t in ("lookup", "delete"):
            cands = self.live(["Block", "Group", "DataArray", "Tag", "MultiTag", "Source", "Section", "Property", "Feature", "DataFrame"])
            if not cands:
                return None
            h = rnd.choice(cands)
            par = self.parent_of(h)
            if par is None:
                return None
            ph, c = par
            if rnd.random() < 0.25:
                key = ("pos", rnd.randint(-3, 3))
            else:
                key = self.key_for(h, allow_obj=(t == "delete"))
            if self.r.kind(h) == "Feature" and rnd.random() < 0.4:
                # a feature can also be addressed by the id or the name of its DATA
                try:
                    d = self.r.obj(h).data
                    hx = [i for i in self.live(["DataArray", "DataFrame"]) if self.r.handles[i][2] == d.id]
                    if hx:
                        key = ("idof", hx[0]) if rnd.random() < 0.6 else ("name", d.name)
                except Exception:
                    pass
            return (t, ph, c, key)
        if t in ("append",):
            owners = self.live(list(HAS_LIST))
            if not owners:
                return None
            ph = rnd.choice(owners)
            l = rnd.choice(HAS_LIST[self.r.kind(ph)])
            want = LIST_ITEM[l] if rnd.random() < 0.9 else rnd.choice(["DataArray", "Tag", "Source", "Section", "DataFrame"])
            xs = self.live([want])
            if not xs:
                return None
            if rnd.random() < 0.3:
                # adversarial: an entity of ANOTHER block whose name also exists in the owner's block
                try:
                    blk = self.fresh_block(self.r.obj(ph)._parent.id)
                    local = set(x.name for x in getattr(blk, {"DataArray": "data_arrays", "Tag": "tags", "DataFrame": "data_frames",
                                                             "MultiTag": "multi_tags", "Source": "sources"}[want]))
                    foreign = [i for i in xs if getattr(getattr(self.r.obj(i), "_parent", None), "id", None) != blk.id
                               and self.r.obj(i).name in local]
                    if foreign:
                        return ("append", ph, l, rnd.choice(foreign))
                except Exception:
                    pass
            return ("append", ph, l, rnd.choice(xs))
        if t in ("remove", "lookup_link"):
            owners = self.live(list(HAS_LIST))
            if not owners:
                return None
            ph = rnd.choice(owners)
            l = rnd.choice(HAS_LIST[self.r.kind(ph)])
            try:
                items = list(getattr(self.fresh_owner(ph) or self.r.obj(ph), LIST_ATTR[l]))
            except Exception:
                items = []
            r = rnd.random()
            if items and r < 0.7:
                x = rnd.choice(items)
                key = ("pos", rnd.randint(-len(items), len(items) - 1))
                if rnd.random() < 0.5 and x.name not in self.r.digest.known_ids:
                    key = ("name", x.name)
                hx = [i for i in self.live([LIST_ITEM[l]]) if self.r.handles[i][2] == x.id]
                if hx and rnd.random() < 0.5:
                    key = rnd.choice([("idof", hx[0]), ("obj", hx[0])] if t == "remove" else [("idof", hx[0])])
            else:
                key = ("pos", rnd.randint(-2, 2))
            return (t, ph, l, key)
        if t == "set_link":
            r = rnd.choice(["RMetadata", "RMetadata", "RPositions", "RExtents", "RFeatureData", "RSectionLink"])
            if r == "RMetadata":
                owners = self.live(["Block", "Group", "DataArray", "Tag", "MultiTag", "Source", "DataFrame"])
                secs = self.live(["Section"])
                if not owners:
                    return None
                if secs and rnd.random() < 0.7:
                    return ("set_link", rnd.choice(owners), r, rnd.choice(secs))
                return ("set_link", rnd.choice(owners), r, None)
            if r in ("RPositions", "RExtents"):
                owners = self.live(["MultiTag"])
                das = self.live(["DataArray"])
                if not owners or not das:
                    return None
                if r == "RExtents" and rnd.random() < 0.3:
                    return ("set_link", rnd.choice(owners), r, None)
                ph = rnd.choice(owners)
                if rnd.random() < 0.3:
                    # adversarial: an array of ANOTHER block whose name also exists in the multi-tag's block
                    try:
                        blk = self.fresh_block(self.r.obj(ph)._parent.id)
                        local = set(x.name for x in blk.data_arrays)
                        foreign = [i for i in das if getattr(getattr(self.r.obj(i), "_parent", None), "id", None) != blk.id
                                   and self.r.obj(i).name in local]
                        if foreign:
                            return ("set_link", ph, r, rnd.choice(foreign))
                    except Exception:
                        pass
                return ("set_link", ph, r, rnd.choice(das))
            if r == "RFeatureData":
                owners = self.live(["Feature"])
                das = self.live(["DataArray"])
                dfs = self.live(["DataFrame"])
                if dfs and rnd.random() < 0.4:
                    das = dfs
                if not owners or not das:
                    return None
                return ("set_link", rnd.choice(owners), r, rnd.choice(das))
            if r == "RSectionLink":
                secs = self.live(["Section"])
                if len(secs) < 2:
                    return None
                return ("set_link", rnd.choice(secs), r, rnd.choice(secs))
        if t == "set_attr":
            a = rnd.choice(["AType", "ADefinition", "ADefinition", "ALabel", "AUnit", "ARepository", "AReference"])
            kinds = {"AType": ["Block", "Group", "DataArray", "Tag", "MultiTag", "Source", "Section", "DataFrame"],
                     "ADefinition": ["Block", "Group", "DataArray", "Tag", "MultiTag", "Source", "Section", "DataFrame"],
                     "ALabel": ["DataArray"], "AUnit": ["DataArray"], "ARepository": ["Section"],
                     "AReference": ["Section"]}[a]
            hs = self.live(kinds)
            if not hs:
                return None
            if a == "AUnit":
                v = rnd.choice(["mV", "s", "kHz", None])
            elif a == "AType":
                v = rnd.choice(TYPES + ["other"])
            else:
                v = rnd.choice(["some text", "éè", "", None, "x"])
            return ("set_attr", rnd.choice(hs), a, v)
        if t == "find":
            hs = self.live(["File", "Block", "Source", "Section"])
            ph = rnd.choice(hs)
            limit = rnd.choice([None, None, 0, 1, 2, 3, 5, -1])
            r = rnd.random()
            flt = ("all",) if r < 0.5 else (("name", self.name()) if r < 0.8 else ("type", rnd.choice(TYPES)))
            return ("find", ph, limit, flt)
        if t == "parent":
            hs = self.live(["Source", "Section"])
            if not hs:
                return None
            ph = rnd.choice(hs)
            w = "PBlock" if (self.r.kind(ph) == "Source" and rnd.random() < 0.3) else "PParent"
            return ("parent", ph, w)
        if t == "referring":
            hs = self.live(["Source", "Section"])
            if not hs:
                return None
            ph = rnd.choice(hs)
            if self.r.kind(ph) == "Section":
                c = rnd.choice(["CBlocks", "CGroups", "CDataArrays", "CTags", "CMultiTags", "CSources"])
            else:
                c = rnd.choice(["CDataArrays", "CTags", "CMultiTags"])
            return ("referring", ph, c)
        if t == "probe":
            parents = self.live(["File", "Block", "Source", "Section"])
            ph = rnd.choice(parents)
            c = rnd.choice([x for x in HAS_CONT[self.r.kind(ph)] if x != "CFeatures"])
            return ("probe", ph, c)
        if t == "probe_link":
            owners = self.live(list(HAS_LIST))
            if not owners:
                return None
            ph = rnd.choice(owners)
            return ("probe_link", ph, rnd.choice(HAS_LIST[self.r.kind(ph)]))
        if t == "reopen":
            return ("reopen", bool(self.profile.get("readonly_reopen")) and rnd.random() < 0.5)
        if t == "set_auto":
            return ("set_auto", rnd.random() < 0.5)
        if t == "force":
            hs = self.live(["File", "Block", "Group", "DataArray", "Tag", "MultiTag", "Source", "Section", "DataFrame"])
            if not hs:
                return None
            return ("force", rnd.choice(hs), rnd.random() < 0.5,
                    rnd.choice([0, 1, 86399, 86400, 951782400, 4102444799, rnd.randint(0, 4102444799)]))
        if t == "bad":
            # the malformed stream: an argument the call must refuse
            parents = self.live(["File", "Block", "Source", "Section"])
            ph = rnd.choice(parents)
            pk = self.r.kind(ph)
            c = rnd.choice([x for x in HAS_CONT[pk] if x not in ("CMultiTags", "CFeatures")])
            which = rnd.random()
            good = ("create", ph, c, "retry%d" % rnd.randint(0, 999), rnd.choice(TYPES), self.payload())
            bad = None
            if which < 0.3 and c != "CBlocks":
                bad = ("create", ph, c, "", rnd.choice(TYPES), self.payload())
            elif which < 0.6:
                bad = ("create", ph, c, "sl/ash", rnd.choice(TYPES), self.payload())
            elif which < 0.8 and c != "CProperties":
                bad = ("create", ph, c, good[3], "", self.payload())
            if bad is not None:
                if rnd.random() < 0.7:
                    self.retry = good
                return bad
            # duplicate of an existing name in that container
            try:
                items = list(getattr(self.r.obj(ph), CONT_ATTR[c]))
            except Exception:
                items = []
            items = [x for x in items if x.name not in self.r.digest.known_ids]
            if items:
                return ("create", ph, c, rnd.choice(items).name, rnd.choice(TYPES), self.payload())
            return None
        return None

    def parent_of(self, h):
        """(parent handle, container kind) through which handle h's entity is reachable, using
        the cached nix parent of the Python object"""
        k, o, _ = self.r.handles[h]
        kind_to_c = {"Block": "CBlocks", "Group": "CGroups", "DataArray": "CDataArrays", "Tag": "CTags", "DataFrame": "CDataFrames",
                     "MultiTag": "CMultiTags", "Source": "CSources", "Section": "CSections",
                     "Property": "CProperties", "Feature": "CFeatures"}
        c = kind_to_c[k]
        par = getattr(o, "_parent", None)
        if par is None:
            return None
        for i in self.live(["File", "Block", "Source", "Section", "Tag", "MultiTag"]):
            if self.r.handles[i][1] is par:
                if c in HAS_CONT.get(self.r.kind(i), []):
                    return (i, c)
        # any handle designating the same parent entity
        pid = getattr(par, "id", None)
        for i in self.live(["File", "Block", "Source", "Section", "Tag", "MultiTag"]):
            if self.r.handles[i][2] == pid and c in HAS_CONT.get(self.r.kind(i), []):
                return (i, c)
        return None

    def note(self, op, res):
        """bookkeeping after an op: a handle obtained from a link list is not used any more once that link is gone
        (the wrapper is bound to the link's path; writes through it are lost - C02's known finding, exhibited there)"""
        if op[0] == "reopen":
            self.link_handles = {}
            return
        if op[0] == "lookup_link" and res[0] == "ok":
            self.link_handles[res[1]] = (op[1], op[2])
        if op[0] in ("remove", "delete", "set_link", "copy") and res[0] == "ok":
            self.refresh_dead()            # the owner of the list may just have been deleted (with all its links)
            for h, (ph, l) in list(self.link_handles.items()):
                if h in self.dead:
                    continue
                if ph in self.dead:
                    self.dead.add(h)       # never touch the Python object of a deleted owner
                    continue
                try:
                    # read the list through a FRESH object of the owner: the generator's own look at the file must not
                    # touch the state of the handle objects the operations go through (a replay has no generator)
                    owner = self.fresh_owner(ph)
                    ids = [x.id for x in getattr(owner, LIST_ATTR[l])] if owner is not None else []
                    if self.r.handles[h][2] not in ids:
                        self.dead.add(h)
                except Exception:
                    self.dead.add(h)

    def fresh_block(self, bid):
        return [b for b in self.r.f.blocks if b.id == bid][0]

    def fresh_owner(self, ph):
        """a new Python object for the entity of handle ph (a group, array, tag or multi-tag), found by id from the file"""
        kind, _, eid = self.r.handles[ph]
        attr = {"Group": "groups", "DataArray": "data_arrays", "Tag": "tags", "MultiTag": "multi_tags"}.get(kind)
        if attr is None:
            return None
        for b in self.r.f.blocks:
            for x in getattr(b, attr):
                if x.id == eid:
                    return x
        return None

    def refresh_dead(self):
        """handles whose entity is no longer in the walk are not used for new ops"""
        idsnow = self.r.last_defined
        for i, (k, o, eid) in enumerate(self.r.handles):
            if k != "File" and eid not in idsnow:
                self.dead.add(i)
            elif k != "File" and i not in self.dead and self.kept:
                # ids are ambiguous once a kept-id copy exists: a deleted entity may have a living twin of the same id.
                # The object itself tells: an HDF5 object whose last link is gone has no name any more.
                try:
                    h5 = o._h5dataset.dataset if k == "Property" else o._h5group.group
                    if h5 is None or h5.name is None:
                        self.dead.add(i)
                except Exception:
                    self.dead.add(i)


def gen_history(seed, length, profile, workdir, with_times, k):
    rnd = random.Random(seed)
    path = os.path.join(workdir, "h%d.nix" % k)
    r = Runner(path, with_times)
    r.track_pairs = bool(profile.get("track_pairs"))
    r.accessor_sweep = bool(profile.get("accessor_sweep"))
    r.reopen_sweep = bool(profile.get("reopen_sweep"))
    r.path_sweep = bool(profile.get("path_sweep"))
    g = Gen(rnd, r, profile)
    ops = []
    results = []
    prelude = []
    if profile.get("preludes") and rnd.random() < profile.get("prelude_prob", 0.5):
        prelude = [tuple(tuple(x) if isinstance(x, list) and x and x[0] in ("name", "pos", "obj", "idof") else x for x in o)
                   for o in rnd.choice(profile["preludes"])]
    for k in range(length):
        op = prelude[k] if k < len(prelude) else g.next_op()
        ops.append(op)
        res = r.run_op(op)
        results.append(res)
        if op[0] == "reopen":
            g.dead = set()
        g.note(op, res)
        g.refresh_dead()
    if profile.get("accessor_sweep") and not r.readonly:
        # end every history with a read-only reopen, so that the accessor sweep sees the file when it is fullest
        op = ("reopen", True)
        ops.append(op)
        results.append(r.run_op(op))
    r.step += 1
    r.do_path_sweep()
    r.step -= 1
    xfile = r.cross_file_phase(path + ".copy.nix") if profile.get("xfile") else None
    r.close()
    try:
        os.remove(path)
    except OSError:
        pass
    return {"xfile": xfile, "ops": ops, "results": results, "trace": r.trace, "ro_violations": r.ro_violations, "infos": r.infos, "target_ids": r.target_ids,
            "ro_sweep": r.ro_sweep, "reopen_diffs": r.reopen_diffs, "path_diffs": r.path_diffs, "walks": r.walks if profile.get("keep_walks") else None}


def replay_history(ops, workdir, with_times, k=0):
    path = os.path.join(workdir, "r%d.nix" % k)
    r = Runner(path, with_times)
    r.track_pairs = True
    r.accessor_sweep = r.reopen_sweep = r.path_sweep = True
    results = []
    for op in ops:
        op = tuple(tuple(x) if isinstance(x, list) and x and isinstance(x[0], str) and x[0] in ("name", "pos", "obj", "idof") else x for x in op)
        results.append(r.run_op(op))
    r.step += 1
    r.do_path_sweep()
    r.step -= 1
    xfile = r.cross_file_phase(path + ".copy.nix")
    r.close()
    try:
        os.remove(path)
    except OSError:
        pass
    return {"xfile": xfile, "ops": ops, "results": results, "trace": r.trace, "walks": r.walks, "ro_violations": r.ro_violations,
            "infos": r.infos, "target_ids": r.target_ids, "ro_sweep": r.ro_sweep, "reopen_diffs": r.reopen_diffs,
            "path_diffs": r.path_diffs}


def main():
    req = json.load(sys.stdin)
    real_stdout = sys.stdout
    sys.stdout = sys.stderr            # the library prints a message on some refusals
    wd = os.getcwd()
    out = []
    if "replay" in req:
        for k, ops in enumerate(req["replay"]):
            out.append(replay_history(ops, wd, req.get("times", False), k))
    else:
        for k in range(req["n"]):
            out.append(gen_history(req["seed"] * 100003 + k, req["len"], req.get("profile", {}), wd,
                                   req.get("times", False), k))
    json.dump(out, real_stdout)


if __name__ == "__main__":
    main()
