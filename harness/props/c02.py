"""C02 -- closing and reopening a file reproduces the complete observable state."""
import os
import sys

sys.path.insert(0, os.path.dirname(os.path.dirname(os.path.abspath(__file__))))
import storeprop  # noqa: E402

ID = "C02"
THEOREMS = ["c02_reopen_same_walk", "c02_walk_determined", "c02_last_write_wins", "c02_attr_frame",
            "c02_deleted_stays_deleted", "c02_link_frame"]
PROFILE = {"weights": {"reopen": 2.0, "set_attr": 6, "set_link": 4, "remove": 3, "delete": 2, "lookup": 4,
                       "lookup_link": 3, "probe_link": 1.5, "probe": 1, "bad": 0.5}}
RULE = ("random histories over all modelled entity kinds (blocks, groups, arrays, tags, multi-tags, features, nested sources and "
        "sections, properties) with attribute values incl. None, empty and non-ASCII strings, links and unlinks, deletions, and a "
        "close+reopen (read-write) inserted at random points; every operation goes through a randomly chosen one of all Python "
        "objects obtained so far for the entity (creation result, container lookups, link-list lookups); the canonical walk is "
        "taken through fresh objects after every operation.")


def predicate(h):
    out = []
    tr = h["trace"]
    for i, op in enumerate(h["ops"]):
        if op[0] == "reopen" and i > 0 and h["results"][i][0] == "ok":
            if tr[i][1] != tr[i - 1][1]:
                out.append(("the walk after reopening differs from the walk before closing", i, {"op": op}))
    return out


def run(ctx):
    return storeprop.run(ctx, ID, THEOREMS, "Props/C02.v", PROFILE, (28, 40), 100, 900, predicate, RULE)


def replay(ctx):
    return storeprop.replay(ctx, ID, predicate)
