(* Nix/Check.v -- correspondence of operation histories: the model's trace against the digests
   recorded from the implementation.  0 = identical; 2i+1 = the result of op i differs;
   2i+2 = the walk after op i differs. *)
From NixV Require Import Base.Prelude H5.Store Nix.Api Nix.Observe.
Open Scope N_scope.

Fixpoint first_diff (i : N) (a b : list (Z * Z)) : N :=
  match a, b with
  | [], [] => 0
  | (r1, w1) :: a', (r2, w2) :: b' =>
      if negb (Z.eqb r1 r2) then 2 * i + 1
      else if negb (Z.eqb w1 w2) then 2 * i + 2
      else first_diff (i + 1) a' b'
  | _, _ => 2 * i + 1
  end.

Definition history_case := (list op * list (Z * Z))%type.
Definition check_history (with_times : bool) (c : history_case) : N :=
  first_diff 0 (trace with_times 1000 (fst c)) (snd c).
