(* Proofs/WalkProofs.v -- the canonical walk depends on the store only through the five leaf
   observations of [view]; consequences: creating an empty container group is not observable;
   reopening does not change the walk. *)
From NixV Require Import Base.Prelude H5.Store Nix.Api Nix.Observe Proofs.StoreLemmas.
From Coq Require Import Lia.
Open Scope N_scope.

Definition view_eq (v v' : view) : Prop :=
  (forall a k, v_attr v a k = v_attr v' a k) /\
  (forall a k, v_link v a k = v_link v' a k) /\
  (forall a k, v_link_req v a k = v_link_req v' a k) /\
  (forall a k, v_payload v a k = v_payload v' a k) /\
  (forall a k, v_list v a k = v_list v' a k).

Lemma flat_map_ext' {A B} (f g : A -> list B) l : (forall x, f x = g x) -> flat_map f l = flat_map g l.
Proof. intros H. induction l as [|x l IH]; cbn; [reflexivity|]. rewrite H, IH. reflexivity. Qed.

Section Ext.
  Variable t : bool.
  Variables v v' : view.
  Hypothesis E : view_eq v v'.

  Let Ea := proj1 E.
  Let El := proj1 (proj2 E).
  Let Er := proj1 (proj2 (proj2 E)).
  Let Ep := proj1 (proj2 (proj2 (proj2 E))).
  Let Ec := proj2 (proj2 (proj2 (proj2 E))).

  Lemma w_times_ext a : w_times t v a = w_times t v' a.
  Proof. unfold w_times, w_time1. destruct t; [rewrite !Ea|]; reflexivity. Qed.
  Lemma w_header_ext k a : w_header t v k a = w_header t v' k a.
  Proof. unfold w_header. rewrite !Ea, w_times_ext. reflexivity. Qed.
  Lemma w_linklist_ext a r : w_linklist v a r = w_linklist v' a r.
  Proof. unfold w_linklist. rewrite Ec. f_equal. f_equal. apply flat_map_ext'. intros x. apply Ea. Qed.
  Lemma w_children_ext a cn f g : (forall x, f x = g x) -> w_children v a cn f = w_children v' a cn g.
  Proof. intros H. unfold w_children. rewrite Ec. f_equal. f_equal. apply flat_map_ext'. intros x. apply H. Qed.
  Lemma w_feature_ext a : w_feature t v a = w_feature t v' a.
  Proof. unfold w_feature. rewrite !Ea, Er, w_times_ext. reflexivity. Qed.
  Lemma w_group_ext a : w_group t v a = w_group t v' a.
  Proof. unfold w_group. rewrite w_header_ext, El, !w_linklist_ext. reflexivity. Qed.
  Lemma w_data_array_ext a : w_data_array t v a = w_data_array t v' a.
  Proof. unfold w_data_array. rewrite w_header_ext, !Ea, Ep, El, w_linklist_ext. reflexivity. Qed.
  Lemma w_data_frame_ext a : w_data_frame t v a = w_data_frame t v' a.
  Proof. unfold w_data_frame. rewrite w_header_ext, Ep, El. reflexivity. Qed.
  Lemma w_tag_ext a : w_tag t v a = w_tag t v' a.
  Proof.
    unfold w_tag. rewrite w_header_ext, Ep, El, !w_linklist_ext.
    rewrite (w_children_ext a s_features _ (w_feature t v')) by apply w_feature_ext. reflexivity.
  Qed.
  Lemma w_multi_tag_ext a : w_multi_tag t v a = w_multi_tag t v' a.
  Proof.
    unfold w_multi_tag. rewrite w_header_ext, Er, !El, !w_linklist_ext.
    rewrite (w_children_ext a s_features _ (w_feature t v')) by apply w_feature_ext. reflexivity.
  Qed.
  Lemma w_property_ext a : w_property t v a = w_property t v' a.
  Proof. unfold w_property. rewrite !Ea, w_times_ext. reflexivity. Qed.
  Lemma w_source_ext fuel : forall a, w_source t v fuel a = w_source t v' fuel a.
  Proof.
    induction fuel as [|f IH]; intros a; cbn [w_source]; [reflexivity|].
    rewrite w_header_ext, El. rewrite (w_children_ext a s_sources _ (w_source t v' f)) by apply IH.
    reflexivity.
  Qed.
  Lemma w_section_ext fuel : forall a, w_section t v fuel a = w_section t v' fuel a.
  Proof.
    induction fuel as [|f IH]; intros a; cbn [w_section]; [reflexivity|].
    rewrite w_header_ext, !Ea, El.
    rewrite (w_children_ext a s_properties _ (w_property t v')) by apply w_property_ext.
    rewrite (w_children_ext a s_sections _ (w_section t v' f)) by apply IH.
    reflexivity.
  Qed.
  Lemma w_block_ext a : w_block t v a = w_block t v' a.
  Proof.
    unfold w_block. rewrite w_header_ext, El.
    rewrite (w_children_ext a s_groups _ (w_group t v')) by apply w_group_ext.
    rewrite (w_children_ext a s_data_arrays _ (w_data_array t v')) by apply w_data_array_ext.
    rewrite (w_children_ext a s_tags _ (w_tag t v')) by apply w_tag_ext.
    rewrite (w_children_ext a s_multi_tags _ (w_multi_tag t v')) by apply w_multi_tag_ext.
    rewrite (w_children_ext a s_sources _ (w_source t v' walk_fuel)) by apply w_source_ext.
    rewrite (w_children_ext a s_data_frames _ (w_data_frame t v')) by apply w_data_frame_ext.
    reflexivity.
  Qed.
  Theorem walk_v_ext : walk_v t v = walk_v t v'.
  Proof.
    unfold walk_v. rewrite w_times_ext.
    rewrite (w_children_ext 0%nat s_data _ (w_block t v')) by apply w_block_ext.
    rewrite (w_children_ext 0%nat s_metadata _ (w_section t v' walk_fuel)) by apply w_section_ext.
    reflexivity.
  Qed.
End Ext.

(* two stores with the same nodes have the same walk; reopening keeps the nodes *)
Lemma walk_same_nodes t s s' : nodes s = nodes s' -> walk t s = walk t s'.
Proof. destruct s, s'. cbn. intros ->. reflexivity. Qed.

Theorem walk_reopen t r now s : walk t (sto (fst (exec (OReopen r) now s))) = walk t (sto s).
Proof. reflexivity. Qed.

(* an attribute write shows in the walk only through that attribute: if a store differs from
   another one only in attributes that the walk never reads at that address ... the general
   form: pointwise equal leaf observations give equal walks *)
Theorem walk_ext t s s' : view_eq (view_of s) (view_of s') -> walk t s = walk t s'.
Proof. intros E. unfold walk. apply walk_v_ext. exact E. Qed.
