(* Pure/ValidatorCheck.v -- correspondence: the model's report against the implementation's (both
   as sorted lists of codes per object). *)
From Coq Require Import ZArith List Bool Sorting.Mergesort Orders.
From NixV Require Import Base.Prelude Pure.Regex Pure.Units Pure.Validator.
Import ListNotations.
Open Scope Z_scope.

Module ZOrder <: TotalLeBool.
  Definition t := Z.
  Definition leb := Z.leb.
  Theorem leb_total : forall a1 a2, leb a1 a2 = true \/ leb a2 a1 = true.
  Proof. intros a b. unfold leb. destruct (Z.leb_spec a b); [left; reflexivity|right]. apply Z.leb_le. apply Z.lt_le_incl. assumption. Qed.
End ZOrder.
Module ZSort := Sort ZOrder.

Definition validator_case := (nfile * list (list Z))%type.
Definition check_validator (c : validator_case) : N :=
  let '(f, obs) := c in
  let ok := list_eqb (list_eqb Z.eqb) (map (fun l => ZSort.sort (map code l)) (check_file f)) obs in vcode ok ok.
