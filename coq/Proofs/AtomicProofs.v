(* Proofs/AtomicProofs.v -- C12 at the level of the store: "a refused call leaves the file as
   it was".  Three compositional predicates on programs of the API monad:
     readonly m : m never writes the store                         (tests, lookups, guards)
     total m    : on a writable file m never fails                  (the writes themselves)
     atomic R m : if m fails, the store it leaves is R-related to the one it started from
   with the composition rules  readonly ; atomic => atomic   and   atomic ; total => atomic.
   A call whose checks all precede its writes is atomic for R = equality; a call that first
   creates an (unobservable) empty container group is atomic for R = "plus empty containers";
   a call that validates after writing satisfies neither, and its refuted theorem has a
   concrete witness. *)
From NixV Require Import Base.Prelude H5.Store Nix.Api Proofs.StoreLemmas Proofs.MonadLemmas.
From Coq Require Import Lia.
Open Scope N_scope.

Definition readonly {A} (m : M A) : Prop :=
  forall s, sto (fst (m s)) = sto s /\ ro (fst (m s)) = ro s.
Definition total {A} (m : M A) : Prop :=
  forall s, ro s = false -> exists s' x, m s = (s', inl x) /\ ro s' = false.
Definition atomic (R : store -> store -> Prop) {A} (m : M A) : Prop :=
  forall s s' e, ro s = false -> m s = (s', inr e) -> R (sto s) (sto s').

Section Rules.
  Variable R : store -> store -> Prop.
  Hypothesis R_refl : forall s, R s s.

  Lemma atomic_of_readonly {A} (m : M A) : readonly m -> atomic R m.
  Proof. intros H s s' e _ E. destruct (H s) as [H1 _]. rewrite E in H1. cbn in H1. rewrite H1. apply R_refl. Qed.
  Lemma atomic_of_total {A} (m : M A) : total m -> atomic R m.
  Proof. intros H s s' e Hro E. destruct (H s Hro) as [s1 [x [E1 _]]]. congruence. Qed.
  (* tests first, then something atomic *)
  Lemma atomic_bind_ro {A B} (m : M A) (k : A -> M B) :
    readonly m -> (forall x, atomic R (k x)) -> atomic R (bind m k).
  Proof.
    intros Hm Hk s s' e Hro E. unfold bind in E. destruct (Hm s) as [H1 H2].
    destruct (m s) as [s1 [x|e1]] eqn:Em; cbn in H1, H2.
    - rewrite <- H1. eapply Hk; [congruence | exact E].
    - injection E as <- _. rewrite H1. apply R_refl.
  Qed.
  (* something atomic, then writes that cannot fail *)
  Lemma atomic_bind_total {A B} (m : M A) (k : A -> M B) :
    atomic R m -> (forall s, ro (fst (m s)) = ro s) -> (forall x, total (k x)) -> atomic R (bind m k).
  Proof.
    intros Hm Hr Hk s s' e Hro E. unfold bind in E.
    destruct (m s) as [s1 [x|e1]] eqn:Em.
    - assert (Hro1 : ro s1 = false) by (specialize (Hr s); rewrite Em in Hr; cbn in Hr; congruence).
      destruct (Hk x s1 Hro1) as [s2 [y [E2 _]]]. congruence.
    - injection E as <- <-. eapply Hm; eassumption.
  Qed.
End Rules.

(* ---- readonly *)
Lemma readonly_ret {A} (x : A) : readonly (ret x).
Proof. intros s. auto. Qed.
Lemma readonly_fail {A} e : readonly (@fail A e).
Proof. intros s. auto. Qed.
Lemma readonly_bind {A B} (m : M A) (k : A -> M B) : readonly m -> (forall x, readonly (k x)) -> readonly (bind m k).
Proof.
  intros Hm Hk s. unfold bind. destruct (Hm s) as [H1 H2]. destruct (m s) as [s1 [x|e]]; cbn in *; [|auto].
  destruct (Hk x s1) as [H3 H4]. split; congruence.
Qed.
Lemma readonly_get_st : readonly get_st.
Proof. intros s. auto. Qed.
Lemma readonly_rd {A} (f : store -> A) : readonly (rd f).
Proof. intros s. auto. Qed.
Lemma readonly_gen_id : readonly gen_id.
Proof. intros s. auto. Qed.
Lemma readonly_new_handle h : readonly (new_handle h).
Proof. intros s. auto. Qed.
Lemma readonly_the_handle i : readonly (the_handle i).
Proof. intros s. unfold the_handle. destruct (nth_error _ _); auto. Qed.
Lemma readonly_guard b e : readonly (guard b e).
Proof. destruct b; [apply readonly_ret | apply readonly_fail]. Qed.
Lemma readonly_lift_sum {A} (x : A + err) : readonly (lift_sum x).
Proof. destruct x; [apply readonly_ret | apply readonly_fail]. Qed.
#[export] Hint Resolve readonly_ret readonly_fail readonly_get_st readonly_rd readonly_gen_id
  readonly_new_handle readonly_the_handle readonly_guard readonly_lift_sum : readonly.
Ltac readonly_step :=
  first
    [ apply readonly_bind; [| intros ]
    | solve [auto with readonly]
    | match goal with |- readonly (match ?x with _ => _ end) => destruct x end
    | match goal with |- readonly (if ?x then _ else _) => destruct x end ].
Ltac readonly_tac := repeat readonly_step.
Lemma readonly_check_name_type n t : readonly (check_name_type n t).
Proof. unfold check_name_type. readonly_tac. Qed.
Lemma readonly_resolve_key k : readonly (resolve_key k).
Proof. unfold resolve_key. readonly_tac. Qed.
#[export] Hint Resolve readonly_check_name_type readonly_resolve_key : readonly.
Lemma readonly_api_lookup ph c k : readonly (api_lookup ph c k).
Proof. unfold api_lookup. readonly_tac. Qed.
Lemma readonly_api_lookup_link ph l k : readonly (api_lookup_link ph l k).
Proof. unfold api_lookup_link. readonly_tac. Qed.

(* ---- total *)
Lemma total_ret {A} (x : A) : total (ret x).
Proof. intros s H. exists s, x. auto. Qed.
Lemma total_bind {A B} (m : M A) (k : A -> M B) : total m -> (forall x, total (k x)) -> total (bind m k).
Proof.
  intros Hm Hk s Hro. destruct (Hm s Hro) as [s1 [x [E1 R1]]].
  destruct (Hk x s1 R1) as [s2 [y [E2 R2]]]. exists s2, y. unfold bind. rewrite E1. auto.
Qed.
Lemma total_get_st : total get_st.
Proof. intros s H. eexists; eexists. split; [reflexivity | exact H]. Qed.
Lemma total_rd {A} (f : store -> A) : total (rd f).
Proof. intros s H. eexists; eexists. split; [reflexivity | exact H]. Qed.
Lemma total_gen_id : total gen_id.
Proof. intros s H. eexists; eexists. split; [reflexivity | exact H]. Qed.
Lemma total_new_handle h : total (new_handle h).
Proof. intros s H. eexists; eexists. split; [reflexivity | exact H]. Qed.
Lemma total_wr f : total (wr f).
Proof. intros s H. unfold wr. rewrite H. eexists; eexists. split; [reflexivity | reflexivity]. Qed.
Lemma total_wr_ret {A} (f : store -> store * A) : total (wr_ret f).
Proof.
  intros s H. unfold wr_ret. rewrite H. destruct (f (sto s)) as [s1 x].
  eexists; eexists. split; [reflexivity | reflexivity].
Qed.
#[export] Hint Resolve total_ret total_get_st total_rd total_gen_id total_new_handle total_wr total_wr_ret : total.
Ltac total_step :=
  first
    [ apply total_bind; [| intros ]
    | solve [auto with total]
    | match goal with |- total (match ?x with _ => _ end) => destruct x end
    | match goal with |- total (if ?x then _ else _) => destruct x end ].
Ltac total_tac := repeat total_step.
Lemma total_touch_updated a now : total (touch_updated a now).
Proof. unfold touch_updated. total_tac. Qed.
Lemma total_touch_created a now : total (touch_created a now).
Proof. unfold touch_created. total_tac. Qed.
#[export] Hint Resolve total_touch_updated total_touch_created : total.
Lemma total_auto_touch a now : total (auto_touch a now).
Proof. unfold auto_touch. total_tac. Qed.
Lemma total_write_payload a d l : total (write_payload a d l).
Proof. unfold write_payload. total_tac. Qed.
Lemma total_group_delete p a g k b : total (group_delete p a g k b).
Proof. unfold group_delete. total_tac. Qed.
Lemma total_auto_touch_for c n a now : total (auto_touch_for c n a now).
Proof. unfold auto_touch_for. destruct (touches c n); [apply total_auto_touch | apply total_ret]. Qed.
#[export] Hint Resolve total_auto_touch total_write_payload total_group_delete total_auto_touch_for : total.

(* ---- atomic, for R = equality: nothing at all is left behind *)
Definition same : store -> store -> Prop := eq.
Lemma same_refl s : same s s. Proof. reflexivity. Qed.

Ltac ro_pres := let s := fresh in intros s; match goal with
                | |- ro (fst (?m s)) = ro s =>
                    let G := fresh in assert (G : good m) by (auto with good); destruct G as [G _]; apply G
                end.

Ltac atomic_step R Rr :=
  first
    [ apply (atomic_of_readonly R Rr); solve [readonly_tac]
    | apply (atomic_of_total R); solve [total_tac]
    | apply (atomic_bind_ro R Rr); [solve [readonly_tac] | intros ]
    | match goal with |- atomic _ (match ?x with _ => _ end) => destruct x end
    | match goal with |- atomic _ (if ?x then _ else _) => destruct x end ].
Ltac atomic_tac R Rr := repeat (atomic_step R Rr).

(* Entity.create_new checks the name and type after generating the id and before the first
   write: atomic *)
Lemma atomic_entity_create_new pa cg n t now : atomic same (entity_create_new pa cg n t now).
Proof. unfold entity_create_new. atomic_tac same same_refl. Qed.

(* the block-level creators, File.create_block, and File.create_section: every test precedes
   every write -> a refused call leaves the store EXACTLY as it was *)
Definition atomic_container (pk : ekind) (c : ckind) : bool :=
  match pk, c with
  | KFile, (CBlocks | CSections) => true
  | KBlock, (CGroups | CDataArrays | CTags | CSources) => true
  | _, _ => false
  end.

Lemma atomic_create_tail (m : M (addr * tok)) (k : addr * tok -> M N) :
  atomic same m -> (forall s, ro (fst (m s)) = ro s) -> (forall x, total (k x)) -> atomic same (bind m k).
Proof. apply atomic_bind_total. Qed.

Lemma ro_entity_create_new pa cg n t now s :
  ro (fst (entity_create_new pa cg n t now s)) = ro s.
Proof. destruct (good_entity_create_new pa cg n t now) as [G _]. apply G. Qed.

Theorem api_create_atomic ph c n t d now s s' e p :
  ro s = false -> nth_error (hs s) (N.to_nat ph) = Some p -> atomic_container (hk p) c = true ->
  api_create ph c n t d now s = (s', inr e) -> sto s' = sto s.
Proof.
  intros Hro Hp Hc E. unfold api_create in E.
  unfold bind at 1 in E. unfold the_handle at 1 in E. rewrite Hp in E.
  assert (A : forall (m : M N), atomic same m -> m s = (s', inr e) -> sto s' = sto s).
  { intros m Hm Em. symmetry. exact (Hm s s' e Hro Em). }
  destruct (hk p) eqn:Ek; destruct c; try discriminate; cbn [has_container guard] in E.
  - (* File / blocks *)
    revert E. apply A.
    apply (atomic_bind_ro same same_refl); [readonly_tac | intros].
    apply (atomic_bind_ro same same_refl); [readonly_tac | intros].
    apply (atomic_bind_ro same same_refl); [readonly_tac | intros].
    apply atomic_create_tail; [apply atomic_entity_create_new | apply ro_entity_create_new | intros; total_tac].
  - (* File / sections *)
    revert E. apply A.
    apply (atomic_bind_ro same same_refl); [readonly_tac | intros].
    apply (atomic_bind_ro same same_refl); [readonly_tac | intros].
    apply (atomic_bind_ro same same_refl); [readonly_tac | intros].
    apply atomic_create_tail; [apply atomic_entity_create_new | apply ro_entity_create_new | intros; total_tac].
  - (* Block / groups *)
    revert E. apply A.
    apply (atomic_bind_ro same same_refl); [readonly_tac | intros].
    apply (atomic_bind_ro same same_refl); [readonly_tac | intros].
    apply (atomic_bind_ro same same_refl); [readonly_tac | intros].
    apply (atomic_bind_ro same same_refl); [readonly_tac | intros].
    apply atomic_create_tail; [apply atomic_entity_create_new | apply ro_entity_create_new | intros; total_tac].
  - (* Block / data_arrays *)
    revert E. apply A.
    apply (atomic_bind_ro same same_refl); [readonly_tac | intros].
    apply (atomic_bind_ro same same_refl); [readonly_tac | intros].
    apply (atomic_bind_ro same same_refl); [readonly_tac | intros].
    apply (atomic_bind_ro same same_refl); [readonly_tac | intros].
    apply atomic_create_tail; [apply atomic_entity_create_new | apply ro_entity_create_new | intros; total_tac].
  - (* Block / tags *)
    revert E. apply A.
    apply (atomic_bind_ro same same_refl); [readonly_tac | intros].
    apply (atomic_bind_ro same same_refl); [readonly_tac | intros].
    apply (atomic_bind_ro same same_refl); [readonly_tac | intros].
    apply (atomic_bind_ro same same_refl); [readonly_tac | intros].
    apply atomic_create_tail; [apply atomic_entity_create_new | apply ro_entity_create_new | intros; total_tac].
  - (* Block / sources *)
    revert E. apply A.
    apply (atomic_bind_ro same same_refl); [readonly_tac | intros].
    apply (atomic_bind_ro same same_refl); [readonly_tac | intros].
    apply (atomic_bind_ro same same_refl); [readonly_tac | intros].
    apply (atomic_bind_ro same same_refl); [readonly_tac | intros].
    apply (atomic_bind_ro same same_refl); [readonly_tac | intros].
    apply atomic_create_tail; [apply atomic_entity_create_new | apply ro_entity_create_new | intros; total_tac].
Qed.
