"""Entry point:  check.py Cxx [--tier quick|thorough] [--seed N] [--replay FILE]"""
import argparse
import importlib
import json
import os
import sys
import traceback

HERE = os.path.dirname(os.path.abspath(__file__))
sys.path.insert(0, HERE)
import core  # noqa: E402


def main():
    ap = argparse.ArgumentParser()
    ap.add_argument("prop")
    ap.add_argument("--tier", default=os.environ.get("VERIF_TIER", "quick"), choices=["quick", "thorough"])
    ap.add_argument("--seed", type=int, default=int(os.environ.get("VERIF_SEED", "0") or 0))
    ap.add_argument("--replay", default=None)
    ap.add_argument("--keep", action="store_true", help="keep the work directory")
    a = ap.parse_args()
    prop = a.prop.upper()
    mod = importlib.import_module("props." + prop.lower())
    if a.replay and "--seed" not in sys.argv and "VERIF_SEED" not in os.environ:
        # replay files are named <id>-...-seed<N>.json: a replay that re-runs the check uses the seed that found it
        import re
        m = re.search(r"seed(\d+)\.json$", os.path.basename(a.replay))
        if m:
            a.seed = int(m.group(1))
    ctx = core.Ctx(prop, a.tier, a.seed)
    ctx.replay = None
    if a.replay:
        with open(a.replay) as f:
            ctx.replay = json.load(f)
    code = 1
    try:
        single = ctx.replay is not None and isinstance(ctx.replay.get("input"), dict) and "history" in ctx.replay["input"]
        if single and hasattr(mod, "replay"):
            # one operation history: executed alone, judged by the property's trace predicates
            code = mod.replay(ctx)
        else:
            st = mod.run(ctx)
            code = core.finish(ctx, st)
    except Exception:
        traceback.print_exc()
        rp = ctx.write_replay("%s-harness-error.json" % prop, {"property": prop, "error": traceback.format_exc()})
        print("VIOLATION property=%s replay=%s no-failing-input-found" % (prop, rp))
        code = 1
    finally:
        if not a.keep:
            ctx.cleanup()
    sys.exit(code)


main()
