(* Pure/Bfs.v -- nixio/util/find.py: the queue-based search with a level counter, on rose
   trees.  [A] is what a node is (an address in the store model). *)
From Coq Require Import List Arith Bool.
Import ListNotations.

Section B.
  Variable A : Type.
  Inductive tree := T (a : A) (cs : list tree).
  Definition root (t : tree) := match t with T a _ => a end.
  Definition kids (t : tree) := match t with T _ cs => cs end.
  Fixpoint size (t : tree) : nat := match t with T _ cs => S (fold_right (fun t n => size t + n) 0 cs) end.
  Definition fsize (ts : list tree) : nat := fold_right (fun t n => size t + n) 0 ts.

  (* fifo of (element, level); while fifo: child = pop(0); level = child.level + 1;
     if level <= limit: fifo += children at that level; result.append(child) *)
  Definition tag (l : nat) (ts : list tree) := map (fun t => (t, l)) ts.
  Fixpoint bfs (fuel : nat) (limit : nat) (q : list (tree * nat)) : list A :=
    match fuel with
    | O => []
    | S f => match q with
             | [] => []
             | (t, l) :: q' =>
                 root t :: bfs f limit (if S l <=? limit then q' ++ tag (S l) (kids t) else q')
             end
    end.

  (* the code's initial queue: a Section/Source root enters at level 0; for a File/Block root the
     top-level entities enter at level 1 -- after the fix, only if 1 <= limit *)
  Definition find (entity_root : bool) (t : tree) (limit : nat) (filt : A -> bool) : list A :=
    filter filt
      (if entity_root then bfs (size t) limit [(t, 0)]
       else if 1 <=? limit then bfs (fsize (kids t)) limit (tag 1 (kids t)) else []).

  (* the specification: level order, d more levels below the given forest *)
  Fixpoint levels (d : nat) (ts : list tree) : list A :=
    map root ts ++ match d with O => [] | S d' => levels d' (flat_map kids ts) end.
End B.
Arguments T {A}. Arguments root {A}. Arguments kids {A}. Arguments size {A}. Arguments fsize {A}.
Arguments tag {A}. Arguments bfs {A}. Arguments find {A}. Arguments levels {A}.
